"""Auxiliary lane helper: run the repository's own networking tests (real sockets, real threads) with the monitors of
skv/pytest_monitors.py attached; returns the monitors' report or None when the tests could not be run cleanly (fixed
ports in use by another process: never a verdict)."""
import json
import os
import subprocess
import tempfile
import time

from skv import env


def run_network_tests(attempts=3):
    work = tempfile.mkdtemp(prefix="skv-realsock-", dir=os.getcwd())
    out = os.path.join(work, "mon.json")
    e = dict(os.environ)
    e["PYTHONPATH"] = os.pathsep.join([env.REPO, env.VERIF_DIR, os.path.join(env.VERIF_DIR, ".deps")])
    e["SKV_MON_OUT"] = out
    e["PYTHONDONTWRITEBYTECODE"] = "1"
    for k in range(attempts):
        if os.path.exists(out):
            os.remove(out)
        p = subprocess.run(["/venv/bin/python", "-m", "pytest", "-q", "-p", "no:cacheprovider", "-p", "skv.pytest_monitors",
                            "--timeout=120", "--rootdir", work, os.path.join(env.REPO, "tests", "networking")],
                           cwd=work, env=e, stdout=subprocess.PIPE, stderr=subprocess.STDOUT, timeout=400)
        if os.path.exists(out):
            rep = json.load(open(out))
            if p.returncode == 0:
                rep["attempt"] = k + 1
                return rep
        time.sleep(3 + 2 * k)
    return None
