"""Deterministic in-memory network under real LocalPeer objects.

FakeSocket/FakeSelector replace the OS transport; the driver calls the real entry points that sit
directly under the selector loop (handle_incoming_connection, handle_remote_peer_selector_event,
step_managers), so framing, dispatch, the catch-all, disconnect logic, managers, pool and store are the
real code.  A seeded scheduler decides which enabled action runs next and how many bytes a recv/send
moves; the clock is virtual."""
import collections
import hashlib
import selectors
import struct

from skv import ref

EVENT_READ, EVENT_WRITE = selectors.EVENT_READ, selectors.EVENT_WRITE
Key = collections.namedtuple("Key", "fileobj fd events data")


class Clock:
    """virtual time.  Honest nodes' clocks differ: skew[node name] seconds are added for the node whose entry point is
    currently running (and in the time handed to its manager steps)"""

    def __init__(self, t=1_700_000_000):
        self.t = t
        self.skew = {}
        self.net = None

    def of(self, node):
        return self.t + (self.skew.get(node.name, 0) if node is not None and self.skew else 0)

    def __call__(self):
        if not self.skew or self.net is None:
            return self.t
        return self.of(self.net.current_node)


class FakeSocket:
    _next_fd = 1000

    def __init__(self, net, owner=None, listening=False):
        FakeSocket._next_fd += 1
        self.fd = FakeSocket._next_fd
        self.net = net
        self.owner = owner            # Node or None (harness endpoint)
        self.listening = listening
        self.peer = None              # other end
        self.in_flight = bytearray()  # sent by the other end, not yet read here
        self.eof = False              # other end closed
        self.closed = False
        self.refused = False
        self.rst = False              # the other end reset the connection: reads and writes fail, unread data is lost
        self.backlog = collections.deque()   # listening: pending server-side sockets
        self.remote_addr = ("0.0.0.0", 0)
        self.received = bytearray()   # harness endpoints: everything the node sent
        self.sent_total = 0
        self.read_chunks = 0

    # ---- socket API used by the repo
    def setblocking(self, flag):
        pass

    def setsockopt(self, *a):
        pass

    def fileno(self):
        return -1 if self.closed else self.fd

    def connect_ex(self, addr):
        self.remote_addr = addr
        self.net.connect(self, addr)
        if getattr(self, "failed_at_once", False):
            return 101          # ENETUNREACH: the connect fails immediately instead of reporting "in progress"
        return 115

    def accept(self):
        if not self.backlog:
            raise BlockingIOError(11, "no pending connection")
        conn = self.backlog.popleft()
        return conn, conn.remote_addr

    def getpeername(self):
        if self.closed:
            raise OSError(107, "Transport endpoint is not connected")
        return self.remote_addr

    def recv(self, n):
        if self.closed:
            raise OSError(9, "Bad file descriptor")
        if self.refused:
            raise ConnectionRefusedError(111, "Connection refused")
        if self.rst:
            self.net.recv_faults += 1
            raise ConnectionResetError(104, "Connection reset by peer")
        k = min(n, self.net.next_recv_size, len(self.in_flight))
        if k == 0:
            if self.eof:
                return b""
            raise BlockingIOError(11, "would block")
        data = bytes(self.in_flight[:k])
        del self.in_flight[:k]
        self.read_chunks += 1
        self.net.log_io("recv", self, data)
        return data

    def send(self, data):
        if self.closed:
            raise OSError(9, "Bad file descriptor")
        if self.refused or self.peer is None:
            raise ConnectionRefusedError(111, "Connection refused")
        if self.rst:
            self.net.send_faults += 1
            raise ConnectionResetError(104, "Connection reset by peer")
        if self.peer.closed or self.eof:
            self.net.send_faults += 1
            raise BrokenPipeError(32, "Broken pipe")
        k = min(len(data), self.net.next_send_size)
        if self.net.send_window is not None:
            # a socket whose send buffer takes a limited number of bytes per writable event: a send that was cut short means
            # the buffer is full -- another send before the next writable event fails with EAGAIN, as on a real non-blocking
            # socket.  ([domain] the buffer never fills up exactly at the end of a message: the byte after it still fits)
            if getattr(self, "cut_short_in_this_event", False):
                self.net.send_faults += 1
                self.net.eagain += 1
                raise BlockingIOError(11, "Resource temporarily unavailable")
            left = getattr(self, "window_left", None)
            if left is None:
                left = self.net.send_window
            k = min(k, max(left, 1))
            self.window_left = left - k
            if k < len(data):
                self.cut_short_in_this_event = True
                self.net.partial_sends += 1
        chunk = bytes(data[:k])
        if self.peer.owner is None:
            self.peer.received += chunk
        else:
            self.peer.in_flight += chunk
        self.sent_total += k
        self.net.log_io("send", self, chunk)
        return k

    def close(self):
        if not self.closed:
            self.closed = True
            if self.peer is not None:
                self.peer.eof = True

    # ---- harness side of a raw endpoint
    def push(self, data):
        """harness endpoint: bytes towards the node"""
        assert self.owner is None
        self.peer.in_flight += data

    def reset(self):
        """harness endpoint: abort the connection (RST) instead of closing it in an orderly way"""
        assert self.owner is None
        self.closed = True
        self.peer.rst = True
        self.peer.eof = True

    def take_received(self):
        out = bytes(self.received)
        del self.received[:]
        return out


class FakeSelector:
    def __init__(self):
        self.map = {}

    def register(self, fileobj, events, data=None):
        if getattr(fileobj, "closed", False):
            raise ValueError("Invalid file descriptor: -1")
        if fileobj in self.map:
            raise KeyError("already registered")
        self.map[fileobj] = Key(fileobj, fileobj.fileno(), events, data)
        return self.map[fileobj]

    def modify(self, fileobj, events, data=None):
        if getattr(fileobj, "closed", False):
            raise ValueError("Invalid file descriptor: -1")
        if fileobj not in self.map:
            raise KeyError("not registered")
        self.map[fileobj] = Key(fileobj, fileobj.fileno(), events, data)
        return self.map[fileobj]

    def unregister(self, fileobj):
        if fileobj not in self.map:
            raise KeyError("not registered")
        return self.map.pop(fileobj)

    def get_map(self):
        return self.map

    def get_key(self, fileobj):
        return self.map[fileobj]

    def select(self, timeout=None):
        return []

    def close(self):
        pass


class _SockFactory:
    """stands in for the `socket` module inside skepticoin.networking.local_peer"""

    def __init__(self, net):
        self.net = net
        self.AF_INET, self.SOCK_STREAM, self.SOL_SOCKET, self.SO_REUSEADDR = 2, 1, 1, 2

    def socket(self, *a):
        return FakeSocket(self.net, owner=self.net.current_node)


class Node:
    def __init__(self, net, name, addr, lp):
        self.net, self.name, self.addr, self.lp = net, name, addr, lp
        self.listen_sock = None
        self.escaped = []      # exceptions that escaped the entry points


class Net:
    """owns the sockets, the clock and the action log"""

    def __init__(self, rng, clock=None):
        import skepticoin.networking.local_peer as lpmod
        import skepticoin.networking.remote_peer as rpmod
        self.rng = rng
        self.clock = clock or Clock()
        self.lpmod, self.rpmod = lpmod, rpmod
        lpmod.socket = _SockFactory(self)
        lpmod.time = self.clock
        rpmod.time = self.clock
        self.clock.net = self
        self.nodes = {}
        self.by_addr = {}
        self.current_node = None
        self.next_recv_size = 1024
        self.next_send_size = 1 << 30
        self.send_window = None     # bytes a socket's send buffer takes per writable event (None: unlimited)
        self.partial_sends = 0
        self.eagain = 0
        self.actions = hashlib.blake2b(digest_size=8)
        self.n_actions = 0
        self.io_log = None      # optional list of (dir, node name, bytes)
        self.send_faults = 0    # sends that failed because the other end had gone
        self.recv_faults = 0    # reads that failed because the other end reset the connection
        self.refuse = set()     # addresses that refuse connections although a node listens
        self.unreachable = set()    # addresses to which a connect fails immediately (ENETUNREACH)
        self.immediate_connect_failures = 0
        self.all_sockets = []

    # ---- construction
    def add_node(self, name, addr, coinstate, disk_interface, listen=True, nonce=None):
        # the node is brought up by the repository's own start-up code (NetworkingThread.__init__: LocalPeer, initial chain
        # state, peer book from the disk interface); the thread itself is never started -- the harness drives the entry points
        from skepticoin.networking.threading import NetworkingThread
        disk_interface.load_peers = lambda: {}          # no peers.json, no download from the network
        thread = NetworkingThread(coinstate, addr[1] if listen else None, disk_interface)
        lp = thread.local_peer
        lp.selector.close()
        lp.selector = FakeSelector()
        lp.running = True
        lp.port = addr[1] if listen else None
        if nonce is not None:
            lp.nonce = nonce
        lp.chain_manager.started_at = self.clock()
        node = Node(self, name, addr, lp)
        if listen:
            ls = FakeSocket(self, owner=node, listening=True)
            lp.selector.register(ls, EVENT_READ, data=self.rpmod.LISTENING_SOCKET)
            node.listen_sock = ls
            self.by_addr[addr] = node
        self.nodes[name] = node
        return node

    def log_io(self, direction, sock, data):
        if self.io_log is not None and sock.owner is not None:
            self.io_log.append((direction, sock.owner.name, data))

    def note(self, *what):
        self.n_actions += 1
        self.actions.update(repr(what).encode())

    # ---- connection establishment
    def connect(self, sock, addr):
        """called from FakeSocket.connect_ex (an outgoing connection of the current node)"""
        self.all_sockets.append(sock)
        target = self.by_addr.get(addr)
        if addr in self.unreachable:
            # no route (the host's network is down, a broadcast / multicast address was announced): connect_ex reports the
            # error at once; the socket is dead, whatever is done with it afterwards fails
            sock.refused = True
            sock.failed_at_once = True
            self.immediate_connect_failures += 1
            return
        if target is None or addr in self.refuse:
            sock.refused = True
            return
        server = FakeSocket(self, owner=target)
        src_host = sock.owner.addr[0] if sock.owner else "10.9.9.9"
        server.remote_addr = (src_host, 40000 + (server.fd % 20000))
        server.peer, sock.peer = sock, server
        self.all_sockets.append(server)
        target.listen_sock.backlog.append(server)

    def raw_connect(self, node, src=("10.7.7.7", 45000)):
        """harness endpoint connecting INTO a node (node sees an incoming connection); returns the harness end"""
        raw = FakeSocket(self, owner=None)
        server = FakeSocket(self, owner=node)
        server.remote_addr = src
        server.peer, raw.peer = raw, server
        node.listen_sock.backlog.append(server)
        self.all_sockets += [raw, server]
        self.do_accept(node)
        return raw

    def raw_listen(self, addr):
        """harness endpoint that accepts the node's OUTGOING connection to addr: returns a placeholder whose
        .conn becomes the harness end once the node connects"""
        holder = RawListener(self, addr)
        self.by_addr[addr] = holder
        return holder

    # ---- guarded calls of the real entry points
    def _call(self, node, fn, *a):
        self.current_node = node
        try:
            return fn(*a)
        except Exception as e:        # an exception escaping an entry point would stop the node's event loop
            import traceback
            node.escaped.append("%s: %r\n%s" % (getattr(fn, "__name__", fn), e, traceback.format_exc()[-900:]))
        finally:
            self.current_node = None

    def do_accept(self, node):
        self.note("accept", node.name)
        self._call(node, node.lp.handle_incoming_connection, node.listen_sock)

    def do_read(self, node, sock, size=None):
        if sock not in node.lp.selector.map:
            return False
        self.next_recv_size = size or 1024
        self.note("read", node.name, min(self.next_recv_size, len(sock.in_flight)))
        key = node.lp.selector.map[sock]
        self._call(node, node.lp.handle_remote_peer_selector_event, key, EVENT_READ)
        self.next_recv_size = 1024
        return True

    def do_write(self, node, sock, size=None):
        if sock not in node.lp.selector.map:
            return False
        self.next_send_size = size or (1 << 30)
        sock.window_left = self.send_window
        sock.cut_short_in_this_event = False
        self.note("write", node.name, size)
        key = node.lp.selector.map[sock]
        self._call(node, node.lp.handle_remote_peer_selector_event, key, EVENT_WRITE)
        self.next_send_size = 1 << 30
        return True

    def do_step(self, node, t=None):
        if t is not None:
            self.clock.t = t
        self.note("step", node.name, self.clock.t)
        self._call(node, node.lp.step_managers, self.clock.of(node))

    # ---- enabled actions
    def enabled(self, timers=False):
        acts = []
        for node in self.nodes.values():
            if node.listen_sock is not None and node.listen_sock.backlog:
                acts.append(("accept", node, None))
            for sock, key in list(node.lp.selector.map.items()):
                if sock.listening:
                    continue
                if (key.events & EVENT_READ) and (sock.in_flight or sock.eof or sock.refused):
                    acts.append(("read", node, sock))
                if key.events & EVENT_WRITE:
                    acts.append(("write", node, sock))
            if timers:
                acts.append(("step", node, None))
        return acts

    def run_action(self, act, recv_size=None, send_size=None):
        kind, node, sock = act
        if kind == "accept":
            self.do_accept(node)
        elif kind == "read":
            self.do_read(node, sock, recv_size)
        elif kind == "write":
            self.do_write(node, sock, send_size)
        else:
            self.do_step(node)

    def settle(self, node=None, max_actions=100000, fragment=False):
        """run enabled non-timer actions (of one node, or all) until none is left; returns actions run"""
        n = 0
        while n < max_actions:
            acts = [a for a in self.enabled() if node is None or a[1] is node]
            if not acts:
                break
            act = acts[0] if not fragment else self.rng.choice(acts)
            size = self.rng.choice([1, 2, 7, 64, 500, 1024]) if fragment else None
            self.run_action(act, recv_size=size)
            n += 1
        return n

    def in_flight_bytes(self):
        return sum(len(s.in_flight) for s in self.all_sockets if not s.closed and s.owner is not None)

    def interleaving_id(self):
        return self.actions.hexdigest()


class _Backlog:
    def __init__(self, holder):
        self.holder = holder

    def append(self, server):
        server.owner = None          # harness endpoint: what the node sends accumulates in .received
        self.holder.conns.append(server)

    def __bool__(self):
        return False

    def __len__(self):
        return 0


class RawListener:
    """harness stand-in for a remote node that the node under test connects out to; .conn is the harness end of the
    most recent connection"""

    def __init__(self, net, addr):
        self.net, self.addr = net, addr
        self.name = "raw%s" % (addr,)
        self.listen_sock = self
        self.backlog = _Backlog(self)
        self.conns = []

    @property
    def conn(self):
        return self.conns[-1] if self.conns else None


STYLES = {}      # header styles used by the Wire objects of this worker (reported by the checks that want to)


# ---- message helpers for harness endpoints (reference encoders where possible, real classes otherwise)
class Wire:
    """builds frames with the real message classes and parses the node's output with the reference parser"""

    def __init__(self, clock):
        import skepticoin.networking.messages as ms
        self.ms = ms
        self.clock = clock
        self.next_id = 1
        # what an honest peer is free to choose in a message header: its message ids (the repository's own nodes count from
        # 1 PER CONNECTION, so two peers use the same ids all the time), the context value, its own clock's timestamp.
        # One style per Wire object, drawn from the worker's seeded global generator (VERIF_WIRE_STYLE forces one)
        import os as _os
        import random as _random
        self.style = _os.environ.get("VERIF_WIRE_STYLE") or _random.choice(
            ["sequential", "sequential", "always-1", "cycle-3", "random", "sequential+odd-context", "random+odd-clock"])
        self._r = _random.Random(_random.getrandbits(32))
        STYLES[self.style] = STYLES.get(self.style, 0) + 1

    def frame(self, message, in_response_to=0, context=7):
        st, r = self.style, self._r
        mid = self.next_id
        if st.startswith("always-1"):
            mid = 1
        elif st.startswith("cycle-3"):
            mid = 1 + self.next_id % 3
        elif st.startswith("random"):
            mid = r.randrange(1, 1 << 32)
        ts = self.clock() & 0xFFFFFFFF
        if "odd-context" in st and context == 7:
            context = r.choice([0, 1, (1 << 64) - 1, r.getrandbits(64)])
        if "odd-clock" in st:
            ts = r.choice([0, 1, (1 << 32) - 1, (ts + 7200) & 0xFFFFFFFF, max(0, ts - 86400), (1 << 31) - 1, 1 << 31])
        h = self.ms.MessageHeader(ts, mid, in_response_to, context)
        self.next_id += 1
        return ref.frame(h.serialize() + message.serialize())

    def hello(self, nonce=12345, my_port=2412, your_port=0):
        from ipaddress import IPv6Address
        ms = self.ms
        return self.frame(ms.HelloMessage([ms.SupportedVersion(0)], IPv6Address("::FFFF:10.7.7.7"), your_port,
                                          IPv6Address("0::0"), my_port, nonce, b"skv harness"))

    def block(self, real_block, in_response_to=0):
        return self.frame(self.ms.DataMessage(self.ms.DATA_BLOCK, real_block), in_response_to)

    def transaction(self, real_tx, in_response_to=0):
        return self.frame(self.ms.DataMessage(self.ms.DATA_TRANSACTION, real_tx), in_response_to)

    @staticmethod
    def parse(stream):
        """(list of dicts {header, msg}, rest) parsed from bytes the node sent"""
        payloads, refused, rest = ref.parse_frames(stream)
        out = []
        for p in payloads:
            hdr, body = ref.parse_msg_header(p)
            out.append({"header": hdr, "msg": ref.parse_message(body)})
        return out, rest


def greet(net, node, raw, wire, nonce=12345, my_port=2412):
    """complete the greeting on a raw endpoint: harness hello in, node's hello out"""
    raw.push(wire.hello(nonce=nonce, my_port=my_port))
    net.settle(node)
    net.do_step(node)            # the node sends its own greeting from the network manager's step
    net.settle(node)
    return raw.take_received()
