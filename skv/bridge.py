"""Conversions between the repo's objects and the reference model's structures, by field (never by
going through either side's encoder)."""
from skv import ref


def sig_to_ref(sig):
    n = type(sig).__name__
    if n == "SignableEquivalent":
        return (ref.SIG_EQ,)
    if n == "CoinbaseData":
        return (ref.SIG_CB, sig.height, sig.signature)
    if n == "SECP256k1Signature":
        return (ref.SIG_EC, sig.signature)
    raise TypeError(n)


def real_to_rtx(tx):
    return ref.RTx([(i.output_reference.hash, i.output_reference.index, sig_to_ref(i.signature)) for i in tx.inputs],
                   [(o.value, o.public_key.public_key) for o in tx.outputs])


def real_to_rheader(h):
    s, e = h.summary, h.pow_evidence
    return ref.RBlock(s.height, s.previous_block_hash, s.merkle_root_hash, s.timestamp, s.target, s.nonce,
                      e.summary_hash, e.chain_sample, e.block_hash, [])


def real_to_rblock(b):
    r = real_to_rheader(b.header)
    r.txs = [real_to_rtx(t) for t in b.transactions]
    return r


def sig_to_real(sig):
    import skepticoin.signing as sg
    if sig[0] == ref.SIG_EQ:
        return sg.SignableEquivalent()
    if sig[0] == ref.SIG_CB:
        return sg.CoinbaseData(sig[1], sig[2])
    return sg.SECP256k1Signature(sig[1])


def rtx_to_real(rtx):
    import skepticoin.datatypes as dt
    import skepticoin.signing as sg
    return dt.Transaction(
        [dt.Input(dt.OutputReference(h, i), sig_to_real(s)) for (h, i, s) in rtx.inputs],
        [dt.Output(v, sg.SECP256k1PublicKey(k)) for (v, k) in rtx.outputs])


def rblock_to_real(rb):
    import skepticoin.datatypes as dt
    return dt.Block(dt.BlockHeader(
        dt.BlockSummary(rb.height, rb.prev, rb.merkle, rb.ts, rb.target, rb.nonce),
        dt.PowEvidence(rb.sh, rb.cs, rb.bh)), [rtx_to_real(t) for t in rb.txs])
