"""C04 - fork choice: first-seen block of greatest height; tip set; by-height index; forks().

A history is a parent vector p[i] < i over arrival order.  After every arrival the real CoinState is
compared with a small reference computed from the parent vector alone.  Exhaustive over all parent
vectors up to a bound (cheap un-mined blocks through add_block_no_validation), plus random long
histories with mined, fully validated blocks through add_block."""
import itertools
import random

from skv import env, ref, gen, bridge
from skv.runner import digest

PROPERTY = "C04"
LEVEL = "exploration"
NSHARD = 16
SHARD_TIMEOUT = {"quick": 600, "thorough": 3000}


def shards(tier, seed):
    return [{"shard": i, "nshard": NSHARD, "tier": tier, "seed": seed} for i in range(NSHARD)]


class Model:
    """reference over the parent vector; index 0 is genesis"""

    def __init__(self):
        self.parent = [None]
        self.height = [0]
        self.head = 0
        self.children = [0]

    def add(self, p):
        i = len(self.parent)
        self.parent.append(p)
        self.height.append(self.height[p] + 1)
        self.children.append(0)
        self.children[p] += 1
        if self.height[i] > self.height[self.head]:
            self.head = i
        return i

    def tips(self):
        return {i for i in range(len(self.parent)) if self.children[i] == 0}

    def ancestors(self, i):
        out = {}
        while i is not None:
            out[self.height[i]] = i
            i = self.parent[i]
        return out

    def lca_with_active(self, i):
        active = set(self.ancestors(self.head).values())
        while i not in active:
            i = self.parent[i]
        return i


TARGETS = [b"\xff" * 32, b"\x00" + b"\xff" * 31, b"\x00\x00" + b"\xff" * 30, b"\x7f" + b"\xff" * 31, b"\x00" * 31 + b"\x01"]


def target_of(n, tseed):
    """stated target of the n-th arrival: the same for all blocks (tseed None), or varying from block to block -- as between
    the two sides of a fork that crosses a retarget boundary; this version measures work as height whatever the targets"""
    if tseed is None:
        return TARGETS[0]
    return random.Random(tseed * 1000003 + n).choice(TARGETS)


def cheap_block(dt, sg, height, prev, n, target=b"\xff" * 32):
    cb = dt.Transaction([dt.Input(dt.OutputReference(b"\x00" * 32, 0), sg.CoinbaseData(height, b"%d" % n))],
                        [dt.Output(10, sg.SECP256k1PublicKey(b"\x01" * 64))])
    return dt.Block(dt.BlockHeader(dt.BlockSummary(height, prev, b"\x00" * 32, 1615757105 + n, target, n),
                                   dt.PowEvidence(b"\x00" * 32, b"\x00" * 32, b"\x00" * 32)), [cb])


class Checker:
    def __init__(self):
        self.viol = []
        self.c = {"histories": 0, "arrivals_checked": 0, "ties_observed": 0, "head_switches": 0, "reorg_switches": 0,
                  "index_maps_compared": 0, "fork_pairs_compared": 0, "max_tips_seen": 0, "validated_adds": 0,
                  "unvalidated_adds": 0}
        self.digests = set()

    def v(self, key, msg, w):
        if sum(1 for x in self.viol if x["key"] == key) < 3:
            self.viol.append({"key": key, "msg": msg, "witness": w})

    def after_add(self, cs, prev_cs, model, ids, w, full_index=True, rng=None, light=False):
        """ids[i] = block id of model index i"""
        c = self.c
        c["arrivals_checked"] += 1
        n = len(ids)
        idx = {b: i for i, b in enumerate(ids)}
        new = n - 1
        # head
        if cs.current_chain_hash != ids[model.head]:
            got = idx.get(cs.current_chain_hash, "?")
            key = "head-not-first-seen-among-highest" if got != "?" and model.height[got] == model.height[model.head] \
                else "head-not-of-greatest-height"
            self.v(key, "after arrival %d: head is block #%s (height %s), reference says #%d (height %d); parents=%s" % (
                new, got, model.height[got] if got != "?" else "?", model.head, model.height[model.head], model.parent[1:]), w)
        if prev_cs is not None and prev_cs.current_chain_hash != cs.current_chain_hash:
            c["head_switches"] += 1
            old = idx[prev_cs.current_chain_hash]
            if model.parent[new] != old:
                c["reorg_switches"] += 1
            got = idx.get(cs.current_chain_hash)
            if got is not None and not model.height[got] > model.height[old]:
                self.v("head-switched-without-more-work", "head moved from #%d to #%d of no greater height" % (old, got), w)
        if model.height[new] == model.height[model.head] and new != model.head:
            c["ties_observed"] += 1
        if light:       # very long histories: the set comparisons below are done on a subset of the arrivals
            return
        # chain states obtained EARLIER in this history (the node keeps them: the state before a block, the last validated
        # state it falls back to, the miner's snapshot) still report the head, tips and blocks they reported then
        if len(ids) == 2 or getattr(self, "_earlier_n", 0) >= len(ids):
            self._earlier = []
        self._earlier_n = len(ids)
        earlier = getattr(self, "_earlier", [])
        sample = earlier if len(earlier) <= 10 else earlier[-4:] + [earlier[(new * 7 + k * 13) % len(earlier)] for k in range(4)]
        for (old_cs, old_head, old_tips, old_n, arrival) in sample:
            c["earlier_states_rechecked"] = c.get("earlier_states_rechecked", 0) + 1
            if old_cs.current_chain_hash != old_head or set(old_cs.heads.keys()) != old_tips or len(old_cs.block_by_hash) != old_n:
                self.v("earlier-chain-state-changed-by-a-later-arrival", "the chain state obtained after arrival %d reported tips %s; after "
                       "arrival %d the SAME state object reports tips %s (head unchanged: %s, %d blocks then, %d now); parents=%s" % (
                           arrival, sorted(idx.get(k, -1) for k in old_tips), new, sorted(idx.get(k, -1) for k in old_cs.heads.keys()),
                           old_cs.current_chain_hash == old_head, old_n, len(old_cs.block_by_hash), model.parent[1:]), w)
                break
        earlier.append((cs, cs.current_chain_hash, set(cs.heads.keys()), len(cs.block_by_hash), new))
        self._earlier = earlier[-60:]
        # tips
        tips = model.tips()
        c["max_tips_seen"] = max(c["max_tips_seen"], len(tips))
        if set(cs.heads.keys()) != {ids[i] for i in tips}:
            self.v("tip-set-wrong", "after arrival %d: tips %s, reference %s; parents=%s" % (
                new, sorted(idx.get(k, -1) for k in cs.heads.keys()), sorted(tips), model.parent[1:]), w)
        else:
            for k, b in cs.heads.items():
                if b.hash() != k:
                    self.v("tip-set-wrong", "tip map value is a different block than its key", w)
        if set(cs.block_by_hash.keys()) != set(ids):
            self.v("stored-block-set-wrong", "stored blocks differ from the blocks added", w)
        # by-height index
        which = range(n) if full_index else sorted({new, model.head, 0} | {rng.randrange(n) for _ in range(4)})
        if set(cs.block_by_height_by_hash.keys()) != set(ids):
            self.v("height-index-missing-blocks", "by-height index does not exist for exactly the stored blocks", w)
        for i in which:
            c["index_maps_compared"] += 1
            m = cs.block_by_height_by_hash.get(ids[i])
            exp = {h: ids[a] for h, a in model.ancestors(i).items()}
            got = {h: b.hash() for h, b in m.items()} if m is not None else None
            if got != exp:
                self.v("height-index-not-ancestors", "index at block #%d lists %s, ancestors are %s; parents=%s" % (
                    i, sorted((h, idx.get(b, -1)) for h, b in (got or {}).items()),
                    sorted((h, a) for h, a in model.ancestors(i).items()), model.parent[1:]), w)
        # forks()
        try:
            forks = cs.forks()
            got = sorted((idx.get(t.hash(), -1), idx.get(l.hash(), -1)) for t, l in forks)
            exp = sorted((t, model.lca_with_active(t)) for t in tips)
            c["fork_pairs_compared"] += len(exp)
            if got != exp:
                self.v("forks-report-wrong-ancestor", "forks() = %s, reference %s; parents=%s" % (got, exp, model.parent[1:]), w)
        except Exception as e:
            self.v("forks-raises", "forks() raised %r; parents=%s" % (e, model.parent[1:]), w)


def rle(parents):
    """compact form of a long parent vector: runs [start index, length] in which block i+1 sits on block i, other entries verbatim"""
    out = []
    i = 0
    while i < len(parents):
        j = i
        while j + 1 < len(parents) and parents[j + 1] == parents[j] + 1:
            j += 1
        if j - i >= 3:
            out.append(["run", parents[i], j - i + 1])
        else:
            out += [[x] for x in parents[i:j + 1]]
        i = j + 1
    return out


def unrle(r):
    out = []
    for e in r:
        if e[0] == "run":
            out += list(range(e[1], e[1] + e[2]))
        else:
            out.append(e[0])
    return out


def run_vector(chk, mods, parents, mode="cheap", sampled=None, tseed=None):
    """parents: list p[1..n] (index 0 = genesis)"""
    CoinState, dt, sg = mods
    model = Model()
    cs = CoinState.zero()
    ids = [cs.current_chain_hash]
    blocks = {0: cs.block_by_hash[ids[0]]}
    w = {"kind": "vector", "parents": list(parents)} if len(parents) <= 450 else {"kind": "vector", "parents_rle": rle(parents)}
    chk.c["histories"] += 1
    if tseed is not None:
        w["target_seed"] = tseed
        chk.c["histories_with_varying_targets"] = chk.c.get("histories_with_varying_targets", 0) + 1
    chk.digests.add(digest(tuple(parents), tseed))
    for n, p in enumerate(parents, start=1):
        i = model.add(p)
        blk = cheap_block(dt, sg, model.height[i], ids[p], n, target_of(n, tseed))
        prev = cs
        try:
            cs = cs.add_block_no_validation(blk)
        except Exception as e:
            chk.v("add-raises-on-stored-parent", "adding block #%d (height %d) on the stored block #%d raised %r" % (
                n, model.height[i], p, e), w if len(parents) <= 80 else {"kind": "vector", "parents_rle": rle(parents)})
            return
        chk.c["unvalidated_adds"] += 1
        ids.append(blk.hash())
        if sampled is None:
            chk.after_add(cs, prev, model, ids, w)
        else:
            N = len(parents)
            light = N > 600 and not (n <= 20 or n % 101 == 0 or n >= N - 40 or (N // 2 - 3 <= n <= N // 2 + 3) or 1000 <= n <= 1012)
            chk.after_add(cs, prev, model, ids, w, full_index=False, rng=sampled, light=light)


def run_mined(chk, rng, nblocks, w_seed):
    """random long history with mined blocks through the validating entry point"""
    world = gen.World(rng, nkeys=3)
    model = Model()
    ids = [world.gid]
    wit = {"kind": "mined", "seed": w_seed, "nblocks": nblocks}
    chk.c["histories"] += 1
    parents = []
    cs = world.cs
    style = rng.choice(["ties", "overtake", "random", "bushy"])
    for n in range(1, nblocks + 1):
        m = len(ids)
        if style == "ties":      # long runs of equal-height rivals
            hh = model.height[model.head]
            cands = [i for i in range(m) if model.height[i] == hh - 1] or [model.head]
            p = rng.choice(cands) if rng.random() < 0.7 else model.head
        elif style == "overtake":  # a rival fork that catches up and passes late
            tips = sorted(model.tips())
            p = rng.choice(tips) if rng.random() < 0.8 else rng.randrange(m)
        elif style == "bushy":
            p = rng.randrange(m)
        else:
            p = rng.choice([model.head, rng.randrange(m), max(0, m - 1 - rng.randrange(3))])
        parents.append(p)
        i = model.add(p)
        par = world.chain.blocks[ids[p]]
        rtxs = []
        if rng.random() < 0.3:
            t = world.make_rtx(ids[p], rng)
            if t is not None:
                rtxs.append(t)
        rb, real = world.assemble(ids[p], rtxs, par.ts + rng.choice([1, 30, 120]), rng.choice(world.keys)[1])
        prev = cs
        try:
            cs = cs.add_block(real, rb.ts)
        except Exception as e:
            if not ref.block_codes(world.chain, rb, rb.ts):
                chk.v("valid-block-on-stored-parent-refused", "arrival %d: a fully valid block (height %d, parent #%d %s) is refused by "
                      "the validating entry point (%r): the branch it extends can never become the head" % (
                          n, model.height[i], p, "= head" if p == model.head else "not the head", e), dict(wit, parents=list(parents)))
            break
        world.cs = cs
        world.accept(rb, real, cs=cs)
        chk.c["validated_adds"] += 1
        ids.append(rb.id())
        wit["parents"] = parents
        chk.after_add(cs, prev, model, ids, wit, full_index=(n % 8 == 0 or n == nblocks), rng=rng)
    chk.digests.add(digest(tuple(parents)))
    return parents


def deliver_to_node(chk, rng, blocks_real, parents_of, arrival, tag, w):
    """a real node (genesis only) receives the blocks over the wire, as relayed blocks, in the given parent-before-child
    order; after every arrival its chain state is compared with the model like any other history"""
    from skv import nodekit
    empty = gen.World(rng)
    sn = nodekit.SingleNode(empty, rng, tag, npeers=2)
    try:
        sn.net.clock.t = max(b.timestamp for b in blocks_real.values()) + 100
        model = Model()
        ids = [empty.gid]
        pos = {empty.gid: 0}
        prev_cs = sn.cm.coinstate
        for bid in arrival:
            model.add(pos[parents_of[bid]])
            ids.append(bid)
            pos[bid] = len(ids) - 1
            raw = rng.choice(sn.active() or [sn.add_peer()])
            raw.push(sn.wire.block(blocks_real[bid]))
            sn.settle(fragment=rng.random() < 0.3)
            cs = sn.cm.coinstate
            chk.c["node_lane_arrivals"] = chk.c.get("node_lane_arrivals", 0) + 1
            if bid not in cs.block_by_hash:
                chk.v("node:arrived-block-not-in-chain-state", "a valid block (arrival %d, height %d) delivered to a running node "
                      "after its parent is not part of the node's chain state" % (len(ids) - 1, model.height[-1]), w)
                break
            chk.after_add(cs, prev_cs, model, ids, w, full_index=False, rng=rng)
            prev_cs = cs
        esc = sn.escaped()
        if esc:
            chk.v("node:exception-escaped", esc[0][:200], w)
    finally:
        sn.close()


def node_lane(chk, rng, ntrees):
    from skv.props import c03
    for j in range(ntrees):
        world = gen.World(rng)
        world.grow(rng.choice([8, 12, 16]), rng, tx_prob=0.3, bias="mixed")
        ids = world.chain.order[1:]
        arrival = c03.topo_orders(world.chain, ids, rng, 1)[0]
        w = {"kind": "node", "blocks": gen.blocks_hex(world, arrival)}
        chk.c["node_lane_trees"] = chk.c.get("node_lane_trees", 0) + 1
        chk.digests.add(digest("node", b"".join(arrival)))
        deliver_to_node(chk, rng, {b: world.real[b] for b in ids}, {b: world.chain.blocks[b].prev for b in ids}, arrival,
                        "c04-node-%d" % j, w)



def _replay_route_story(spec):
    from skv.props import c09
    env.boot()
    mon = c09.route_histories(random.Random(1), 8, 14, c09.all_classes(), "replay-route", story_share=0.8)
    return {"evaluations": mon.c.get("deliveries", 0), "distinct": mon.c.get("download_route_stories", 0),
            "violations": [{"key": "node-route:" + v["key"], "msg": v["msg"], "witness": v["witness"]} for v in mon.viol[:6]],
            "counters": {"route_lane_stories": mon.c.get("download_route_stories", 0)}, "digests": []}

def run_shard(spec):
    if "replay" in spec and isinstance(spec["replay"], dict) and spec["replay"].get("kind") == "download-route-story":
        # (the story is re-run with this check's classes on the current tree; the recorded chain is for the reader)
        return _replay_route_story(spec)
    env.boot()
    from skepticoin.coinstate import CoinState
    import skepticoin.datatypes as dt
    import skepticoin.signing as sg
    mods = (CoinState, dt, sg)
    chk = Checker()
    if "replay" in spec:
        w = spec["replay"]
        if w.get("kind") == "node":
            rbs = [ref.parse_block(bytes.fromhex(hx)) for hx in w["blocks"]]
            deliver_to_node(chk, random.Random(1), {rb.id(): bridge.rblock_to_real(rb) for rb in rbs}, {rb.id(): rb.prev for rb in rbs},
                            [rb.id() for rb in rbs], "c04-replay", w)
        elif "parents_rle" in w:
            run_vector(chk, mods, unrle(w["parents_rle"]), sampled=random.Random(1), tseed=w.get("target_seed"))
        elif w.get("kind") == "vector" or "parents" in w:
            run_vector(chk, mods, w["parents"], tseed=w.get("target_seed"))
        return {"evaluations": chk.c["arrivals_checked"], "digests": sorted(chk.digests), "violations": chk.viol,
                "counters": chk.c}
    quick = spec["tier"] == "quick"
    nmax = 7 if quick else 9        # new blocks after genesis; all n! parent vectors for every n <= nmax
    k = 0
    for n in range(1, nmax + 1):
        for vec in itertools.product(*[range(i) for i in range(1, n + 1)]):
            if k % spec["nshard"] == spec["shard"]:
                run_vector(chk, mods, vec)
                run_vector(chk, mods, vec, tseed=k % 7)
            k += 1
    rng = random.Random("c04/%d/%d" % (spec["seed"], spec["shard"]))
    samples = []
    for j in range(3 if quick else 40):
        nb = rng.choice([12, 20, 30, 45, 60])
        parents = run_mined(chk, rng, nb, "c04/%d/%d#%d" % (spec["seed"], spec["shard"], j))
        if len(samples) < 1:
            samples.append({"kind": "mined history", "parents": parents})
    # random un-mined long vectors
    for j in range(40 if quick else 800):
        n = rng.choice([10, 14, 20, 30, 60])
        vec = []
        mode = rng.choice(["uniform", "recent", "twochains"])
        for i in range(1, n + 1):
            if mode == "uniform":
                vec.append(rng.randrange(i))
            elif mode == "recent":
                vec.append(max(0, i - 1 - rng.choice([0, 0, 0, 1, 2])))
            else:
                vec.append(max(0, i - 2) if i > 2 else 0)
        run_vector(chk, mods, vec, tseed=rng.choice([None, 1, 2, 3]))
    # long histories: a main chain of length H, then a branch forking `depth` blocks below the head that grows until it
    # overtakes (deep reorganisations; only cheap un-mined blocks, sampled index checks)
    for j in range(3 if quick else 30):
        H = rng.choice([120, 160, 260, 400])
        depth = rng.choice([3, 50, 99, 100, 101, 110, H - 10, H - 1])
        vec = [i for i in range(H)]                    # block i+1 on block i
        fork_at = H - depth
        cur = fork_at
        for k in range(depth + 1):
            vec.append(cur)
            cur = len(vec)
        vec += [len(vec), rng.randrange(len(vec))]
        run_vector(chk, mods, vec, sampled=rng)
        chk.c["long_histories"] = chk.c.get("long_histories", 0) + 1
    # very long histories (above 1000 blocks): a main chain, a branch that forks more than 1000 blocks below the head and
    # overtakes, late blocks on deeply buried blocks
    for j in range(1 if quick else 4):
        H = rng.choice([1040, 1100, 1300])
        depth = rng.choice([1001, 1010, H - 5, H - 1])
        vec = [i for i in range(H)]
        fork_at = H - depth
        cur = fork_at
        for k in range(depth + 1):
            vec.append(cur)
            cur = len(vec)
        vec += [len(vec), rng.randrange(len(vec)), rng.randrange(1, 20), 0, len(vec) + 2]
        run_vector(chk, mods, vec, sampled=rng)
        chk.c["very_long_histories"] = chk.c.get("very_long_histories", 0) + 1
    if spec["shard"] % 2 == 0:
        node_lane(chk, rng, 2 if quick else 25)
    if spec["shard"] % 4 == 1:
        from skv import cstream
        route_lane(chk.v, chk.c, rng, 3 if quick else 20, dict(cstream.C02_CLASSES), "c04r")
    samples.append({"kind": "exhaustive parent vectors", "up_to_new_blocks": nmax, "example": [0, 0, 1, 1, 2]})
    return {"evaluations": chk.c["arrivals_checked"], "digests": sorted(chk.digests), "violations": chk.viol,
            "counters": chk.c, "samples": samples, "exhaustive": True}


def route_lane(add_violation, counters, rng, nhist, classes, tag):
    """this property on the routes by which a RUNNING NODE takes blocks (relay and download, real store): histories in which the
    node had asked a peer for blocks, blocks were announced, arrived unrequested, late, before their parent, or again with another
    body (the stories of skv/props/c09.py), built from this check's classes of rule-breaking blocks"""
    from skv.props import c09
    mon = c09.route_histories(rng, nhist, 14, classes, tag)
    counters["route_lane_deliveries"] = counters.get("route_lane_deliveries", 0) + mon.c.get("deliveries", 0)
    counters["route_lane_stories"] = counters.get("route_lane_stories", 0) + mon.c.get("download_route_stories", 0)
    for k_, v_ in mon.c.items():
        if k_.startswith("story:"):
            counters["route_" + k_] = counters.get("route_" + k_, 0) + v_
    for v in mon.viol:
        add_violation("node-route:" + v["key"], v["msg"], v["witness"])


def finalize(m, tier):
    c = m["counters"]
    nmax = 7 if tier == "quick" else 9
    import math
    total = sum(math.factorial(n) for n in range(1, nmax + 1))
    return {
        "rule": "history = parent vector over arrival order; ALL n! vectors for every n <= %d new blocks, each once with equal "
                "and once with block-to-block varying stated targets (un-mined blocks, "
                "non-validating entry point), random vectors up to 60 blocks, and random histories of mined blocks through "
                "the validating entry point, and long histories (120-400 blocks, and 1040-1300 blocks) with forks 3..H-1 blocks deep that overtake; "
                "distinct = distinct parent vectors by digest; non-trivial = every vector "
                "(ties/reorganisations counted separately)" % nmax,
        "floors": [("histories", c.get("histories", 0), 2 * total),
                   ("histories_with_varying_targets", c.get("histories_with_varying_targets", 0), total), ("ties_observed", c.get("ties_observed", 0), 1000),
                   ("reorg_switches", c.get("reorg_switches", 0), 500), ("validated_adds", c.get("validated_adds", 0), 300),
                   ("long_histories", c.get("long_histories", 0), 20),
                   ("very_long_histories", c.get("very_long_histories", 0), 10),
                   ("node_lane_arrivals", c.get("node_lane_arrivals", 0), 100)],
        "extra": {"exhaustive_bound": "all %d parent vectors with at most %d blocks after genesis" % (total, nmax)},
    }
