"""C18 - checkpoints are enforced; the recorded real-network blocks stay valid under the real scrypt.

Lane table: for every checkpointed height of the REAL table, the real validate_block_in_coinstate is
called with a block presenting the checkpoint id (must pass) and blocks with other ids (must be
refused); the table itself is compared with a copy recorded in the harness.  Lane path: the full
add_block path over an un-mined prefix at low checkpoints.  Lane horizon: a configuration lane with a
small horizon where both sides of the horizon comparison are exercised with generated, fully valid
chains.  Lane recorded: genesis and the recorded blocks keep their ids, links, and pass by-itself and
in-state validation with the unreplaced scrypt (horizon disabled so the in-state path really runs);
evidence is also recomputed independently by the reference through the scrypt library."""
import hashlib
import json
import os
import random

from skv import env, ref, gen, bridge
from skv.runner import digest

PROPERTY = "C18"
LEVEL = "exploration"
SHARD_TIMEOUT = {"quick": 900, "thorough": 1800}

RECORDED = {   # file name -> sha256 of the recorded bytes (literal: recorded network data)
    "00000001-001278a82df73c4c689e768d7f4b799f2fdbb7345ddbb4fe44bfab07b0117d2f": "5710ae037cb4490ff4fde0e4748ee5ddfe6a078d1d7ea7df4948493809875758",
    "00000002-00051ac5756350638cd00d2758b2a7feb291af60cc0ab6a0d422240c81082042": "d542f5ede9e09cf3f4515ddaec4af3c07a3c7ebe694a7aa1e033681c4c907cb4",
    "00000003-00c820798616a745f7a0edf10f78d6bcc6acc1183772b1b1834efceb11a365df": "d018aa2a017a9800233adde0ad45747bfb13d2685f51a3a5fb409ab8cb4f8d05",
    "00000004-00f6b7ff7da0a94f0fad16c1fab767decaf65d84c445a69370ba6cc91f23795a": "b8da24ac9e88fa6841448e49b0888dd4c5d22a6d7faac3b85945902ddf76f733",
    "00000005-00dafcf20c88515e65c09de4a1f5ae75d7f976fb5a0f971669cb2ebb6c94d40e": "3e51e02397fda6da7ad281bca5eef4c36f27ac09388beeed9c40cd0ef329a088",
}
GENESIS_SHA256 = None   # checked through its id (literal in ref.GENESIS_ID)


def shards(tier, seed):
    out = [{"lane": "table", "part": i, "parts": 4, "tier": tier, "seed": seed} for i in range(4)]
    out.append({"lane": "recorded", "tier": tier, "seed": seed})
    out.append({"lane": "path", "tier": tier, "seed": seed})
    out.append({"lane": "wire-format", "tier": tier, "seed": seed})
    out.append({"lane": "download-path", "tier": tier, "seed": seed})
    for i in range(4 if tier == "quick" else 16):
        out.append({"lane": "horizon", "shard": i, "tier": tier, "seed": seed})
    return out


class Acc:
    def __init__(self):
        self.viol = []
        self.c = {}
        self.digests = set()
        self.samples = []
        self.n = 0

    def v(self, key, msg, w):
        if sum(1 for x in self.viol if x["key"] == key) < 3:
            self.viol.append({"key": key, "msg": msg, "witness": w})

    def inc(self, k, n=1):
        self.c[k] = self.c.get(k, 0) + n

    def result(self):
        return {"evaluations": self.n, "digests": sorted(self.digests), "violations": self.viol, "counters": self.c,
                "samples": self.samples}


def cheap(dt, sg, height, prev, n, cached=None):
    cb = dt.Transaction([dt.Input(dt.OutputReference(b"\x00" * 32, 0), sg.CoinbaseData(height, b"%d" % n))],
                        [dt.Output(10, sg.SECP256k1PublicKey(b"\x01" * 64))])
    return dt.Block(dt.BlockHeader(dt.BlockSummary(height, prev, b"\x00" * 32, 1615757105 + n, b"\xff" * 32, n),
                                   dt.PowEvidence(b"\x00" * 32, b"\x00" * 32, b"\x00" * 32)), [cb], hash=cached)


def lane_table(a, spec):
    """the REAL table and horizon (nothing substituted)"""
    import skepticoin.consensus as cons
    import skepticoin.cheating as cheating
    import skepticoin.datatypes as dt
    import skepticoin.signing as sg
    from skepticoin.coinstate import CoinState
    rec = json.load(open(os.path.join(env.VERIF_DIR, "skv", "data", "checkpoints.json")))
    rec_table = {int(k): v for k, v in rec["known_hashes"].items()}
    if spec["part"] == 0:
        a.n += 1
        if cheating.MAX_KNOWN_HASH_HEIGHT != rec["max_known_hash_height"] or cons.MAX_KNOWN_HASH_HEIGHT != rec["max_known_hash_height"]:
            a.v("horizon-differs-from-recorded", "MAX_KNOWN_HASH_HEIGHT=%r, recorded %r" % (
                cons.MAX_KNOWN_HASH_HEIGHT, rec["max_known_hash_height"]), {"lane": "table"})
        if dict(cons.KNOWN_HASHES) != rec_table:
            diff = sorted(k for k in set(rec_table) | set(cons.KNOWN_HASHES) if rec_table.get(k) != cons.KNOWN_HASHES.get(k))
            a.v("checkpoint-table-differs-from-recorded", "checkpoint table differs from the recorded network table at "
                "heights %s" % diff[:5], {"lane": "table"})
    rng = random.Random("c18/table/%d" % spec["seed"])
    cs = CoinState.zero()
    heights = sorted(rec_table)
    for j, h in enumerate(heights):
        if j % spec["parts"] != spec["part"]:
            continue
        cp = bytes.fromhex(rec_table[h])
        prev = b"\x33" * 32
        # presenting the checkpoint id -> must pass
        a.n += 1
        a.inc("checkpoint_heights")
        a.digests.add(digest("cp", h))
        good = cheap(dt, sg, h, prev, 7, cached=cp)
        try:
            cons.validate_block_in_coinstate(good, cs)
            a.inc("right_id_accepted")
        except Exception as e:
            a.v("checkpoint-id-rejected", "height %d: block carrying the checkpoint id refused: %r" % (h, e),
                {"lane": "table", "height": h})
        # other ids -> must be refused
        others = [cheap(dt, sg, h, prev, 8 + k) for k in range(2)]
        flipped = bytearray(cp)
        flipped[rng.randrange(32)] ^= 1 << rng.randrange(8)
        others.append(cheap(dt, sg, h, prev, 11, cached=bytes(flipped)))
        nb = sorted(rec_table)[(j + 1) % len(heights)]
        others.append(cheap(dt, sg, h, prev, 12, cached=bytes.fromhex(rec_table[nb])))   # a neighbouring checkpoint's id
        for o in others:
            a.n += 1
            a.digests.add(digest("wrong", h, o.hash()))
            try:
                cons.validate_block_in_coinstate(o, cs)
                a.v("wrong-id-accepted-at-checkpoint", "height %d: block with another id passed the checkpoint" % h,
                    {"lane": "table", "height": h})
            except Exception:
                a.inc("wrong_id_refused")
        # the same on a KNOWN parent, whatever height that parent reports (below the horizon nothing ties a block's reported
        # height to its parent's: the checkpoint is the only defence, and it goes by the height the block reports)
        if h > 0:
            for hp in sorted({h - 1, max(0, h - 2), max(0, h - rng.choice([3, 7, 250, 499])), h + 1, rng.choice([1, 5, 77])}):
                filler = cheap(dt, sg, hp, cs.current_chain_hash, 900 + hp % 50)
                try:
                    cs2 = cs.add_block_no_validation(filler)
                except Exception:
                    continue
                a.inc("checkpoint_candidates_on_known_parent")
                for o, should_pass in ((cheap(dt, sg, h, filler.hash(), 13), False), (cheap(dt, sg, h, filler.hash(), 14, cached=cp), True)):
                    a.n += 1
                    try:
                        cons.validate_block_in_coinstate(o, cs2)
                        ok = True
                    except Exception as e:
                        ok = False
                    if ok and not should_pass:
                        a.v("wrong-id-accepted-at-checkpoint", "height %d: a block with another id passes the checkpoint when its "
                            "(known) parent reports height %d" % (h, hp), {"lane": "table", "height": h, "parent_height": hp})
                    if not ok and should_pass:
                        a.v("checkpoint-id-rejected", "height %d: the block carrying the checkpoint id is refused on a known parent "
                            "reporting height %d" % (h, hp), {"lane": "table", "height": h, "parent_height": hp})
    if spec["part"] == 0:
        a.samples.append({"lane": "table", "height": heights[1], "checkpoint": rec_table[heights[1]]})


def lane_recorded(a, spec):
    """real scrypt, horizon disabled so the in-state path runs on the recorded blocks"""
    import skepticoin.consensus as cons
    from skepticoin.datatypes import Block
    from skepticoin.coinstate import CoinState
    import skepticoin.hash as shash
    # hash primitives against hashlib literals
    a.n += 3
    if shash.sha256d(b"abc") != hashlib.sha256(hashlib.sha256(b"abc").digest()).digest():
        a.v("hash-primitive-differs", "sha256d", {"lane": "recorded"})
    if shash.blake2(b"abc") != hashlib.blake2b(b"abc", digest_size=32).digest():
        a.v("hash-primitive-differs", "blake2", {"lane": "recorded"})
    if shash.scrypt(b"password", b"salt") != ref.real_scrypt(b"password", b"salt"):
        a.v("hash-primitive-differs", "scrypt parameters differ from N=2^15 r=8 p=1 32 bytes", {"lane": "recorded"})
    gb = env.genesis_bytes()
    g = Block.deserialize(gb)
    a.n += 1
    if g.hash() != ref.GENESIS_ID or g.header.hash() != ref.GENESIS_ID:
        a.v("genesis-id-changed", "genesis id %s" % g.hash().hex(), {"lane": "recorded"})
    chain = ref.RefChain(scrypt_fn=ref.real_scrypt)
    rg = ref.parse_block(gb)
    chain.add(rg)
    if (rg.sh, rg.cs, rg.bh) != ref.evidence(chain, rg):
        a.v("genesis-evidence-not-reproduced", "reference recomputation of the genesis evidence differs", {"lane": "recorded"})
    try:
        cons.validate_block_by_itself(g, g.timestamp)
        ev = cons.construct_pow_evidence(CoinState.empty(), g.header.summary, 0, g.transactions)
        if ev != g.header.pow_evidence:
            a.v("genesis-evidence-not-reproduced", "construct_pow_evidence differs for genesis", {"lane": "recorded"})
    except Exception as e:
        a.v("genesis-fails-validation", repr(e), {"lane": "recorded"})
    cs = CoinState.zero()
    prev = ref.GENESIS_ID
    files = env.recorded_blocks()
    a.inc("recorded_files", len(files))
    names = {"%08d-%s" % (h, i) for h, i, _r in files}
    if names != set(RECORDED):
        a.v("recorded-blocks-changed", "test data file set differs from the recorded one", {"lane": "recorded"})
    for (h, idhex, raw) in files:
        w = {"lane": "recorded", "height": h}
        a.n += 1
        a.digests.add(digest("rec", h))
        name = "%08d-%s" % (h, idhex)
        if RECORDED.get(name) != hashlib.sha256(raw).hexdigest():
            a.v("recorded-blocks-changed", "bytes of %s differ from the recorded ones" % name, w)
        blk = Block.deserialize(raw)
        if blk.hash().hex() != idhex or blk.header.hash().hex() != idhex:
            a.v("recorded-block-id-changed", "height %d id %s, recorded %s" % (h, blk.hash().hex(), idhex), w)
        if blk.previous_block_hash != prev or blk.height != h:
            a.v("recorded-block-link-broken", "height %d does not link to its predecessor" % h, w)
        if blk.serialize() != raw:
            a.v("recorded-block-reencodes-differently", "height %d" % h, w)
        rb = ref.parse_block(raw)
        codes = ref.block_codes(chain, rb, rb.ts, scrypt_fn=ref.real_scrypt)
        if codes:
            a.v("reference-rejects-recorded-block", "height %d: reference finds %s (oracle problem or data changed)" % (
                h, sorted(codes)), w)
        try:
            cons.validate_block_by_itself(blk, blk.timestamp)
            a.inc("by_itself_passed")
        except Exception as e:
            a.v("recorded-block-fails-by-itself-validation", "height %d: %r" % (h, e), w)
        try:
            cons.validate_block_in_coinstate(blk, cs)       # horizon disabled -> full in-state rules + real scrypt
            a.inc("in_state_passed_real_scrypt")
        except Exception as e:
            a.v("recorded-block-fails-in-state-validation", "height %d: %r" % (h, e), w)
        try:
            cs = cs.add_block(blk, blk.timestamp)
            a.inc("add_block_passed")
        except Exception as e:
            a.v("recorded-block-fails-add_block", "height %d: %r" % (h, e), w)
            cs = cs.add_block_no_validation(blk)
        chain.add(rb)
        prev = blk.hash()
        # and with the real horizon in force (the production configuration)
    a.samples.append({"lane": "recorded", "blocks": [f[1] for f in files], "head_height": cs.head().height})
    # the same real blocks must also pass when they arrive on a side branch: a competing block at height h got there
    # first (stored without validation, like a bulk-download block) and is the head while real h and h+1 arrive
    import skepticoin.datatypes as dt
    import skepticoin.signing as sg
    blocks = [Block.deserialize(raw) for (_h, _i, raw) in files]
    for h in range(1, len(blocks)):          # competitor at height h (1-based heights: blocks[h-1] has height h)
        cs2 = CoinState.zero()
        for b in blocks[:h - 1]:
            cs2 = cs2.add_block_no_validation(b)
        parent = blocks[h - 2].hash() if h >= 2 else ref.GENESIS_ID
        rival = cheap(dt, sg, h, parent, 900 + h)
        cs2 = cs2.add_block_no_validation(rival)            # first seen at height h: stays head on the tie
        ok = True
        for b in blocks[h - 1:h + 1]:
            a.n += 1
            a.inc("recorded_blocks_validated_on_side_branch")
            a.digests.add(digest("side", h, b.height))
            try:
                cs2 = cs2.add_block(b, b.timestamp)
            except Exception as e:
                a.v("recorded-block-refused-while-another-branch-is-head", "real block h=%d refused by full validation (real "
                    "scrypt) while a competing block at height %d is the head: %r" % (b.height, h, e), {"lane": "recorded", "height": b.height})
                ok = False
                break
        if ok and cs2.head().height != h + 1 and h + 1 <= len(blocks):
            a.v("real-chain-not-followed", "after real blocks up to h=%d arrived the head height is %d" % (h + 1, cs2.head().height),
                {"lane": "recorded"})
    two_threads_on_recorded_blocks(a, cons, blocks, random.Random(spec.get("seed", 0)))


def two_threads_on_recorded_blocks(a, cons, blocks, rng):
    """the node validates in two threads (a peer's block in the networking thread, its own found block in the miner watcher): two
    recorded blocks of the real network are validated at once, each on the state of its real predecessors -- thread A held at a
    source location of the validation modules while thread B's validation completes -- and again afterwards; every one of these
    validations must pass.  (scrypt's true values are looked up in a table the harness fills with the unreplaced function: the
    parameters are the real ones, each value is computed once)"""
    import skepticoin.coinstate as csm
    import skepticoin.pow as pw
    import skepticoin.datatypes as dt
    import skepticoin.serialization as ser
    import skepticoin.hash as hm
    import skepticoin.merkletree as mt
    from skepticoin.coinstate import CoinState
    from skv import preempt
    mods = [cons, csm, pw, dt, ser, hm, mt]
    real_scrypt, table = cons.scrypt, {}

    def looked_up(*args):
        if args not in table:
            table[args] = real_scrypt(*args)
        return table[args]
    cons.scrypt = looked_up
    pre = preempt.Preempter(mods)
    try:
        if not pre.ok:
            a.inc("two_thread_tool_slot_taken")
            return
        state = preempt.ModuleState(mods)
        states = [CoinState.zero()]
        for b in blocks:
            states.append(states[-1].add_block_no_validation(b))

        def job(i):
            raw = blocks[i].serialize()

            def work(_ctx):
                blk = dt.Block.deserialize(raw)
                new = states[i].add_block(blk, blk.timestamp)
                return blk.hash() in new.block_by_hash
            return work
        n = len(blocks)
        pairs = [(i, (i + 1) % n) for i in range(n)] + [(i, i) for i in range(0, n, 2)] + [((i + 2) % n, i) for i in range(n)]
        for i, j in pairs:
            for t in preempt.trials(pre, state, lambda: None, job(i), job(j), rng, 80):
                a.n += 1
                a.inc("two_thread_trials")
                if t["want_a"] is not True or t["want_b"] is not True:
                    continue
                for who, got, _want in preempt.disagreements(t):
                    a.v("recorded-block-refused-when-two-threads-validate", "%s: real block h=%d / h=%d validated by two threads at "
                        "once (real scrypt values; switch at event %d of %d): %r" % (who, blocks[i].height, blocks[j].height, t["k"],
                                                                                      t["total"], got),
                        {"lane": "recorded", "two_threads": True, "heights": [blocks[i].height, blocks[j].height]})
                    break
    finally:
        pre.close()
        cons.scrypt = real_scrypt


def lane_download_path(a, spec):
    """the route by which a catching-up node takes blocks: answers to its own requests (in_response_to != 0), validated only at
    intervals.  An alternative block claiming a checkpointed height is delivered that way for EVERY checkpointed height (and,
    for comparison, as an unsolicited block).  Unsolicited: refused at every height.  As a download answer: the heights at
    which it is refused must not be further apart than the recorded interval of 10,000 blocks -- otherwise an alternative
    history can be downloaded past a checkpoint without ever being compared with one"""
    import skepticoin.consensus as cons
    import skepticoin.datatypes as dt
    import skepticoin.signing as sg
    from skv import gen, nodekit, simnet
    rng = random.Random(spec.get("seed", 0) * 7 + 18)
    world = gen.World(rng)
    sn = nodekit.SingleNode(world, rng, "c18-download", npeers=2)
    table = json.load(open(os.path.join(os.path.dirname(os.path.abspath(__file__)), "..", "data", "checkpoints.json")))
    heights = sorted(int(h) for h in table["known_hashes"] if int(h) > 0)
    gid = world.gid
    enforced, accepted_unsolicited = [], []

    def alt(h, n):
        cb = dt.Transaction([dt.Input(dt.OutputReference(b"\x00" * 32, 0), sg.CoinbaseData(h, b"alt%d" % n))],
                            [dt.Output(10, sg.SECP256k1PublicKey(b"\x01" * 64))])
        summary = dt.BlockSummary(h, gid, cons.calc_merkle_root_hash([cb]), sn.net.clock.t - 100, b"\xff" * 32, n)
        return dt.Block(dt.BlockHeader(summary, dt.PowEvidence(b"\x00" * 32, b"\x00" * 32, b"\x00" * 32)), [cb])
    for k, h in enumerate(heights):
        for how in ("download-answer", "unsolicited"):
            blk = alt(h, 2 * k + (how == "unsolicited"))
            peer = sn.peers[k % len(sn.peers)]
            if peer.peer.closed or not sn.is_active(peer):
                peer = sn.add_peer()
            peer.push(sn.wire.block(blk, in_response_to=0 if how == "unsolicited" else 7))
            sn.settle()
            a.n += 1
            a.inc("download_path_deliveries")
            held = blk.hash() in sn.cm.coinstate.block_by_hash
            if how == "unsolicited" and held:
                accepted_unsolicited.append(h)
            if how == "download-answer" and not held:
                enforced.append(h)
            if sn.escaped():
                a.v("exception-escaped-event-handler", sn.escaped()[0][:200], {"lane": "download-path", "height": h})
    sn.close()
    a.inc("download_path_heights_enforced", len(enforced))
    if accepted_unsolicited:
        a.v("wrong-id-accepted-at-checkpoint", "an unsolicited block with another id than the checkpoint is part of the node's chain "
            "state at heights %s" % accepted_unsolicited[:5], {"lane": "download-path", "height": accepted_unsolicited[0]})
    horizon = max(heights)
    edges = [0] + enforced + [horizon]
    gap = max(b - a_ for a_, b in zip(edges, edges[1:]))
    if gap > 10000:
        a.v("alternative-history-can-be-downloaded-past-checkpoints", "blocks delivered as answers to the node's own requests are "
            "compared with a checkpoint at %d of %d checkpointed heights (%s...); the longest run of heights without any comparison "
            "is %d blocks (recorded: 10,000)" % (len(enforced), len(heights), enforced[:4], gap), {"lane": "download-path", "height": 10000})


def lane_path(a, spec):
    """full add_block path over an un-mined prefix at the first low checkpoints (real table, stand-in scrypt)"""
    import skepticoin.consensus as cons
    import skepticoin.datatypes as dt
    import skepticoin.signing as sg
    rng = random.Random("c18/path/%d" % spec["seed"])
    world = gen.World(rng)
    key = world.keys[0][1]
    prev = world.gid
    cs = world.cs
    table = cons.KNOWN_HASHES
    for h in range(1, 1001):
        if h in (499, 500, 501, 999, 1000):
            # a by-itself valid, mined candidate at this height
            rb = world.mine(world.draft(prev, [], world.chain.blocks[prev].ts + 1, key))
            real = bridge.rblock_to_real(rb)
            a.n += 1
            try:
                cs.add_block(real, rb.ts)
                ok = True
            except Exception:
                ok = False
            if h in table:
                a.inc("path_wrong_id_at_checkpoint")
                if ok:
                    a.v("wrong-id-accepted-at-checkpoint", "add_block accepted a block with another id at checkpoint height %d" % h,
                        {"lane": "path", "height": h})
                presented = dt.Block(real.header, real.transactions, hash=bytes.fromhex(table[h]))
                a.n += 1
                try:
                    cs.add_block(presented, rb.ts)
                    a.inc("path_right_id_accepted")
                except Exception as e:
                    a.v("checkpoint-id-rejected", "add_block refused a block presenting the checkpoint id at %d: %r" % (h, e),
                        {"lane": "path", "height": h})
            else:
                a.inc("path_non_checkpoint_height")
                if not ok:
                    a.inc("path_non_checkpoint_refused")
        cb = world.coinbase(h, ref.subsidy(h), key)
        rb = ref.RBlock(h, prev, cb.id(), world.genesis.ts + h, ref.INITIAL_TARGET, h, b"\x00" * 32, b"\x00" * 32, b"\x00" * 32, [cb])
        real = bridge.rblock_to_real(rb)
        # the id this code gives the block must be the id the network's wire format gives it (the reference encoder states
        # that format independently); otherwise the next block's parent is unknown to the node
        a.inc("path_ids_compared_with_network_format")
        if real.hash() != rb.id():
            a.v("block-id-differs-from-network-format", "a block at height %d built from its fields gets id %s.., the network's "
                "encoding of the same block has id %s..: a node running this code leaves the real chain at that height" % (
                    h, real.hash().hex()[:12], rb.id().hex()[:12]), {"lane": "path", "height": h})
            break
        cs = cs.add_block_no_validation(real)
        prev = world.chain.add(rb)
    a.samples.append({"lane": "path", "prefix_blocks": 1000})


def lane_wire_format(a, spec):
    """headers in the network's wire format at EVERY checkpointed height (and at the heights where the length of the height
    field changes): this code must decode them, give them the double SHA-256 of those bytes as id, and re-encode them to
    the same bytes -- the precondition for any real block at that height to keep its checkpointed id"""
    import hashlib
    import skepticoin.consensus as cons
    import skepticoin.datatypes as dt
    blocks = env.recorded_blocks()
    base = ref.parse_block(blocks[-1][2])
    heights = sorted(set(cons.KNOWN_HASHES) | {63, 64, 65, 127, 128, 8191, 8192, 16383, 16384, (1 << 20) - 1, 1 << 20, (1 << 21) - 1,
                                               1 << 21, (1 << 28) - 1, 1 << 28})
    for h in heights:
        rb = ref.RBlock(h, base.prev, base.merkle, base.ts, base.target, base.nonce, base.sh, base.cs, base.bh, base.txs)
        wire = rb.header_enc()
        exp = hashlib.sha256(hashlib.sha256(wire).digest()).digest()
        a.n += 1
        a.inc("wire_format_headers")
        w = {"lane": "wire-format", "height": h, "bytes": wire.hex()}
        try:
            hdr = dt.BlockHeader.deserialize(wire)
        except Exception as e:
            a.v("network-format-header-refused", "a header in the network's wire format at height %d is refused: %r" % (h, e), w)
            continue
        if hdr.hash() != exp or hdr.serialize() != wire:
            a.v("block-id-differs-from-network-format", "a header decoded from the network's wire format at height %d %s" % (
                h, "gets another id than the double SHA-256 of its bytes" if hdr.hash() != exp else "re-encodes to other bytes"), w)
        built = dt.BlockHeader(dt.BlockSummary(h, base.prev, base.merkle, base.ts, base.target, base.nonce),
                               dt.PowEvidence(base.sh, base.cs, base.bh))
        if built.hash() != exp:
            a.v("block-id-differs-from-network-format", "a header built from its fields at height %d gets id %s.., the network's "
                "encoding has id %s.." % (h, built.hash().hex()[:12], exp.hex()[:12]), w)
    a.samples.append({"lane": "wire-format", "heights": len(heights)})


def lane_horizon(a, spec):
    """horizon = k: fully valid generated chain; checkpoint at the horizon height itself and below it"""
    import skepticoin.consensus as cons
    rng = random.Random("c18/h/%d/%d" % (spec["seed"], spec["shard"]))
    for rep in range(3 if spec["tier"] == "quick" else 10):
        k = rng.choice([3, 4, 6, 9])
        cons.MAX_KNOWN_HASH_HEIGHT = -1
        cons.KNOWN_HASHES = {}
        world = gen.World(rng)
        ids = world.grow(k + 4, rng, tx_prob=0.5, bias="linear")
        by_h = {world.chain.blocks[b].height: b for b in ids}
        if k not in by_h or any(h not in by_h for h in range(1, k + 1)):
            continue
        below = rng.randrange(1, k)
        for cp_h in (k, below):
            bid = by_h[cp_h]
            rb = world.chain.blocks[bid]
            # state holding everything up to the parent
            from skepticoin.coinstate import CoinState
            cs = CoinState.zero()
            for x in world.chain.ancestors(rb.prev)[1:]:
                cs = cs.add_block_no_validation(world.real[x])
            other = bytearray(bid)
            other[5] ^= 1
            for (table, expect_ok, tag) in (({cp_h: bid.hex()}, True, "right"), ({cp_h: bytes(other).hex()}, False, "wrong")):
                cons.MAX_KNOWN_HASH_HEIGHT = k
                cons.KNOWN_HASHES = table
                a.n += 1
                a.inc("horizon_cases")
                a.inc("horizon_at_horizon_height" if cp_h == k else "horizon_below_horizon")
                a.digests.add(digest("hz", bid, tag, k))
                w = {"lane": "horizon", "k": k, "height": cp_h, "chain": gen.blocks_hex(world, world.chain.ancestors(bid)[1:]),
                     "checkpoint": table[cp_h]}
                try:
                    cs.add_block(world.real[bid], rb.ts)
                    ok = True
                except Exception:
                    ok = False
                if ok and not expect_ok:
                    a.v("wrong-id-accepted-at-checkpoint", "horizon %d: a fully valid block with another id passed the "
                        "checkpoint at height %d" % (k, cp_h), w)
                if not ok and expect_ok:
                    a.v("checkpoint-id-rejected", "horizon %d: the block carrying the checkpoint id at height %d refused" % (k, cp_h), w)
        # above the horizon full validation applies: a block with a wrong target at k+1 must be refused
        cons.MAX_KNOWN_HASH_HEIGHT = k
        cons.KNOWN_HASHES = {}
        pid = by_h[k]
        blk = world.draft(pid, [], world.chain.blocks[pid].ts + 5, world.keys[0][1])
        blk.target = (int.from_bytes(blk.target, "big") * 2).to_bytes(32, "big")
        blk = world.mine(blk)
        cs = world.state_at(pid)
        a.n += 1
        a.inc("above_horizon_invalid_offered")
        try:
            cs.add_block(bridge.rblock_to_real(blk), blk.ts)
            a.v("invalid-block-accepted-above-horizon", "height %d > horizon %d with a wrong target accepted" % (k + 1, k),
                {"lane": "horizon", "k": k})
        except Exception:
            a.inc("above_horizon_invalid_refused")
    cons.MAX_KNOWN_HASH_HEIGHT = -1
    cons.KNOWN_HASHES = {}


def run_shard(spec):
    a = Acc()
    if "replay" in spec:
        lane = spec["replay"].get("lane", "table")
        spec = dict(spec, lane=lane, part=0, parts=1, shard=0)
    lane = spec["lane"]
    if lane == "table":
        env.boot(fake_scrypt=False, horizon_off=False)
        lane_table(a, spec)
    elif lane == "recorded":
        env.boot(fake_scrypt=False, horizon_off=True)
        lane_recorded(a, spec)
    elif lane == "path":
        env.boot(fake_scrypt=True, horizon_off=False)
        lane_path(a, spec)
    elif lane == "wire-format":
        env.boot(fake_scrypt=False, horizon_off=False)
        lane_wire_format(a, spec)
    elif lane == "download-path":
        env.boot(fake_scrypt=True, horizon_off=False)
        lane_download_path(a, spec)
    else:
        env.boot(fake_scrypt=True, horizon_off=True)
        lane_horizon(a, spec)
    return a.result()


def finalize(m, tier):
    c = m["counters"]
    return {
        "rule": "all 327 checkpointed heights of the real table x (block presenting the checkpoint id, 4 blocks with other "
                "ids incl. a one-bit-different id and a neighbouring checkpoint's id); add_block path at heights 499-501 and "
                "999-1000 over an un-mined prefix; horizon=k lane on generated fully valid chains (checkpoint at and below "
                "the horizon, right and wrong id, invalid block above); genesis + 5 recorded blocks with the unreplaced "
                "scrypt; distinct = distinct (height, presented id) cases",
        "floors": [("checkpoint_heights", c.get("checkpoint_heights", 0), 327), ("wrong_id_refused", c.get("wrong_id_refused", 0), 1300),
                   ("in_state_passed_real_scrypt", c.get("in_state_passed_real_scrypt", 0), 5),
                   ("recorded_blocks_validated_on_side_branch", c.get("recorded_blocks_validated_on_side_branch", 0), 8),
                   ("horizon_at_horizon_height", c.get("horizon_at_horizon_height", 0), 20),
                   ("path_wrong_id_at_checkpoint", c.get("path_wrong_id_at_checkpoint", 0), 2),
                   ("wire_format_headers", c.get("wire_format_headers", 0), 327),
                   ("checkpoint_candidates_on_known_parent", c.get("checkpoint_candidates_on_known_parent", 0), 1000),
                   ("path_ids_compared_with_network_format", c.get("path_ids_compared_with_network_format", 0), 1000),
                   ("two_thread_trials", c.get("two_thread_trials", 0), 200),
                   ("download_path_deliveries", c.get("download_path_deliveries", 0), 600)],
        "extra": {},
    }
