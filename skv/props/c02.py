"""C02 - no inflation.

Chain lane: monitored add_block stream; after every accepted block the sums are taken from the REAL
per-block unspent maps and compared with bounds computed by the reference (literal schedule, reference
fees).  Direct-call lane: the real transaction validators are called on synthetic ledger states holding
outputs worth up to the maximum supply, because in a generated chain only 10 coin per block exist and
the range rule could otherwise not be separated from the overspend rule."""
import random

from skv import env, ref, cstream, bridge, gen
from skv.runner import digest

PROPERTY = "C02"
LEVEL = "exploration"
NSHARD = 16
SHARD_TIMEOUT = {"quick": 900, "thorough": 3600}
VALUE_CODES = {"reward", "overspend", "tx-range", "tx-noout", "cb-shape", "nullref", "nonsig", "missing-input", "dup-ref-block", "dup-tx"}


def shards(tier, seed):
    return [{"shard": i, "tier": tier, "seed": seed} for i in range(NSHARD)]


class ValueStream(cstream.Stream):
    def post_accept(self, world, rblk, w, cls, now):
        cs = world.cs
        self.c["conservation_checks"] += 1
        bid = rblk.id()
        tot = sum(o.value for o in cs.unspent_transaction_outs_by_hash[bid].values())
        ptot = sum(o.value for o in cs.unspent_transaction_outs_by_hash[rblk.prev].values())
        h = world.chain.blocks[rblk.prev].height + 1
        cum = sum(ref.subsidy(x) for x in range(0, h + 1))
        if tot > ptot + ref.subsidy(h) or tot > cum or tot > ref.MAX_SASHIMI:
            self.v("unspent-total-grew-beyond-subsidy", "after block h=%d total unspent %d, parent %d, subsidy %d, "
                   "cumulative schedule %d" % (h, tot, ptot, ref.subsidy(h), cum), self.witness(world, rblk, now, cls))
        led = world.ledger(rblk.prev)
        fees = sum(ref.tx_fee(t, led) for t in rblk.txs[1:])
        if rblk.txs[0].out_total() > ref.subsidy(h) + fees:
            self.v("accepted-despite:reward", "reward %d > subsidy %d + fees %d" % (rblk.txs[0].out_total(), ref.subsidy(h), fees),
                   self.witness(world, rblk, now, cls))


# ------------------------------------------------------------------------- direct-call lane
class Direct:
    def __init__(self):
        self.viol = []
        self.c = {"by_itself_calls": 0, "by_itself_accepted": 0, "in_state_calls": 0, "in_state_accepted": 0,
                  "reward_calls": 0, "reward_accepted": 0, "encoder_refusals": 0, "by_value_class": {}}
        self.digests = set()
        self.samples = []

    def v(self, key, msg, w):
        if sum(1 for x in self.viol if x["key"] == key) < 3:
            self.viol.append({"key": key, "msg": msg, "witness": w})

    def run(self, rng, n):
        import immutables
        import skepticoin.consensus as cons
        import skepticoin.datatypes as dt
        import skepticoin.signing as sg
        from skepticoin.coinstate import CoinState
        keys = gen.make_keys(3)
        sk_by_pk = {pk: sk for sk, pk in keys}
        MAX = ref.MAX_SASHIMI
        edge = [0, 1, 2, MAX - 1, MAX, MAX + 1, MAX // 2, MAX // 2 + 1, 1 << 62, (1 << 63) - 1, 1 << 63, (1 << 64) - 1,
                -1, 1 << 64]
        for _ in range(n):
            # synthetic ledger: 1-3 outputs of large value
            nin = rng.randint(1, 3)
            led = {}
            for i in range(nin):
                v = rng.choice([1, 1000, MAX // 3, MAX // 2, MAX - 1, MAX, rng.randrange(1, MAX)])
                led[(rng.getrandbits(256).to_bytes(32, "big"), rng.randrange(4))] = (v, rng.choice(keys)[1])
            tot_in = sum(v for v, _k in led.values())
            nout = rng.randint(1, 3)
            mode = rng.choice(["edge", "exact", "exact+1", "below", "split-over-max", "random"])
            if mode == "edge":
                vals = [rng.choice(edge) for _ in range(nout)]
            elif mode == "exact":
                vals = [tot_in] if nout == 1 else [tot_in - (nout - 1)] + [1] * (nout - 1)
            elif mode == "exact+1":
                vals = [tot_in + 1] if nout == 1 else [tot_in - (nout - 1) + 1] + [1] * (nout - 1)
            elif mode == "below":
                vals = [max(1, tot_in // (nout + 1))] * nout
            elif mode == "split-over-max":
                vals = [MAX // 2 + rng.randrange(1, 5)] * 2 + [1] * (nout - 2 if nout > 2 else 0)
            else:
                vals = [rng.randrange(1, max(2, min(tot_in, MAX))) for _ in range(nout)]
            self.c["by_value_class"][mode] = self.c["by_value_class"].get(mode, 0) + 1
            outs = [(v, rng.choice(keys)[1]) for v in vals]
            w = {"kind": "direct", "ledger": [[h.hex(), i, v, k.hex()] for (h, i), (v, k) in led.items()],
                 "outs": [[v, k.hex()] for v, k in outs]}
            self.digests.add(digest(sorted(led.items()), outs))
            if any(not (0 <= v < (1 << 64)) for v in vals):
                # cannot be encoded at all: building/serializing must fail -> counts as refusal
                try:
                    t = dt.Transaction([dt.Input(dt.OutputReference(h, i), sg.SECP256k1Signature(b"\x01" * 64)) for (h, i) in led],
                                       [dt.Output(v, sg.SECP256k1PublicKey(k)) for v, k in outs])
                    cons.validate_non_coinbase_transaction_by_itself(t)
                    self.v("unencodable-value-accepted", "by-itself validation accepted values %s" % vals, w)
                except Exception:
                    self.c["encoder_refusals"] += 1
                continue
            unsigned = ref.RTx([(h, i, (ref.SIG_EQ,)) for (h, i) in led], outs)
            rtx = ref.sign_tx(unsigned, led, sk_by_pk)
            real = bridge.rtx_to_real(rtx)
            # by itself
            self.c["by_itself_calls"] += 1
            exp1 = ref.tx_codes_by_itself(rtx)
            try:
                cons.validate_non_coinbase_transaction_by_itself(real)
                ok1 = True
            except Exception:
                ok1 = False
            self.c["by_itself_accepted"] += ok1
            if ok1 and exp1:
                self.v("by-itself-accepts:" + "+".join(sorted(exp1)), "outputs %s accepted by by-itself validation" % vals, w)
            if not ok1 and not exp1:
                self.v("by-itself-rejects-valid-values", "outputs %s (inputs %d) rejected by by-itself validation" % (vals, tot_in), w)
            # in state
            at = b"\x11" * 32
            umap = immutables.Map({dt.OutputReference(h, i): dt.Output(v, sg.SECP256k1PublicKey(k)) for (h, i), (v, k) in led.items()})
            cs = CoinState(immutables.Map(), immutables.Map({at: umap}), immutables.Map(), immutables.Map(), at)
            self.c["in_state_calls"] += 1
            exp2 = ref.tx_codes_in_ledger(rtx, led)
            try:
                cons.validate_non_coinbase_transaction_in_coinstate(real, at, cs)
                ok2 = True
            except Exception:
                ok2 = False
            self.c["in_state_accepted"] += ok2
            if ok2 and exp2:
                self.v("in-state-accepts:" + "+".join(sorted(exp2)), "outputs %s inputs %d accepted in state" % (vals, tot_in), w)
            if not ok2 and not exp2:
                self.v("in-state-rejects-valid-spend", "outputs %s inputs %d rejected in state" % (vals, tot_in), w)
            if len(self.samples) < 2:
                self.samples.append({"lane": "direct", "inputs_total": tot_in, "outputs": vals, "by_itself_ok": ok1,
                                     "in_state_ok": ok2})
            # reward bound with big fees: reward = subsidy + fee (+0 / +1)
            if not exp1 and not exp2:
                fee = tot_in - sum(vals)
                h = rng.choice([1, 2, 1_050_000, 2_100_000, 31_499_999, 31_500_000])
                for delta in (0, 1):
                    self.c["reward_calls"] += 1
                    cb = ref.RTx([(ref.ZERO32, 0, (ref.SIG_CB, h, b""))], [(ref.subsidy(h) + fee + delta, keys[0][1])])
                    prev_summary = dt.BlockSummary(h - 1, b"\x22" * 32, b"\x00" * 32, 5, b"\xff" * 32, 0)
                    prev = dt.Block(dt.BlockHeader(prev_summary, dt.PowEvidence(b"\x00" * 32, b"\x00" * 32, b"\x00" * 32)), [])
                    blk = dt.Block(dt.BlockHeader(dt.BlockSummary(h, at, b"\x00" * 32, 9, b"\xff" * 32, 0),
                                                  dt.PowEvidence(b"\x00" * 32, b"\x00" * 32, b"\x00" * 32)),
                                   [bridge.rtx_to_real(cb), real])
                    cs2 = CoinState(immutables.Map({at: prev}), immutables.Map({at: umap}), immutables.Map(),
                                    immutables.Map(), at)
                    try:
                        cons.validate_coinbase_transaction_in_coinstate(blk.transactions[0], blk, cs2)
                        ok3 = True
                    except Exception:
                        ok3 = False
                    self.c["reward_accepted"] += ok3
                    if ok3 != (delta == 0):
                        self.v("reward-bound-wrong-with-fees", "height %d fee %d reward=bound+%d accepted=%s" % (h, fee, delta, ok3), w)


def node_lane(st, rng, nsetups, ndeliv):
    """the same value rules at the level of a whole node: blocks are delivered over the wire to a real node while a
    'miner thread' is emulated at the one point where it could interleave -- inside the validation window of the relay
    path.  If the chain state served at that instant already contains the (not yet validated) block, the emulated miner does
    what the real one does: builds a child on the served head, adds it, and hands the result back as validated state.
    Afterwards conservation is checked along the node's active chain from the real unspent maps."""
    from skv import nodekit
    import skepticoin.networking.remote_peer as rp
    import skepticoin.consensus as cons
    from skepticoin.signing import SECP256k1PublicKey
    c = st.c
    for n in range(nsetups):
        world = gen.World(rng)
        world.grow(rng.choice([4, 7]), rng, tx_prob=0.5, bias="linear")
        sn = nodekit.SingleNode(world, rng, "c02-%d" % n, npeers=2)
        cm = sn.cm
        if not hasattr(rp, "_skv_orig_validate"):
            rp._skv_orig_validate = rp.validate_block_in_coinstate
        acted = []

        def hooked(block, coinstate, _sn=sn, _world=world):
            served, _pool = _sn.cm.get_state()
            c["validation_window_observations"] = c.get("validation_window_observations", 0) + 1
            if served.current_chain_hash == block.hash():
                # emulated miner: candidate on the served head, nonce search with the node's own assembly
                key = SECP256k1PublicKey(_world.keys[0][1])
                ts = max(_sn.net.clock.t, served.head().timestamp + 1)
                for nonce in range(20000):
                    cand = cons.construct_block_for_mining(served, [], key, ts, b"", nonce)
                    if cand.hash() < cand.target:
                        try:
                            _sn.cm.set_coinstate(served.add_block(cand, _sn.net.clock.t))
                            acted.append(cand.hash())
                        except Exception:
                            pass
                        break
            return rp._skv_orig_validate(block, coinstate)
        rp.validate_block_in_coinstate = hooked
        checked = set(world.chain.order)
        for k in range(ndeliv):
            head = cm.coinstate.current_chain_hash
            if head not in world.chain.blocks:
                break
            cls = rng.choice(["valid-spend", "reward-plus-one", "reward-split-outputs", "overspend-by-one", "reward-exactly-at-bound",
                              "reward-double-subsidy", "zero-value-output"])
            try:
                built = cstream.C02_CLASSES[cls](world, head, rng)
            except Exception:
                built = None
            if built is None:
                continue
            rblk, must, may = built
            sn.net.clock.t = world.now = max(world.now, rblk.ts + 5)
            codes = ref.block_codes(world.chain, rblk, world.now)
            if not (must <= codes and codes <= (must | may)):
                continue
            c["node_lane_deliveries"] = c.get("node_lane_deliveries", 0) + 1
            raw = rng.choice(sn.active() or [sn.add_peer()])
            raw.push(sn.wire.block(bridge.rblock_to_real(rblk)))
            sn.settle()
            cs = cm.coinstate
            w = {"lane": "node", "chain": gen.blocks_hex(world, world.chain.order[1:]), "candidate": rblk.enc().hex(), "now": world.now,
                 "class": cls, "period": ref.RETARGET_PERIOD}
            if codes and rblk.id() in cs.block_by_hash:
                st.v("node-chain-state-holds-block:" + "+".join(sorted(codes & VALUE_CODES)), "class %s: after delivery over the wire "
                     "(with a miner acting inside the validation window: %s) the node's chain state holds a block that breaks %s" % (
                         cls, bool(acted), sorted(codes)), w)
            # conservation along the node's active chain, from the real maps
            bid = cs.current_chain_hash
            while bid not in checked and bid != ref.ZERO32:
                blk = cs.block_by_hash[bid]
                checked.add(bid)
                tot = sum(o.value for o in cs.unspent_transaction_outs_by_hash[bid].values())
                ptot = sum(o.value for o in cs.unspent_transaction_outs_by_hash[blk.previous_block_hash].values())
                c["node_lane_conservation_checks"] = c.get("node_lane_conservation_checks", 0) + 1
                if tot > ptot + ref.subsidy(blk.height):
                    st.v("node-active-chain-inflates", "block h=%d on the node's active chain raises the unspent total by %d, subsidy is %d" % (
                        blk.height, tot - ptot, ref.subsidy(blk.height)), w)
                bid = blk.previous_block_hash
            if not codes and rblk.id() in cs.block_by_hash:
                world.cs = world.cs.add_block_no_validation(bridge.rblock_to_real(rblk))
                world.accept(rblk, bridge.rblock_to_real(rblk), cs=world.cs)
            if acted:
                break          # the node now holds blocks the harness' world does not know: end this setup
            while len(sn.active()) < 2:
                sn.add_peer()
        rp.validate_block_in_coinstate = rp._skv_orig_validate
        sn.close()



def _replay_route_story(spec):
    from skv.props import c09
    env.boot()
    mon = c09.route_histories(random.Random(1), 8, 14, c09.all_classes(), "replay-route", story_share=0.8)
    return {"evaluations": mon.c.get("deliveries", 0), "distinct": mon.c.get("download_route_stories", 0),
            "violations": [{"key": "node-route:" + v["key"], "msg": v["msg"], "witness": v["witness"]} for v in mon.viol[:6]],
            "counters": {"route_lane_stories": mon.c.get("download_route_stories", 0)}, "digests": []}

def run_shard(spec):
    if "replay" in spec and isinstance(spec["replay"], dict) and spec["replay"].get("kind") == "download-route-story":
        # (the story is re-run with this check's classes on the current tree; the recorded chain is for the reader)
        return _replay_route_story(spec)
    env.boot()
    st = ValueStream(VALUE_CODES, "accepted-despite")
    d = Direct()
    if "replay" in spec:
        w = spec["replay"]
        if w.get("kind") == "restart":
            world = gen.World(random.Random(0))
            for hx in w["chain"]:
                rb = ref.parse_block(bytes.fromhex(hx))
                world.accept(rb, bridge.rblock_to_real(rb), validate=False)
            for batches in range(4):        # (several flush batchings)
                restart_lane(st, random.Random(batches), 1, replay_world=world)
        elif w.get("kind") != "direct":
            st.replay(w, random.Random(0))
        return st.result()
    rng = random.Random("c02/%d/%d" % (spec["seed"], spec["shard"]))
    quick = spec["tier"] == "quick"
    for _ in range(3 if quick else 50):
        world = st.run_world(rng, cstream.C02_CLASSES, nblocks=rng.choice([8, 14, 22]), ncand=50 if quick else 70, bad_key_prob=0.0)
        st.two_thread_lane(world, rng, 2 if quick else 4)
    for _ in range(1 if quick else 10):       # every candidate the first block above the checkpoint horizon
        st.run_world(rng, cstream.C02_CLASSES, nblocks=rng.choice([6, 10]), ncand=30 if quick else 50, bad_key_prob=0.0, horizon_at_head=True)
    for _ in range(1 if quick else 10):       # well-filled blocks in which ONE transaction breaks a value rule
        st.run_world(rng, cstream.C02_CROWDED, nblocks=rng.choice([30, 40]), ncand=14 if quick else 28, bad_key_prob=0.0)
    d.run(rng, 250 if quick else 6000)
    if spec["shard"] % 4 == 1:
        restart_lane(st, rng, 4 if quick else 40)
    if spec["shard"] % 4 == 0:
        node_lane(st, rng, 3 if quick else 40, 12)
    if spec["shard"] % 4 == 2:
        route_lane(st.v, st.c, rng, 3 if quick else 20, dict(cstream.C02_CLASSES), "c02r")
    res = st.result()
    res["evaluations"] += d.c["by_itself_calls"] + d.c["in_state_calls"] + d.c["reward_calls"]
    res["digests"] = sorted(set(res["digests"]) | d.digests)
    res["violations"] += d.viol
    res["counters"]["direct"] = d.c
    res["samples"] += d.samples
    return res


def restart_lane(st, rng, nworlds, replay_world=None):
    """conservation in the chain state a RESTARTED node rebuilds: trees in which sibling blocks spend the same outputs through
    different transactions are written to a file-backed block store, the state is rebuilt from it by the repository's own
    loader, and at every block of the rebuilt state the unspent total may exceed the parent's by at most the subsidy"""
    import io
    import os
    import sys
    import skepticoin.blockstore as bs
    import skepticoin.scripts.utils as su
    from skepticoin.blockstore import BlockStore
    c = st.c
    for j in range(nworlds):
        if replay_world is not None:
            world = replay_world
        elif j == 0:
            # the listed finding's own witness, every run: sibling blocks with the same reward transaction (same height, key,
            # value), the later one carrying a spend
            world = gen.World(rng)
            world.grow(3, rng, tx_prob=0.0, bias="linear")
            head = world.cs.current_chain_hash
            par = world.chain.blocks[head]
            key = world.keys[0][1]
            try:
                rb1, real1 = world.assemble(head, [], par.ts + 60, key, route="ref")
                world.accept(rb1, real1, now=rb1.ts)
                t = world.make_rtx(head, rng, fee=0)
                rb2, real2 = world.assemble(head, [t] if t is not None else [], par.ts + 61, key, route="ref")
                world.accept(rb2, real2, now=rb2.ts)
            except Exception:
                pass
        else:
            world = gen.World(rng)
            world.reuse_pending = False          # (a transaction shared by two stored blocks is C08's known finding)
            world.min_ts = rng.choice([0, 2_000_000_000])      # (some histories are stamped ahead of this machine's clock)
            world.grow(rng.choice([10, 16, 24]), rng, tx_prob=0.8, bias="mixed")
        order = world.chain.order[1:]
        path = os.path.join(os.getcwd(), "c02-restart-%d.db" % j)
        for suffix in ("", "-journal"):
            if os.path.exists(path + suffix):
                os.remove(path + suffix)
        out = sys.stdout
        sys.stdout = io.StringIO()
        try:
            store = BlockStore(path)
            try:
                k = 0
                while k < len(order):
                    step = rng.choice([1, 2, 5, len(order)])
                    for b in order[k:k + step]:
                        store.add_block_to_buffer(world.real[b])
                    store.flush_blocks_to_disk()
                    k += step
            except Exception:
                store.close()
                os.remove(path)
                continue
            store.close()
            store = BlockStore(path)
            old = bs.DefaultBlockStore.instance
            bs.DefaultBlockStore.instance = store
            try:
                rebuilt = su.read_chain_from_disk()
            finally:
                bs.DefaultBlockStore.instance = old
                store.close()
        finally:
            sys.stdout = out
        os.remove(path)
        c["restarts"] = c.get("restarts", 0) + 1
        # blocks spent by different transactions on sibling branches
        spent_by = {}
        for b in order:
            for t in world.chain.blocks[b].txs[1:]:
                for r in t.refs():
                    spent_by.setdefault(r, set()).add(t.id())
        c["outputs_spent_differently_on_sibling_branches"] = c.get("outputs_spent_differently_on_sibling_branches", 0) + sum(
            1 for v in spent_by.values() if len(v) > 1)
        w = {"kind": "restart", "chain": gen.blocks_hex(world, order)}
        # the known finding of C08 (KNOWN_FINDINGS.txt): a transaction id contained in two stored blocks -- here identical reward
        # transactions of sibling blocks -- is attached to the first block only; the later block reads back without it
        owners = {}
        for b in order:
            for t in world.chain.blocks[b].txs:
                owners.setdefault(t.id(), set()).add(b)
        sharing = {b for v in owners.values() if len(v) > 1 for b in v}

        def tainted(x):
            while x in world.chain.blocks and x != world.gid:
                if x in sharing:
                    return True
                x = world.chain.blocks[x].prev
            return False
        if sharing:
            c["restart_worlds_with_a_transaction_id_in_two_blocks"] = c.get("restart_worlds_with_a_transaction_id_in_two_blocks", 0) + 1
        for b in order:
            rb = world.chain.blocks[b]
            um = rebuilt.unspent_transaction_outs_by_hash.get(b)
            pm = rebuilt.unspent_transaction_outs_by_hash.get(rb.prev)
            if um is None or pm is None:
                continue
            c["conservation_checks_after_restart"] = c.get("conservation_checks_after_restart", 0) + 1
            tot = sum(o.value for o in um.values())
            ptot = sum(o.value for o in pm.values())
            if tot > ptot + ref.subsidy(rb.height) and tainted(b):
                st.v("shared-transaction-id-across-stored-blocks", "in the chain state rebuilt from the block store the unspent total "
                     "after block h=%d is %d, after its parent %d, subsidy %d; the block (or an ancestor) contains a transaction id "
                     "that another stored block contains too" % (rb.height, tot, ptot, ref.subsidy(rb.height)), w)
                break
            if tot > ptot + ref.subsidy(rb.height):
                st.v("unspent-total-grew-beyond-subsidy-after-restart", "in the chain state rebuilt from the block store the unspent total "
                     "after block h=%d is %d, after its parent %d, subsidy %d" % (rb.height, tot, ptot, ref.subsidy(rb.height)), w)
                break


def route_lane(add_violation, counters, rng, nhist, classes, tag):
    """this property on the routes by which a RUNNING NODE takes blocks (relay and download, real store): histories in which the
    node had asked a peer for blocks, blocks were announced, arrived unrequested, late, before their parent, or again with another
    body (the stories of skv/props/c09.py), built from this check's classes of rule-breaking blocks"""
    from skv.props import c09
    mon = c09.route_histories(rng, nhist, 14, classes, tag)
    counters["route_lane_deliveries"] = counters.get("route_lane_deliveries", 0) + mon.c.get("deliveries", 0)
    counters["route_lane_stories"] = counters.get("route_lane_stories", 0) + mon.c.get("download_route_stories", 0)
    for k_, v_ in mon.c.items():
        if k_.startswith("story:"):
            counters["route_" + k_] = counters.get("route_" + k_, 0) + v_
    for v in mon.viol:
        add_violation("node-route:" + v["key"], v["msg"], v["witness"])


def finalize(m, tier):
    c = m["counters"]
    floors = [("attempts", c.get("attempts", 0), 500),
              ("candidates_first_above_horizon", c.get("candidates_first_above_horizon", 0), 200),
              ("well-filled blocks (12+ transactions)", sum(v for k, v in c.get("by_class", {}).items() if k.startswith("crowded:")), 30), ("conservation_checks", c.get("conservation_checks", 0), 200),
              ("direct by-itself calls", c.get("direct", {}).get("by_itself_calls", 0), 2000),
              ("direct reward calls", c.get("direct", {}).get("reward_calls", 0), 500),
              ("node_lane_deliveries", c.get("node_lane_deliveries", 0), 60),
              ("conservation_checks_after_restart", c.get("conservation_checks_after_restart", 0), 100)]
    for cls in cstream.C02_CLASSES:
        floors.append(("class " + cls, c.get("by_class", {}).get(cls, 0), 8))
    floors.append(("two_thread_switch_points", c.get("two_thread_switch_points", 0), 1500))
    if c.get("ref_valid_but_rejected", 0):
        m["inconclusive"].append("%d blocks the reference finds valid were rejected" % c["ref_valid_but_rejected"])
    return {
        "rule": "chain lane: 18 value/reward candidate classes + valid blocks on generated trees, conservation checked from "
                "the real unspent maps after every accepted block; direct lane: real transaction/reward validators on "
                "synthetic ledgers with values up to and beyond the maximum supply; node lane: the same classes delivered over the "
                "wire to a real node with a miner emulated inside the validation window; rejected candidates offered again; "
                "distinct = distinct candidates / (ledger, outputs) cases by digest",
        "floors": floors, "extra": {},
    }
