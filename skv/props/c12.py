"""C12 - mining: assembled candidates are valid, pay subsidy + fees, and found blocks are adopted.

A MinerWatcher (built without its CLI constructor) is wired to a real LocalPeer on the in-memory
transport with greeted peers, the real file-backed store and a real wallet.  The two real handlers are
driven in a nonce loop with stub queues.  Every candidate whose id is below target is judged by the
reference model and by the node's own full validation before the found-block handler runs; afterwards
the served chain state, the chain table and every peer's inbox are inspected."""
import io
import os
import random
import sqlite3
import sys

from skv import env, ref, gen, bridge, simnet, nodekit
from skv.runner import digest

PROPERTY = "C12"
LEVEL = "exploration"
NSHARD = 16
SHARD_TIMEOUT = {"quick": 900, "thorough": 3600}


def shards(tier, seed):
    return [{"shard": i, "tier": tier, "seed": seed} for i in range(NSHARD)]


def quiet(fn, *a, **k):
    out = sys.stdout
    sys.stdout = io.StringIO()
    try:
        return fn(*a, **k)
    finally:
        sys.stdout = out


class StubQueue:
    def __init__(self):
        self.items = []

    def put(self, x):
        self.items.append(x)


class Monitor:
    def __init__(self):
        self.viol = []
        self.c = {"setups": 0, "candidates": 0, "found_blocks": 0, "found_with_transactions": 0, "pool_transactions_included": 0,
                  "fees_total_checked": 0, "found_on_reorganised_head": 0, "clock_before_head_timestamp": 0,
                  "peers_checked_for_broadcast": 0, "store_rows_checked": 0, "served_state_checks": 0,
                  "candidates_validated_by_node": 0, "consecutive_found_blocks": 0, "max_pool": 0}
        self.digests = set()
        self.samples = []

    def v(self, key, msg, w):
        if sum(1 for x in self.viol if x["key"] == key) < 3:
            self.viol.append({"key": key, "msg": msg, "witness": w})


class Setup:
    def __init__(self, mon, rng, idx, world=None, period=None):
        from skepticoin.networking.disk_interface import DiskInterface
        from skepticoin.blockstore import BlockStore
        import skepticoin.blockstore as bs
        import skepticoin.mining as mining
        import skepticoin.wallet as wm
        self.mon, self.rng, self.mining = mon, rng, mining
        if world is None:
            if period:
                # configuration lane: short retarget period with the documented timespan, widely spaced timestamps, so that
                # candidates at retarget boundaries are assembled by the miner front end (steer spacing to keep targets minable)
                world = gen.World(rng, nkeys=8, params=ref.Params(period=period))
                base = ref.RETARGET_TIMESPAN // period
                for _ in range(rng.choice([period - 2, period - 1, 2 * period - 2, 2 * period - 1, period + 1])):
                    pid = world.cs.current_chain_hash
                    parent = world.chain.blocks[pid]
                    t = int.from_bytes(parent.target, "big")
                    dt_ = base * 2 if t < (1 << 246) else (base // 2 if t > (1 << 251) else rng.choice([base, base + 7, base - 3]))
                    rb, real = world.assemble(pid, [], parent.ts + dt_, rng.choice(world.keys)[1])
                    world.accept(rb, real, now=rb.ts)
            else:
                world = gen.World(rng, nkeys=8)
                world.grow(rng.choice([4, 8, 14]), rng, tx_prob=0.6)
        self.world = world
        self.period = period
        self.path = os.path.join(os.getcwd(), "miner-%d.db" % idx)
        if os.path.exists(self.path):
            os.remove(self.path)
        self.store = quiet(BlockStore, self.path)
        bs.DefaultBlockStore.instance = self.store
        try:
            self.store.write_blocks_to_disk([world.real[b] for b in world.chain.order[1:]])
        except Exception:
            pass

        class Disk(DiskInterface):
            def save_transaction_for_debugging(self, transaction):
                pass
        self.net = simnet.Net(rng)
        # the peers' connections take a limited number of bytes per writable event in a third of the set-ups (a found block
        # with a well-filled pool is larger than that: it leaves in several pieces)
        self.net.send_window = rng.choice([None, None, 300, 4096])
        if self.net.send_window:
            mon.c["setups_with_small_send_buffers"] = mon.c.get("setups_with_small_send_buffers", 0) + 1
        mining.time = self.net.clock
        clk = self.net.clock
        mining.sleep = lambda seconds, _c=clk: setattr(_c, "t", _c.t + 1)     # waiting lets the virtual clock move on
        head = world.chain.blocks[world.cs.current_chain_hash]
        self.net.clock.t = head.ts + 50
        self.node = self.net.add_node("M", ("10.0.0.2", 2412), world.cs, Disk())
        self.wire = simnet.Wire(self.net.clock)
        self.peers = []
        for i in range(rng.choice([1, 2, 3])):
            raw = self.net.raw_connect(self.node, src=("10.8.8.%d" % (i + 1), 41000 + i))
            simnet.greet(self.net, self.node, raw, self.wire, nonce=2000 + i)
            self.peers.append(raw)
        # wallet: a few miner keys, foreign to the generator's spend keys or not
        mk = gen.make_keys(6, tag=b"c12-miner")
        self.wallet = wm.Wallet({pk: sk for sk, pk in mk}, [pk for _s, pk in mk], {})

        class Thread:
            pass
        th = Thread()
        th.local_peer = self.node.lp
        mw = mining.MinerWatcher.__new__(mining.MinerWatcher)

        class Args:
            quiet = True
        mw.args = Args()
        mw.recv_queue = StubQueue()
        mw.send_queues = [StubQueue()]
        mw.processes = []
        mw.hash_stats = {}
        from decimal import Decimal
        from datetime import datetime
        mw.balance = Decimal(0)
        mw.start_balance = Decimal(0)
        mw.start_time = datetime.fromtimestamp(self.net.clock.t - 100)
        mw.wallet = self.wallet
        mw.coinstate = world.cs
        mw.network_thread = th
        mw.mining_args = {}
        mw.public_key = self.wallet.get_annotated_public_key("reserved for potentially mined block")
        mw.log_silencer = []
        self.mw = mw
        self.ro = sqlite3.connect("file:%s?mode=ro" % self.path, uri=True)

    def fill_pool(self, n):
        world, rng = self.world, self.rng
        head = self.node.lp.chain_manager.coinstate.current_chain_hash
        used = set()
        for t in self.node.lp.chain_manager.get_state()[1]:
            used.update((i.output_reference.hash, i.output_reference.index) for i in t.inputs)
        added = 0
        for _ in range(n):
            t = world.make_rtx(head, rng, exclude=used, fee=rng.choice([0, 0, 1, 50, 1000, 10 ** 7, None]))
            if t is None:
                break
            used.update(t.refs())
            if self.node.lp.chain_manager.add_transaction_to_pool(bridge.rtx_to_real(t)):
                added += 1
                if rng.random() < 0.3:
                    # someone offers another spend of the same output, twice (a second peer relays it again): refused both
                    # times, and the pool the miner draws from stays free of conflicts
                    r0 = t.refs()[0]
                    own = [x for x in world.owned(head, ()) if x[0] == r0]
                    if own:
                        t2 = world.make_rtx(head, rng, spend=own[:1], fee=rng.choice([0, 3, 500]))
                        if t2 is not None and t2.id() != t.id():
                            for _rep in range(2):
                                try:
                                    self.node.lp.chain_manager.add_transaction_to_pool(bridge.rtx_to_real(t2))
                                except Exception:
                                    pass
                                self.mon.c["conflicting_offers_to_the_pool"] = self.mon.c.get("conflicting_offers_to_the_pool", 0) + 1
        return added

    def reorganise_away(self):
        """a longer competing branch from a peer replaces the block this node has just mined, while the pool holds
        transactions that only make sense on the abandoned branch (they spend what the abandoned block created, or what the
        new branch spends low down) next to one that is valid on both; returns what a replay needs, or None"""
        world, rng, node, c = self.world, self.rng, self.node, self.mon.c
        cm = node.lp.chain_manager
        hid = cm.coinstate.current_chain_hash
        if hid not in world.chain.blocks or not self.peers:
            return None
        H = world.chain.blocks[hid]
        if H.prev not in world.chain.blocks:
            return None
        P = world.chain.blocks[H.prev]
        led_P = world.ledger(H.prev)
        used = set()
        for t in cm.get_state()[1]:
            used.update((i.output_reference.hash, i.output_reference.index) for i in t.inputs)
        own = [x for x in world.owned(hid) if x[0] not in used]
        a_only = [x for x in own if x[0] not in led_P]
        common = [x for x in own if x[0] in led_P]
        rng.shuffle(a_only)
        rng.shuffle(common)
        if not common and not a_only:
            return None
        chain_before = gen.blocks_hex(world, world.chain.order[1:])
        offered = []
        if a_only:
            offered.append(world.make_rtx(hid, rng, spend=a_only[:rng.choice([1, 1, 2])], fee=rng.choice([0, 5, 1000])))
        if common:
            offered.append(world.make_rtx(hid, rng, spend=common[:1], fee=rng.choice([0, 5, 1000])))
        if len(common) > 1:
            offered.append(world.make_rtx(hid, rng, spend=common[1:2], fee=rng.choice([0, 5, 1000])))
        for t in offered:
            if t is not None:
                try:
                    cm.add_transaction_to_pool(bridge.rtx_to_real(t))
                except Exception:
                    pass
        pool_before = [bridge.real_to_rtx(t).enc().hex() for t in cm.get_state()[1]]
        # the competing branch: its first block spends, on its own, what one pooled transaction spends
        self.net.clock.t = max(self.net.clock.t, H.ts)
        txs = []
        if common:
            tB = world.make_rtx(H.prev, rng, spend=common[:1], fee=rng.choice([0, 9]))
            if tB is not None:
                txs = [tB]
        branch, parent, ts = [], H.prev, P.ts
        peer = rng.choice(self.peers)
        for k in range(rng.choice([2, 2, 3])):
            ts += 1
            try:
                rb, real = world.assemble(parent, txs if k == 0 else [], ts, world.keys[k % len(world.keys)][1], route="ref")
            except Exception:
                return None
            self.net.clock.t = max(self.net.clock.t, rb.ts - 29)
            peer.push(self.wire.block(real))
            self.net.settle(node)
            if rb.id() not in cm.coinstate.block_by_hash:
                return None
            world.cs = world.cs.add_block_no_validation(real)
            world.accept(rb, real, cs=world.cs)
            branch.append(rb.enc().hex())
            parent = rb.id()
        for r in self.peers:
            r.take_received()
        self.peers = [p for p in self.peers if not p.peer.closed] or self.peers
        if cm.coinstate.current_chain_hash != parent:
            return None
        self.mw.send_queues[0].items.clear()
        c["own_block_reorganised_away_with_pool"] = c.get("own_block_reorganised_away_with_pool", 0) + 1
        if a_only:
            c["pooled_spend_of_abandoned_output"] = c.get("pooled_spend_of_abandoned_output", 0) + 1
        return {"chain_before": chain_before, "head_before": hid.hex(), "pool_before": pool_before, "branch": branch,
                "clock": self.net.clock.t}

    def mine_one(self, w_base):
        """drives the two handlers until a candidate's id is below target, judges it, lets the handler adopt it"""
        import skepticoin.consensus as cons
        from skepticoin.datatypes import Block, BlockHeader
        mon, c, mw, node, world = self.mon, self.mon.c, self.mw, self.node, self.world
        cm = node.lp.chain_manager
        start = self.rng.randrange(1 << 31)
        # sometimes a peer's block becomes the head between two work requests, stamped AHEAD of this node's clock (allowed up
        # to 30 s).  The very first candidate after that is the interesting one; the harness tries that first request with
        # many nonces (each an execution the real miner could have had), restoring the watcher's view before every try
        if self.peers and self.rng.random() < 0.25:
            head_id = cm.coinstate.current_chain_hash
            if head_id in world.chain.blocks:
                try:
                    par = world.chain.blocks[head_id]
                    ts = max(par.ts + 1, self.net.clock.t + self.rng.choice([0, 1, 10, 29]))
                    rbB, realB = world.assemble(head_id, [], ts, world.keys[0][1], route="ref")
                    # (relayed by the peer, or -- in a third of the cases -- an answer to a request of the node: such a block is
                    # taken without in-state validation and is, for the time being, only buffered for the store)
                    as_answer = self.rng.random() < 0.35
                    self.rng.choice(self.peers).push(self.wire.block(realB, in_response_to=7 if as_answer else 0))
                    self.net.settle(node)
                    moved = cm.coinstate.current_chain_hash == rbB.id()
                    if moved and as_answer:
                        c["head_is_an_unvalidated_download_answer"] = c.get("head_is_an_unvalidated_download_answer", 0) + 1
                        if self.rng.random() < 0.5:
                            # ... which the node had held before, lost again when a peer relayed a rule-breaking block on top of it
                            # (refused: the node falls back to what it had validated), and downloaded a second time
                            try:
                                from skv import cstream
                                tmpw = world.fork()
                                tmpw.accept(rbB, realB, validate=False)
                                bad = cstream.v_reward_plus_one(tmpw, rbB.id(), self.rng)
                                if bad is not None:
                                    self.net.clock.t = max(self.net.clock.t, bad[0].ts)
                                    self.rng.choice(self.peers).push(self.wire.block(bridge.rblock_to_real(bad[0])))
                                    self.net.settle(node)
                                    self.peers = [p for p in self.peers if not p.peer.closed] or self.peers
                                    self.rng.choice(self.peers).push(self.wire.block(realB, in_response_to=8))
                                    self.net.settle(node)
                                    moved = cm.coinstate.current_chain_hash == rbB.id()
                                    c["head_downloaded_again_after_a_fall_back"] = c.get("head_downloaded_again_after_a_fall_back", 0) + 1
                            except Exception:
                                pass
                except Exception:
                    moved = False
                if moved:
                    world.cs = world.cs.add_block_no_validation(realB)
                    world.accept(rbB, realB, cs=world.cs)
                    stale = mw.coinstate
                    c["head_moved_ahead_of_clock_between_requests"] = c.get("head_moved_ahead_of_clock_between_requests", 0) + 1
                    for k in range(4000):
                        mw.coinstate = stale
                        mw.send_queues[0].items.clear()
                        try:
                            quiet(mw.handle_request_scrypt_input_message, 0, (start + k) & 0xFFFFFFFF)
                        except Exception as e:
                            mon.v("miner-cannot-assemble-candidate", "the miner's front end raised %r on the first request after a peer's "
                                  "block became the head" % (e,), dict(w_base, chain=gen.blocks_hex(world, world.chain.order[1:])))
                            return False
                        kind, (summary, height) = mw.send_queues[0].items[-1]
                        summary_hash = cons.construct_summary_hash(summary, height)
                        cand, found = nodekit.probe_candidate(mw, self.mining, 0, summary_hash)
                        c["candidates"] += 1
                        if found:
                            self.late_sibling = False
                            c["first_candidates_after_head_change_found"] = c.get("first_candidates_after_head_change_found", 0) + 1
                            return self.judge_found(cand, summary_hash, w_base)
        for k in range(20000):
            nonce = (start + k) & 0xFFFFFFFF
            if k % 37 == 36:
                self.net.clock.t += 1          # time passes while the miner works on one head
                c["clock_ticks_while_mining"] = c.get("clock_ticks_while_mining", 0) + 1
            if self.rng.random() < 0.02:
                # transactions keep arriving while the miner works on this head (before the next candidate is requested)
                c["pool_additions_while_mining"] = c.get("pool_additions_while_mining", 0) + self.fill_pool(self.rng.choice([1, 1, 2]))
            mw.send_queues[0].items.clear()
            try:
                quiet(mw.handle_request_scrypt_input_message, 0, nonce)
            except Exception as e:
                head, pool = cm.get_state()
                mon.v("miner-cannot-assemble-candidate", "the miner's front end raised %r while assembling a candidate from the "
                      "served head (height %d) and the %d pending transactions" % (e, head.head().height, len(pool)),
                      dict(w_base, chain=gen.blocks_hex(world, world.chain.order[1:]), assembling=True))
                return False
            kind, (summary, height) = mw.send_queues[0].items[-1]
            summary_hash = cons.construct_summary_hash(summary, height)
            # (the candidate is the block the REAL found-block handler builds for this result; the handler is stopped before it
            # adopts a block whose id is below the target, so that the situation can be judged first)
            try:
                cand, found = nodekit.probe_candidate(mw, self.mining, 0, summary_hash)
            except Exception as e:
                mon.v("found-block-handler-raised", "while building the block for a scrypt result: %r" % (e,),
                      dict(w_base, chain=gen.blocks_hex(world, world.chain.order[1:])))
                return False
            c["candidates"] += 1
            if not found:
                continue
            # sometimes ANOTHER miner process asks for work between this candidate's request and its hit, after the pool has grown:
            # the block found is still the one the first process was given
            self.pool_grew_after_request = False
            if self.rng.random() < getattr(self.mon, "other_miner_prob", 0.3):
                grew = self.fill_pool(self.rng.choice([1, 2]))
                while len(mw.send_queues) < 2:
                    mw.send_queues.append(StubQueue())
                try:
                    quiet(mw.handle_request_scrypt_input_message, 1, (nonce + 991) & 0xFFFFFFFF)
                except Exception:
                    pass
                self.pool_grew_after_request = grew > 0
                c["another_miner_asked_between_request_and_hit"] = c.get("another_miner_asked_between_request_and_hit", 0) + 1
                # (what the handler builds NOW is what gets adopted: judge that)
                try:
                    cand2, found2 = nodekit.probe_candidate(mw, self.mining, 0, summary_hash)
                except Exception as e:
                    mon.v("found-block-handler-raised", "while building the block for a scrypt result: %r" % (e,),
                          dict(w_base, chain=gen.blocks_hex(world, world.chain.order[1:])))
                    return False
                if cand2 is None or not found2 or cand2.hash() != cand.hash():
                    mon.v("found-block-differs-from-the-candidate-handed-out", "miner 0 was handed a candidate whose id is below the target; "
                          "after another miner process had asked for work (the pool had grown meanwhile) the block built for miner 0's "
                          "result is %s" % ("another block" if cand2 is not None else "none"),
                          dict(w_base, chain=gen.blocks_hex(world, world.chain.order[1:])))
                    if cand2 is not None:
                        cand = cand2
            # sometimes the head MOVES between the request that built this candidate and the hit: a peer's block on the same
            # parent arrives first, and a second miner process asks for work (which moves the watcher's view to the new head).
            # The found block is then a valid sibling of the head: part of the served state (not its head), stored, broadcast.
            self.late_sibling = False
            parent_id = cm.coinstate.current_chain_hash
            if self.peers and self.rng.random() < 0.15 and cand.header.summary.previous_block_hash == parent_id \
                    and parent_id in world.chain.blocks:
                try:
                    par = world.chain.blocks[parent_id]
                    rbB, realB = world.assemble(parent_id, [], par.ts + 1, world.keys[0][1], route="ref")
                    self.net.clock.t = max(self.net.clock.t, rbB.ts)
                    r = self.rng.choice(self.peers)
                    r.push(self.wire.block(realB))
                    self.net.settle(node)
                    if cm.coinstate.current_chain_hash == rbB.id():
                        world.cs = world.cs.add_block_no_validation(realB)
                        world.accept(rbB, realB, cs=world.cs)
                        while len(mw.send_queues) < 2:
                            mw.send_queues.append(StubQueue())
                        if self.rng.random() < 0.5:
                            quiet(mw.handle_request_scrypt_input_message, 1, (nonce + 77) & 0xFFFFFFFF)
                        else:
                            # ... or nobody asks for work in between: the watcher still holds the view it had when it built
                            # the candidate, and hands the network layer that view plus the found block
                            c["found_after_the_head_moved_with_stale_view"] = c.get("found_after_the_head_moved_with_stale_view", 0) + 1
                        self.late_sibling = True
                        c["found_after_the_head_moved"] = c.get("found_after_the_head_moved", 0) + 1
                except Exception:
                    pass
            return self.judge_found(cand, summary_hash, w_base)
        return False

    def judge_found(self, cand, summary_hash, w_base):
        mon, c, mw, node, world = self.mon, self.mon.c, self.mw, self.node, self.world
        cm = node.lp.chain_manager
        now = self.net.clock.t
        rb = bridge.real_to_rblock(cand)
        bid = rb.id()
        miner_key = mw.public_key
        served_before = cm.coinstate
        pool = [bridge.real_to_rtx(t) for t in cm.get_state()[1]]
        c["found_blocks"] += 1
        c["max_pool"] = max(c["max_pool"], len(pool))
        mon.digests.add(digest(rb.enc(), now))
        w = dict(w_base, candidate=rb.enc().hex(), now=now, chain=gen.blocks_hex(world, world.chain.order[1:]))
        parent = world.chain.blocks.get(rb.prev)
        if parent is None:
            mon.v("candidate-on-unknown-parent", "candidate does not build on a block of the served state", w)
            return False
        if now < parent.ts:
            c["clock_before_head_timestamp"] += 1
        codes = ref.block_codes(world.chain, rb, now)
        if codes:
            mon.v("found-candidate-invalid:" + "+".join(sorted(codes)), "candidate with id below target breaks %s (clock %d, "
                  "parent timestamp %d, candidate timestamp %d)" % (sorted(codes), now, parent.ts, rb.ts), w)
        try:
            c["candidates_validated_by_node"] += 1
            served_before.add_block(cand, now)
        except Exception as e:
            mon.v("found-candidate-fails-own-validation", "the node's own full validation rejects its candidate: %r" % (e,), w)
        if not rb.ts > parent.ts:
            mon.v("candidate-timestamp-not-after-parent", "timestamp %d, parent %d" % (rb.ts, parent.ts), w)
        late = getattr(self, "late_sibling", False)
        if late:
            w = dict(w, head_moved_before_the_hit=True)
        if rb.prev != served_before.current_chain_hash and not late:
            mon.v("candidate-not-on-current-head", "candidate extends a block that is not the served head", w)
        # reward
        led = world.ledger(rb.prev)
        try:
            fees = sum(ref.tx_fee(t, led) for t in rb.txs[1:])
        except KeyError:
            fees = None
        c["fees_total_checked"] += 1
        cb = rb.txs[0]
        if fees is not None and (len(cb.outputs) != 1 or cb.outputs[0] != (ref.subsidy(parent.height + 1) + fees, miner_key)):
            mon.v("reward-not-subsidy-plus-fees-to-miner-key", "reward outputs %s, expected one output of %d (subsidy %d + fees %d) "
                  "to the miner's current key" % ([(v, k.hex()[:8]) for v, k in cb.outputs],
                                                  ref.subsidy(parent.height + 1) + fees, ref.subsidy(parent.height + 1), fees), w)
        if len(rb.txs) > 1:
            c["found_with_transactions"] += 1
            c["pool_transactions_included"] += len(rb.txs) - 1
        included = {t.id() for t in rb.txs[1:]}
        if included != {t.id() for t in pool} and not late and not getattr(self, "pool_grew_after_request", False):
            mon.v("candidate-does-not-contain-the-pool", "candidate has %d transactions, pool has %d" % (len(included), len(pool)), w)
        # let the real found-block handler run
        for r in self.peers:
            r.take_received()
        rows_before = {bytes(x[0]) for x in self.ro.execute("select block_hash from chain")}
        # sometimes the networking thread is, at this very moment, in the middle of dropping one connection: the socket is
        # already unregistered and closed, the peer book not yet updated (the two steps of LocalPeer.disconnect) -- sending to
        # that peer fails; every OTHER active peer must still get the block
        half_dropped = None
        if len(self.peers) >= 2 and self.rng.random() < 0.3:
            nm = node.lp.network_manager
            active = nm.get_active_peers()
            if len(active) >= 2:
                victim = self.rng.choice(active[:-1])           # not the last one in the peer book's order
                try:
                    node.lp.selector.unregister(victim.sock)
                    if self.rng.random() < 0.5:
                        victim.sock.close()         # (both steps done / only the first one done)
                    half_dropped = victim
                    c["found_while_a_connection_is_half_dropped"] = c.get("found_while_a_connection_is_half_dropped", 0) + 1
                    w = dict(w, connection_half_dropped=True)
                except Exception:
                    half_dropped = None
        # in a fifth of the cases the OTHER thread of a running node (networking) is in the middle of a store flush -- between
        # "rows written" and "buffer cleared" -- at the moment the miner's handler hands its block to the store
        flush_thread = None
        if self.rng.random() < 0.25 and rb.prev != world.gid:
            import threading
            # (the other thread has a block to flush: the parent, handed to the store once more as after a repeated delivery)
            self.store.add_block_to_buffer(world.real[rb.prev])
            in_window, release = threading.Event(), threading.Event()
            store = self.store
            real_write = store.write_blocks_to_disk

            def slow_write(blocks, _rw=real_write):
                _rw(blocks)
                in_window.set()
                release.wait(0.05)

            def other_thread():
                store.write_blocks_to_disk = slow_write
                try:
                    store.flush_blocks_to_disk()
                finally:
                    store.write_blocks_to_disk = real_write
            flush_thread = threading.Thread(target=other_thread)
            flush_thread.start()
            in_window.wait(5)
            c["found_while_other_thread_flushes"] = c.get("found_while_other_thread_flushes", 0) + 1
            w = dict(w, other_thread_mid_flush=True)
        try:
            quiet(mw.handle_scrypt_output_message, 0, summary_hash)
        except Exception as e:
            mon.v("found-block-handler-raised", repr(e)[:300], w)
            return False
        finally:
            if flush_thread is not None:
                release.set()
                flush_thread.join(10)
            if half_dropped is not None:
                # the networking thread finishes what it was doing
                try:
                    half_dropped.sock.close()
                    node.lp.network_manager.handle_peer_disconnected(half_dropped)
                except Exception:
                    pass
                self.peers = [p for p in self.peers if p.peer is not half_dropped.sock]
        self.net.settle(node)
        if node.escaped:
            mon.v("exception-escaped-event-handler", node.escaped[0][:300], w)
            node.escaped.clear()
        if codes:
            return False
        # adoption: served state, store, broadcast
        c["served_state_checks"] += 1
        served = cm.coinstate
        if bid not in served.block_by_hash:
            mon.v("found-block-not-in-served-chain-state", "after the found-block handler the block (h=%d) is not part of the "
                  "chain state the node serves to peers; served head is h=%d" % (rb.height, served.head().height), w)
        elif served.current_chain_hash != bid and not late:
            mon.v("found-block-not-head-of-served-state", "found block extends the head but the served head is another block", w)
        c["store_rows_checked"] += 1
        rows = [bytes(x[0]) for x in self.ro.execute("select block_hash from chain")]
        if rows.count(bid) != 1:
            mon.v("found-block-not-stored", "found block has %d rows in the chain table (write buffer %d)" % (
                rows.count(bid), len(self.store.write_buffer)), w)
        act = {p.sock for p in node.lp.network_manager.get_active_peers()}
        for r in self.peers:
            if r.peer not in act:
                continue
            c["peers_checked_for_broadcast"] += 1
            msgs, _ = simnet.Wire.parse(r.take_received())
            n = sum(1 for m in msgs if m["msg"]["type"] == "data" and m["msg"].get("kind") == "block" and m["msg"]["id"] == bid)
            if n != 1:
                mon.v("found-block-not-broadcast-exactly-once", "found block was sent %d times to an active peer" % n, w)
        # a peer asking for the block must get it (it is what 'serves' means)
        if self.peers and bid in served.block_by_hash:
            r = self.peers[0]
            r.push(self.wire.frame(self.wire.ms.GetDataMessage(self.wire.ms.DATA_BLOCK, bid)))
            self.net.settle(node)
            msgs, _ = simnet.Wire.parse(r.take_received())
            if not any(m["msg"]["type"] == "data" and m["msg"].get("id") == bid for m in msgs):
                mon.v("found-block-not-served-on-request", "GetData for the found block is not answered", w)
        # the miner took a fresh key
        if mw.public_key == miner_key and self.wallet.unused_public_keys:
            mon.v("miner-key-not-renewed", "miner keeps using the key that was just paid", w)
        world.cs = world.cs.add_block_no_validation(cand)
        world.accept(rb, cand, cs=world.cs)
        # ... and it STAYS part of the served state: a peer pushing a rule-breaking block right afterwards (refused, with the
        # node falling back to its last validated state) must not make the node forget the block it mined itself
        if self.peers and self.rng.random() < 0.6:
            from skv import cstream
            try:
                built = self.rng.choice([cstream.v_reward_plus_one, cstream.c_signed_by_other_key])(world, bid, self.rng)
            except Exception:
                built = None
            if built is not None and ref.block_codes(world.chain, built[0], max(now, built[0].ts)):
                bad = built[0]
                self.net.clock.t = max(self.net.clock.t, bad.ts)
                c["invalid_peer_blocks_after_found_block"] = c.get("invalid_peer_blocks_after_found_block", 0) + 1
                r = self.rng.choice(self.peers)
                r.push(self.wire.block(bridge.rblock_to_real(bad)))
                self.net.settle(node)
                served2 = cm.coinstate
                if bad.id() in served2.block_by_hash:
                    mon.v("invalid-peer-block-in-served-state", "a rule-breaking block pushed by a peer entered the served state", w)
                if bid not in served2.block_by_hash or (served2.current_chain_hash != bid and not late):
                    mon.v("found-block-dropped-from-served-state", "after a peer pushed a rule-breaking block (refused), the block the "
                          "node had just mined (h=%d) is no longer %s the chain state it serves" % (
                              rb.height, "part of" if bid not in served2.block_by_hash else "the head of"), w)
                    return False
                self.peers = [p for p in self.peers if not p.peer.closed] or self.peers
        if len(mon.samples) < 2:
            mon.samples.append({"height": rb.height, "transactions": len(rb.txs) - 1, "fees": fees,
                                "reward": cb.outputs[0][0], "clock_minus_parent_ts": now - parent.ts})
        return True

    def close(self):
        self.ro.close()
        self.store.close()
        os.remove(self.path)


def run_setup(mon, rng, idx, nfound, period=None):
    if period:
        env.set_retarget(period)
    else:
        env.set_retarget(ref.RETARGET_PERIOD)
    st = Setup(mon, rng, idx, period=period)
    mon.c["setups"] += 1
    world = st.world
    reorg = len(world.chain.tips()) > 1
    prev_ok = False
    after = None
    j = -1
    while j + 1 < nfound:
        j += 1
        head = world.chain.blocks[st.node.lp.chain_manager.coinstate.current_chain_hash]
        # [domain] clocks from head.ts - 29 upwards (see DESIGN: at head.ts - 30 no valid child exists)
        st.net.clock.t = head.ts + rng.choice([-29, -10, -1, 0, 1, 2, 60, 120, 100000])
        if period:
            base = ref.RETARGET_TIMESPAN // period
            st.net.clock.t = head.ts + rng.choice([base, base - 5, base + 11, base // 2 + 1])
            if (head.height + 1) % period == 0:
                mon.c["found_at_retarget_boundary_attempts"] = mon.c.get("found_at_retarget_boundary_attempts", 0) + 1
        st.fill_pool(rng.choice([0, 0, 1, 3, 8, 30]))
        w_base = {"setup": idx, "round": j}
        if after:
            w_base["after_reorganisation"] = after
        ok = st.mine_one(w_base)
        if ok and after:
            mon.c["found_after_own_block_was_reorganised_away"] = mon.c.get("found_after_own_block_was_reorganised_away", 0) + 1
        after = None
        if ok and not period and rng.random() < 0.4:
            # the block just mined loses against a longer branch from a peer (the pool non-empty at that moment); the
            # next candidate is built on the new head from what is left of the pool
            after = st.reorganise_away()
            if after and j + 1 >= nfound and nfound < 6:
                nfound += 1
            if after:
                reorg = True
        if ok and reorg:
            mon.c["found_on_reorganised_head"] += 1
        if ok and prev_ok:
            mon.c["consecutive_found_blocks"] += 1
        prev_ok = ok
        if not ok:
            break
    st.close()


def replay(mon, w):
    """the recorded situation (chain, pool = the recorded candidate's transactions, clock) is rebuilt and the miner of
    the CURRENT tree is driven in it; the candidate it finds now is judged"""
    rng = random.Random(0)
    world = gen.World(rng, nkeys=8)
    if "after_reorganisation" in w:
        a = w["after_reorganisation"]
        for hx in a["chain_before"]:
            rb = ref.parse_block(bytes.fromhex(hx))
            world.accept(rb, bridge.rblock_to_real(rb), validate=False)
        world.cs = world.state_at(bytes.fromhex(a["head_before"]))
        st = Setup(mon, rng, 0, world=world)
        for hx in a["pool_before"]:
            st.node.lp.chain_manager.add_transaction_to_pool(bridge.rtx_to_real(ref.parse_tx(bytes.fromhex(hx))))
        st.net.clock.t = a["clock"]
        for hx in a["branch"]:
            rb = ref.parse_block(bytes.fromhex(hx))
            real = bridge.rblock_to_real(rb)
            st.peers[0].push(st.wire.block(real))
            st.net.settle(st.node)
            world.cs = world.cs.add_block_no_validation(real)
            world.accept(rb, real, cs=world.cs)
        st.mine_one({"setup": "replay", "round": 0, "after_reorganisation": a})
        st.close()
        return
    for hx in w["chain"]:
        rb = ref.parse_block(bytes.fromhex(hx))
        world.accept(rb, bridge.rblock_to_real(rb), validate=False)
    rb = ref.dec_block(bytes.fromhex(w["candidate"]), strict=False)[0]
    if rb.prev in world.chain.blocks:
        world.cs = world.state_at(rb.prev)
    st = Setup(mon, rng, 0, world=world)
    for t in rb.txs[1:]:
        st.node.lp.chain_manager.add_transaction_to_pool(bridge.rtx_to_real(t))
    st.net.clock.t = w["now"]
    st.mine_one({"setup": "replay", "round": 0})
    st.close()


def run_shard(spec):
    env.boot()
    mon = Monitor()
    if "replay" in spec:
        replay(mon, spec["replay"])
    else:
        rng = random.Random("c12/%d/%d" % (spec["seed"], spec["shard"]))
        quick = spec["tier"] == "quick"
        for j in range(4 if quick else 90):
            run_setup(mon, rng, j, rng.choice([2, 3, 4]))
        for j in range(2 if quick else 40):
            run_setup(mon, rng, 1000 + j, rng.choice([3, 4]), period=rng.choice([4, 5, 6]))
        env.set_retarget(ref.RETARGET_PERIOD)
    return {"evaluations": mon.c["candidates"], "digests": sorted(mon.digests), "violations": mon.viol, "counters": mon.c,
            "samples": mon.samples}


def finalize(m, tier):
    c = m["counters"]
    return {
        "rule": "chain states from the tree generator (head on the longest fork, after reorganisations), pools of 0-30 "
                "transactions admitted through the real pool API with fees 0..large, clocks from head.ts-29 to head.ts+100000; "
                "the miner's two handlers driven in a nonce loop; distinct = distinct found candidates by digest; non-trivial = "
                "candidates with id below target (found blocks)",
        "floors": [("found_blocks", c.get("found_blocks", 0), 100), ("found_with_transactions", c.get("found_with_transactions", 0), 30),
                   ("served_state_checks", c.get("served_state_checks", 0), 100),
                   ("peers_checked_for_broadcast", c.get("peers_checked_for_broadcast", 0), 100),
                   ("clock_before_head_timestamp", c.get("clock_before_head_timestamp", 0), 10),
                   ("consecutive_found_blocks", c.get("consecutive_found_blocks", 0), 30),
                   ("pool_additions_while_mining", c.get("pool_additions_while_mining", 0), 50),
                   ("invalid_peer_blocks_after_found_block", c.get("invalid_peer_blocks_after_found_block", 0), 40),
                   ("found_at_retarget_boundary_attempts", c.get("found_at_retarget_boundary_attempts", 0), 15),
                   ("clock_ticks_while_mining", c.get("clock_ticks_while_mining", 0), 300),
                   ("found_while_other_thread_flushes", c.get("found_while_other_thread_flushes", 0), 30),
                   ("found_while_a_connection_is_half_dropped", c.get("found_while_a_connection_is_half_dropped", 0), 20),
                   ("conflicting_offers_to_the_pool", c.get("conflicting_offers_to_the_pool", 0), 40),
                   ("found_after_the_head_moved", c.get("found_after_the_head_moved", 0), 10),
                   ("first_candidates_after_head_change_found", c.get("first_candidates_after_head_change_found", 0), 20),
                   ("setups_with_small_send_buffers", c.get("setups_with_small_send_buffers", 0), 15),
                   ("found_after_own_block_was_reorganised_away", c.get("found_after_own_block_was_reorganised_away", 0), 15),
                   ("pooled_spend_of_abandoned_output", c.get("pooled_spend_of_abandoned_output", 0), 8)],
        "extra": {},
    }
