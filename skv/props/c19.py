"""C19 - peer book stays consistent; reconnects with bounded back-off; self-connections dropped; peer file
atomic, bounded and most-recent-first.

One real LocalPeer on the in-memory transport; remote addresses are harness endpoints that accept,
refuse, close before/after the greeting, or are the node itself.  After every event: disjointness of
the connected/disconnected maps (also as an icontract class invariant on NetworkManager), no exception
escaping the entry points.  Offline: back-off checker over the log of start_outgoing_connection calls
and disconnect events on the virtual clock.  peers.json is judged after every write; a crash lane
kills the writer at every syscall / statement boundary."""
import json
import os
import random
import re
import shutil
from ipaddress import IPv6Address

from skv import env, ref, gen, simnet, crash
from skv.runner import digest

PROPERTY = "C19"
LEVEL = "exploration"
SHARD_TIMEOUT = {"quick": 900, "thorough": 3600}


def shards(tier, seed):
    out = [{"lane": "events", "shard": i, "tier": tier, "seed": seed, "max_attempts": 4 if i % 2 == 0 else None}
           for i in range(12)]
    out.append({"lane": "giveup-real-value", "tier": tier, "seed": seed})
    out.append({"lane": "peers-file", "tier": tier, "seed": seed})
    out.append({"lane": "crash-peers-syscall", "tier": tier, "seed": seed})
    out.append({"lane": "crash-peers-line", "tier": tier, "seed": seed})
    out.append({"lane": "real-threads", "tier": tier, "seed": seed})
    return out


class InvariantBroken(Exception):
    pass


class Acc:
    def __init__(self):
        self.viol = []
        self.c = {}
        self.digests = set()
        self.samples = []
        self.n = 0
        self.inconclusive = []

    def v(self, key, msg, w):
        if sum(1 for x in self.viol if x["key"] == key) < 3:
            self.viol.append({"key": key, "msg": msg, "witness": w})

    def inc(self, k, n=1):
        self.c[k] = self.c.get(k, 0) + n

    def result(self):
        return {"evaluations": self.n, "digests": sorted(self.digests), "violations": self.viol, "counters": self.c,
                "samples": self.samples, "inconclusive": self.inconclusive}


INV_COUNT = [0]


def install_invariant():
    import icontract
    import skepticoin.networking.local_peer as lpm     # (import order matters: the package has a circular import)
    import skepticoin.networking.manager as mg

    def peer_book_disjoint(self):
        INV_COUNT[0] += 1
        return not (set(self.connected_peers) & set(self.disconnected_peers))
    if not getattr(mg.NetworkManager, "_skv_inv", False):
        mg.NetworkManager = icontract.invariant(peer_book_disjoint, error=InvariantBroken)(mg.NetworkManager)
        mg.NetworkManager._skv_inv = True
        lpm.NetworkManager = mg.NetworkManager


class Sim:
    def __init__(self, a, rng, max_attempts, idx):
        import skepticoin.networking.remote_peer as rp
        from skepticoin.networking.disk_interface import DiskInterface
        from skepticoin.coinstate import CoinState
        self.a, self.rng, self.rp = a, rng, rp
        self.params_max = max_attempts if max_attempts is not None else 2880
        rp.MAX_CONNECTION_ATTEMPTS = self.params_max
        for f in ("peers.json", "peers.json.new"):
            if os.path.exists(f):
                os.remove(f)
        self.written = []

        sim = self

        class Disk(DiskInterface):
            def write_peers(self, peer):
                before = load_peers_file()
                DiskInterface.write_peers(self, peer)
                sim.check_peers_file(before, peer)

            def save_transaction_for_debugging(self, t):
                pass
        self.net = simnet.Net(rng)
        # "every clock progression": the clock the managers are stepped with starts at the epoch-like default, or at / just
        # after zero (an attempt stamped 0 is an attempt, not "never tried")
        self.clock_start = random.Random(idx).choice([None, None, 0, 0, 1, 59])
        if self.clock_start is not None:
            self.net.clock.t = self.clock_start
            a.inc("runs_with_clock_starting_near_zero")
        self.own = ("10.0.0.1", 2412)
        self.node = self.net.add_node("N", self.own, CoinState.zero(), Disk())
        self.lp = self.node.lp
        self.nm = self.lp.network_manager
        self.wire = simnet.Wire(self.net.clock)
        # addresses
        n_addr = rng.randint(3, 5)
        self.addrs = [("10.1.0.%d" % (i + 1), 2412 + (i % 2)) for i in range(n_addr)]
        self.listeners = {ad: self.net.raw_listen(ad) for ad in self.addrs}
        self.include_self = rng.random() < 0.6
        book = list(self.addrs) + ([self.own] if self.include_self else [])
        self.nm.disconnected_peers = rp.load_peers_from_list([(h, p, "OUTGOING") for (h, p) in book])
        self.attempts = []      # (time, addr)
        self.disconnects = []   # (time, key, hello_received)
        self.selfdetected = {}  # addr -> time
        orig_start = self.lp.start_outgoing_connection
        orig_disc = self.nm.handle_peer_disconnected

        def start(dp):
            self.attempts.append((self.net.clock.t, (dp.host, dp.port)))
            return orig_start(dp)

        def disc(peer):
            self.disconnects.append((self.net.clock.t, (peer.host, peer.port, peer.direction), bool(peer.hello_received)))
            return orig_disc(peer)
        self.lp.start_outgoing_connection = start
        self.nm.handle_peer_disconnected = disc
        self.events = []
        self.incoming = []
        self.w = {"lane": "events", "max_attempts": max_attempts, "events": self.events, "addresses": book}

    # ---- judged after every write of peers.json
    def check_peers_file(self, before, peer):
        a = self.a
        a.inc("peers_file_writes")
        after = load_peers_file()
        w = dict(self.w)
        if not isinstance(after, list):
            a.v("peers-file-invalid", "peers.json after write_peers: %s" % (after,), w)
            return
        if len(after) > 100:
            a.v("peers-file-too-long", "peers.json holds %d entries" % len(after), w)
        want_first = [peer.host, peer.port, peer.direction]
        if not after or after[0][0:3] != want_first:
            a.v("peers-file-not-most-recent-first", "first entry %s, written peer %s" % (after[0][0:3] if after else None, want_first), w)
        prev = before if isinstance(before, list) else []
        rest = [r for r in prev if r[0:3] != want_first]
        if [r[0:3] for r in after[1:]] != [r[0:3] for r in rest][:99]:
            a.v("peers-file-order-or-content-wrong", "entries after the first are not the previous entries in order", w)

    def check(self, what):
        a = self.a
        a.n += 1
        both = set(self.nm.connected_peers) & set(self.nm.disconnected_peers)
        if both:
            a.v("address-both-connected-and-disconnected", "after %s: %s is recorded as connected and as waiting for "
                "reconnection" % (what, sorted(both)[0],), dict(self.w))
        if self.node.escaped:
            e = self.node.escaped[0]
            key = "peer-book-self-check-stopped-the-loop" if "this shouldn't happen" in e else \
                ("invariant-broken-at-method-boundary" if "InvariantBroken" in e else "exception-escaped-entry-point")
            a.v(key, "after %s: %s" % (what, e[:400]), dict(self.w))
            self.node.escaped.clear()

    def ev(self, *e):
        self.events.append(list(e))
        self.a.inc("events")
        self.a.inc("event:" + e[0])

    def open_conns(self):
        """(addr, harness end) of live outgoing connections of the node"""
        out = []
        for ad, l in self.listeners.items():
            for c in l.conns:
                if not c.closed and not c.peer.closed:
                    out.append((ad, c))
        return out

    def run(self, nevents):
        rng, net, node = self.rng, self.net, self.node
        jumps = [0, 1, 5, 9, 10, 11, 19, 20, 21, 39, 40, 41, 79, 80, 81, 100, 160, 320, 640, 1279, 1280, 1799, 1800, 1801, 7200]
        greeted = set()
        # some sequences run on a slow clock (seconds, not minutes, between events): windows shorter than the first
        # back-off step (10 s) are then full of events
        slow = rng.random() < 0.4
        for n in range(nevents):
            r = rng.random()
            if r < 0.40:
                dt = rng.choice([0, 1, 1, 2, 3, 4, 9, 10, 11]) if slow else rng.choice(jumps)
                net.clock.t += dt
                self.ev("step", dt)
                net.do_step(node)
                net.settle(node)
            elif r < 0.50:
                ad = rng.choice(self.addrs)
                if ad in net.refuse or ad in net.unreachable:
                    net.refuse.discard(ad)
                    net.unreachable.discard(ad)
                    self.ev("accept-again", list(ad))
                elif rng.random() < 0.35:
                    # no route to the address: the connect fails at once (not "in progress", then refused)
                    net.unreachable.add(ad)
                    self.ev("unreachable", list(ad))
                else:
                    net.refuse.add(ad)
                    self.ev("refuse", list(ad))
            elif r < 0.62:
                oc = [x for x in self.open_conns() if id(x[1]) not in greeted]
                if oc:
                    ad, c = rng.choice(oc)
                    own_nonce = rng.random() < 0.15
                    self.ev("greet", list(ad), own_nonce)
                    peer_obj = next((p for p in self.nm.connected_peers.values() if p.sock is c.peer), None)
                    # a greeting that really comes from the node itself advertises the node's own listening port, which
                    # need not be the port that was dialed (port forwarding / NAT)
                    c.push(self.wire.hello(nonce=self.lp.nonce if own_nonce else rng.randrange(1 << 32),
                                           my_port=self.own[1] if own_nonce else ad[1]))
                    greeted.add(id(c))
                    net.settle(node)
                    # the greeting only counts when the node really processed it (earlier garbage on the same connection
                    # makes the stream unparsable and the node drops the connection instead)
                    processed = peer_obj is not None and peer_obj.hello_received
                    if own_nonce and not processed:
                        self.a.inc("self_nonce_greetings_not_processed")
                    if own_nonce and processed:
                        self.selfdetected.setdefault(ad, net.clock.t)
                        self.a.inc("self_nonce_greetings")
                        if (ad[0], ad[1], "OUTGOING") in self.nm.connected_peers:
                            self.a.v("self-connection-not-dropped", "greeting with the node's own nonce on an outgoing connection "
                                     "left the peer connected", dict(self.w))
                        if ad not in self.nm.my_addresses:
                            self.a.v("self-address-not-recorded", "address %s missing from the node's own addresses" % (ad,), dict(self.w))
            elif r < 0.72:
                oc = self.open_conns()
                if oc:
                    ad, c = rng.choice(oc)
                    self.ev("remote-close", list(ad), id(c) in greeted)
                    c.close()
                    net.settle(node)
            elif r < 0.80:
                # incoming connection, advertising a port that may equal a known outgoing address
                ad = rng.choice(self.addrs + [("10.2.0.9", 2412)])
                src_port = rng.choice([50001, 50002, 50003])
                self.ev("incoming", list(ad), src_port)
                raw = net.raw_connect(node, src=(ad[0], src_port))
                self.incoming.append(raw)
                if rng.random() < 0.8:
                    raw.push(self.wire.hello(nonce=rng.randrange(1 << 32), my_port=ad[1]))
                net.settle(node)
            elif r < 0.88:
                live = [c for _ad, c in self.open_conns() if id(c) in greeted] + [c for c in self.incoming if not c.closed and not c.peer.closed]
                if live:
                    c = rng.choice(live)
                    ms = self.wire.ms
                    peers = []
                    for _ in range(rng.randint(1, 4)):
                        kind = rng.choice(["known", "unknown", "own", "ipv6", "connected", "waiting"])
                        waiting = [k for k in self.nm.disconnected_peers if k[2] == "OUTGOING"]
                        if kind == "waiting" and waiting:
                            k = rng.choice(sorted(waiting, key=str))       # an address currently waiting for reconnection
                            h, p = k[0], k[1]
                        elif kind == "known" or kind == "waiting":
                            h, p = rng.choice(self.addrs)
                        elif kind == "unknown":
                            h, p = "10.3.%d.%d" % (rng.randrange(2), rng.randrange(1, 4)), 2412
                        elif kind == "own":
                            h, p = self.own
                        elif kind == "connected" and self.nm.connected_peers:
                            k = rng.choice(sorted(self.nm.connected_peers, key=str))
                            h, p = k[0], k[1] if isinstance(k[1], int) else 2412
                        else:
                            h, p = None, 2412
                        ip = IPv6Address("::FFFF:%s" % h) if h else IPv6Address("2001:db8::%d" % rng.randrange(1, 9))
                        peers.append(ms.Peer(0, ip, p))
                    self.ev("announce", [(str(p.ip_address), p.port) for p in peers])
                    c.push(self.wire.frame(ms.PeersMessage(peers)))
                    net.settle(node)
            elif r < 0.93:
                live = [c for _ad, c in self.open_conns()] + [c for c in self.incoming if not c.closed and not c.peer.closed]
                if live:
                    c = rng.choice(live)
                    self.ev("garbage")
                    c.push(bytes(rng.getrandbits(8) for _ in range(rng.choice([3, 8, 40]))))
                    net.settle(node)
            elif r < 0.97:
                live = [c for _ad, c in self.open_conns() if id(c) in greeted]
                if live:
                    c = rng.choice(live)
                    self.ev("get-peers")
                    c.push(self.wire.frame(self.wire.ms.GetPeersMessage()))
                    net.settle(node)
            elif r < 0.985:
                # a SECOND connect event for a key that is connected right now (the network manager's interface, used the way
                # the local peer uses it when it dials; "duplicate keys" are part of what the property quantifies over)
                keys = [k for k in self.nm.connected_peers if k[2] == "OUTGOING"] or list(self.nm.connected_peers)
                if keys:
                    import selectors as _sel
                    k = rng.choice(sorted(keys, key=str))
                    self.ev("duplicate-connect", [k[0], k[1], k[2]])
                    self.a.inc("duplicate_connect_events")
                    if not hasattr(self, "duplicate_connected"):
                        self.duplicate_connected = set()
                    self.duplicate_connected.add((k[0], k[1]))
                    try:
                        sock = net.lpmod.socket.socket()
                        sock.setblocking(False)
                        sock.connect_ex((k[0], k[1] if isinstance(k[1], int) else 2412))
                        dp = self.rp.DisconnectedRemotePeer(k[0], k[1], k[2], net.clock.t, 0)
                        peer = dp.as_connected(self.lp, sock)
                        self.lp.selector.register(sock, _sel.EVENT_READ, data=peer)
                        net._call(node, self.nm.handle_peer_connected, peer)
                    except Exception as e:
                        self.a.v("exception-from-connect-event", "a second connect event for %s raised %r" % (k, e), dict(self.w))
                    net.settle(node)
            else:
                if self.incoming:
                    c = rng.choice(self.incoming)
                    self.ev("incoming-close")
                    c.close()
                    net.settle(node)
            self.check(self.events[-1][0] if self.events else "start")
        self.backoff_check()

    def backoff_check(self):
        a = self.a
        by_addr = {}
        for t, ad in self.attempts:
            by_addr.setdefault(ad, []).append(t)
        a.inc("outgoing_attempts", len(self.attempts))
        for ad, times in by_addr.items():
            if ad in getattr(self, "duplicate_connected", ()):
                # [domain] the harness injected a second connect event for this key with a failure history of its own
                # choosing: the back-off model does not apply to it (the peer-book oracle does)
                a.inc("addresses_excluded_from_back_off_after_duplicate_connect")
                continue
            key = (ad[0], ad[1], "OUTGOING")
            discs = [(t, hello) for (t, k, hello) in self.disconnects if k == key]
            k = 0       # consecutive attempts that ended without a greeting
            di = 0
            for i, t in enumerate(times):
                # fold in the disconnects that happened before this attempt
                while di < len(discs) and discs[di][0] <= t and di < i:
                    k = 0 if discs[di][1] else k + 1
                    di += 1
                if i > 0:
                    need = min(10 * (2 ** k), 1800)
                    gap = t - times[i - 1]
                    a.inc("reconnect_gaps_checked")
                    a.digests.add(digest("gap", k, gap))
                    if gap == need:
                        a.inc("reconnects_exactly_at_the_bound")
                    if gap < need:
                        a.v("reconnect-sooner-than-back-off", "address %s: attempt %d came %d s after the previous one; with %d "
                            "consecutive greeting-less attempts the minimum is %d s" % (ad, i, gap, k, need), dict(self.w))
                    if k > self.params_max:
                        a.v("retry-beyond-configured-failures", "address %s retried after %d consecutive failures (maximum %d)" % (
                            ad, k, self.params_max), dict(self.w))
                    a.c["max_consecutive_failures_seen"] = max(a.c.get("max_consecutive_failures_seen", 0), k)
                if ad in self.selfdetected and t > self.selfdetected[ad]:
                    a.v("self-address-retried", "address %s was connected to again after it was found to be the node itself" % (ad,),
                        dict(self.w))
            if ad == self.own and self.include_self:
                a.inc("real_self_connections_attempted")


SMALL_EVENTS = ["step+1", "step+4", "step+10", "greet-A", "close-A", "B-announces-A", "incoming-from-A", "toggle-refuse-A"]


def lane_small_scope(a, spec, length):
    """EVERY sequence of `length` events from SMALL_EVENTS on one address A (helper peer B stays connected and greeted to
    carry announcements), on a clock that moves in seconds: all interleavings of reconnect timing with greetings, closes,
    announcements and reverse-direction greetings inside the first back-off window"""
    import itertools
    rng = random.Random(7)
    idx = 0
    for seq in itertools.product(range(len(SMALL_EVENTS)), repeat=length):
        idx += 1
        if idx % spec["nshard"] != spec["shard"] % spec["nshard"]:
            continue
        sim = Sim(a, rng, spec["max_attempts"], idx)
        A, B = sim.addrs[0], sim.addrs[1]
        sim.include_self = False
        sim.nm.disconnected_peers = sim.rp.load_peers_from_list([(A[0], A[1], "OUTGOING"), (B[0], B[1], "OUTGOING")])
        net, node = sim.net, sim.node
        net.do_step(node)
        net.settle(node)
        cb = sim.listeners[B].conn
        cb.push(sim.wire.hello(nonce=77, my_port=B[1]))
        net.settle(node)
        greeted = set()
        sim.w = {"lane": "small-scope", "sequence": [SMALL_EVENTS[e] for e in seq], "max_attempts": spec["max_attempts"]}
        for e in seq:
            name = SMALL_EVENTS[e]
            ca = sim.listeners[A].conn
            live = ca is not None and not ca.closed and not ca.peer.closed
            if name.startswith("step+"):
                net.clock.t += int(name[5:])
                net.do_step(node)
            elif name == "greet-A" and live and id(ca) not in greeted:
                ca.push(sim.wire.hello(nonce=78, my_port=A[1]))
                greeted.add(id(ca))
            elif name == "close-A" and live:
                ca.close()
            elif name == "B-announces-A" and not cb.closed and not cb.peer.closed:
                cb.push(sim.wire.frame(sim.wire.ms.PeersMessage([sim.wire.ms.Peer(0, IPv6Address("::FFFF:%s" % A[0]), A[1])])))
            elif name == "incoming-from-A":
                raw = net.raw_connect(node, src=(A[0], 50001))
                raw.push(sim.wire.hello(nonce=79, my_port=A[1]))
            elif name == "toggle-refuse-A":
                (net.refuse.discard if A in net.refuse else net.refuse.add)(A)
            net.settle(node)
            sim.check(name)
        sim.backoff_check()
        a.inc("small_scope_sequences")
        a.digests.add(digest("ss", seq))
    a.inc("invariant_evaluations", INV_COUNT[0])


def load_peers_file():
    try:
        with open("peers.json") as f:
            return json.load(f)
    except FileNotFoundError:
        return "MISSING"
    except Exception as e:
        return "UNPARSABLE %r" % (e,)


def lane_events(a, spec):
    env.boot()
    install_invariant()
    rng = random.Random("c19/%d/%d" % (spec["seed"], spec["shard"]))
    quick = spec["tier"] == "quick"
    for j in range(12 if quick else 400):
        sim = Sim(a, rng, spec["max_attempts"], j)
        a.inc("sequences")
        sim.run(rng.choice([100, 200, 350]) if quick else rng.choice([100, 300, 600]))
        a.digests.add(digest(json.dumps(sim.events)))
        if len(a.samples) < 1:
            a.samples.append({"lane": "events", "events": sim.events[:25], "attempts": len(sim.attempts)})
    a.inc("invariant_evaluations", INV_COUNT[0])
    if INV_COUNT[0] == 0:
        a.inconclusive.append("NetworkManager invariant never evaluated")
    INV_COUNT[0] = 0
    lane_small_scope(a, dict(spec, nshard=12), 5 if quick else 6)


def lane_giveup(a, spec):
    """documented value of the failure limit: consecutive refused attempts on the virtual clock until the node gives up"""
    env.boot()
    install_invariant()
    import skepticoin.networking.params as np
    import skepticoin.networking.remote_peer as rp
    rp.MAX_CONNECTION_ATTEMPTS = np.MAX_CONNECTION_ATTEMPTS
    a.n += 1
    if np.MAX_CONNECTION_ATTEMPTS != 2880 or np.TIME_TO_SECOND_CONNECTION_ATTEMPT != 10 or np.MAX_TIME_BETWEEN_CONNECTION_ATTEMPTS != 1800:
        a.v("back-off-parameters-changed", "params: %s %s %s" % (np.MAX_CONNECTION_ATTEMPTS, np.TIME_TO_SECOND_CONNECTION_ATTEMPT,
                                                              np.MAX_TIME_BETWEEN_CONNECTION_ATTEMPTS), {"lane": "giveup"})
    rng = random.Random(1)
    sim = Sim(a, rng, None, 0)
    sim.include_self = False
    ad = sim.addrs[0]
    sim.nm.disconnected_peers = sim.rp.load_peers_from_list([(ad[0], ad[1], "OUTGOING")])
    sim.net.refuse.add(ad)
    for i in range(2900):
        sim.net.clock.t += 1800
        sim.net.do_step(sim.node)
        sim.net.settle(sim.node)
        sim.check("refused attempt %d" % i)
    n_att = len(sim.attempts)
    a.inc("consecutive_failures_driven", n_att)
    sim.backoff_check()
    if n_att != 2881:
        a.v("give-up-point-wrong", "%d attempts were made against an address that never answers; documented maximum of "
            "greeting-less failures is 2880 (so 2881 attempts)" % n_att, {"lane": "giveup-real-value"})
    a.samples.append({"lane": "giveup", "attempts": n_att})


def lane_peers_file(a, spec):
    """write_peers against files of 0..150 entries, duplicates, corrupted files"""
    env.boot()
    from skepticoin.networking.disk_interface import DiskInterface
    from skepticoin.networking.remote_peer import RemotePeer
    rng = random.Random("c19/pf/%d" % spec["seed"])
    d = DiskInterface()

    class W:
        w = {"lane": "peers-file"}
    for rep in range(60 if spec["tier"] == "quick" else 1500):
        n = rng.choice([0, 1, 2, 50, 99, 100, 101, 150])
        rows = [["10.5.%d.%d" % (i // 200, i % 200), 2412, "OUTGOING", "2021-01-01T00:00:00Z"] for i in range(n)]
        mode = rng.choice(["ok", "ok", "ok", "missing", "corrupt"])
        if os.path.exists("peers.json"):
            os.remove("peers.json")
        if mode == "ok":
            json.dump(rows, open("peers.json", "w"))
        elif mode == "corrupt":
            open("peers.json", "w").write("[[\"10.5.0.1\", 2412, ")
            rows = []
        else:
            rows = []
        if rows and rng.random() < 0.5:
            r = rng.choice(rows)
            peer = RemotePeer(r[0], r[1], r[2], None, 0)      # already listed: must move to the front, not duplicate
        else:
            peer = RemotePeer("10.6.0.%d" % rng.randrange(250), 2412, "OUTGOING", None, 0)
        a.n += 1
        a.inc("peers_file_cases")
        a.digests.add(digest("pf", n, mode, peer.host))
        import io
        import sys
        out = sys.stdout
        sys.stdout = io.StringIO()
        try:
            d.write_peers(peer)
        except Exception as e:
            a.v("write-peers-raised", "%r with a %s file of %d entries" % (e, mode, n), {"lane": "peers-file", "n": n, "mode": mode})
            continue
        finally:
            sys.stdout = out
        after = load_peers_file()
        want = [peer.host, peer.port, peer.direction]
        w = {"lane": "peers-file", "n": n, "mode": mode}
        if not isinstance(after, list):
            a.v("peers-file-invalid", str(after)[:100], w)
            continue
        exp = [want] + [r[0:3] for r in rows if r[0:3] != want]
        if len(after) > 100:
            a.v("peers-file-too-long", "%d entries" % len(after), w)
        if [r[0:3] for r in after] != exp[:100]:
            a.v("peers-file-order-or-content-wrong", "file of %d (%s): result does not start with the written peer followed by the "
                "previous entries in order (got %d entries)" % (n, mode, len(after)), w)


def lane_crash_syscall(a, spec, by_line=False):
    work = os.path.join(os.getcwd(), "w")
    os.makedirs(work, exist_ok=True)
    rows = [["10.5.%d.%d" % (i // 200, i % 200), 2412, "OUTGOING", "2021-01-01T00:00:00Z"] for i in range(100)]
    old = rows
    tr = os.path.join(work, "trace.txt")

    def reset():
        with open(os.path.join(work, "peers.json"), "w") as f:
            json.dump(rows, f, indent=4)
        if os.path.exists(os.path.join(work, "peers.json.new")):
            os.remove(os.path.join(work, "peers.json.new"))

    def state():
        try:
            with open(os.path.join(work, "peers.json")) as f:
                return json.load(f)
        except FileNotFoundError:
            return "MISSING"
        except Exception as e:
            return "UNPARSABLE %r" % (e,)

    def judge(st, w, what):
        a.n += 1
        if st == old:
            a.inc("crash_left_old_file")
        elif isinstance(st, list) and len(st) == 100 and st[0][0:3] == ["10.6.6.6", 2412, "OUTGOING"] and [r[0:3] for r in st[1:]] == [r[0:3] for r in old[:99]]:
            a.inc("crash_left_new_file")
        else:
            kind = st if isinstance(st, str) and st == "MISSING" else ("unparsable" if isinstance(st, str) else "neither-old-nor-new")
            a.v("peers-file-not-atomic:" + kind.lower(), "%s: peers.json is %s" % (what, kind), w)
    def restart(st, w, what):
        """the node starts again: it reads its peer book (the documented start-up path), later records another peer.  Whatever
        the crashed write left lying around, the book read is the one in the file, the file stays a complete list, and the
        next completed write gives the new peer followed by the previous entries"""
        if not isinstance(st, list):
            return
        rc, out, err = crash.run_plain(["load-peers"], work)
        a.n += 1
        a.inc("restarts_reading_the_peer_book")
        m = re.search(rb"BOOK (.*)", out)
        st2 = state()
        if rc != 0 or not m:
            a.v("peer-book-unreadable-after-crash", "%s, then a restart: reading the peer book failed: %s" % (what, err.decode("latin1")[-160:]), w)
            return
        if st2 != st:
            a.v("peers-file-not-atomic:changed-by-restart", "%s, then a restart that only reads the peer book: peers.json is %s" % (
                what, "UNPARSABLE/MISSING" if isinstance(st2, str) else "another list (%d entries, was %d)" % (len(st2), len(st))), w)
            return
        if sorted(json.loads(m.group(1).decode())) != sorted([r[0:3] for r in st]):
            a.v("peer-book-read-differs-from-file", "%s, then a restart: the book read at start-up is not the list in peers.json" % what, w)
            return
        rc, out, err = crash.run_plain(["write-peers", "10.7.7.7", "2412"], work)
        a.n += 1
        a.inc("completed_writes_after_crash")
        st3 = state()
        if rc != 0 or not isinstance(st3, list) or [r[0:3] for r in st3] != ([["10.7.7.7", 2412, "OUTGOING"]] + [r[0:3] for r in st])[:100]:
            a.v("completed-write-after-crash-corrupt", "%s, then a restart and a COMPLETED write of another peer: peers.json is not "
                "that peer followed by the previous entries" % what, w)
    args = ["write-peers", "10.6.6.6", "2412"]
    reset()
    if not by_line:
        rc, out, trace = crash.run_traced(args, work, tr)
        if rc != 0:
            a.inconclusive.append("dry run of write-peers driver failed rc=%s" % rc)
            return
        pts = crash.region_points(trace)
        a.inc("syscalls_in_write_peers_region", len(pts))
        for n, (name, ordinal, text) in enumerate(pts):
            reset()
            rc, out, t2 = crash.run_traced(args, work, tr, inject=(name, ordinal))
            a.inc("crash_points_run")
            if not crash.kill_landed(t2, name, ordinal):
                a.inc("kill_did_not_land")
                continue
            a.inc("kills_landed")
            a.digests.add(digest("psys", n))
            judge(state(), {"lane": "crash-peers-syscall", "point": n, "syscall": text[:100]},
                  "SIGKILL on entry to syscall #%d of write_peers (%s)" % (n, text[:60]))
            restart(state(), {"lane": "crash-peers-syscall", "point": n, "syscall": text[:100]},
                    "SIGKILL on entry to syscall #%d of write_peers (%s)" % (n, text[:40]))
        a.samples.append({"lane": "crash-peers-syscall", "region": [p[2][:70] for p in pts[:10]]})
    else:
        rc, out, err = crash.run_plain(["write-peers", "--count-lines", "1", "10.6.6.6", "2412"], work)
        m = re.search(rb"LINES (\d+)", out)
        if rc != 0 or not m:
            a.inconclusive.append("line-count run failed: %s" % err[-300:])
            return
        nlines = int(m.group(1))
        a.inc("statement_boundaries_in_write_peers", nlines)
        for k in range(1, nlines + 1):
            reset()
            rc, out, err = crash.run_plain(["write-peers", "--exit-at-line", str(k), "10.6.6.6", "2412"], work)
            a.inc("crash_points_run")
            if rc != 9:
                a.inc("exit_did_not_land")
                continue
            a.inc("line_exits_landed")
            a.digests.add(digest("pline", k))
            judge(state(), {"lane": "crash-peers-line", "line_event": k}, "process exit at statement boundary #%d of write_peers" % k)
            restart(state(), {"lane": "crash-peers-line", "line_event": k}, "process exit at statement boundary #%d of write_peers" % k)
    shutil.rmtree(work, ignore_errors=True)


def run_shard(spec):
    a = Acc()
    if "replay" in spec:
        w = spec["replay"]
        spec = dict(w, tier="quick", seed=0, shard=0)
        spec.setdefault("max_attempts", 4)
        spec["lane"] = {"events": "events", "giveup": "giveup-real-value", "peers-file": "peers-file",
                        "crash-peers-syscall": "crash-peers-syscall", "crash-peers-line": "crash-peers-line", "real-threads": "real-threads"}.get(w.get("lane"), w.get("lane"))
    lane = spec["lane"]
    if lane == "events":
        lane_events(a, spec)
    elif lane in ("giveup-real-value", "giveup"):
        lane_giveup(a, spec)
    elif lane == "peers-file":
        lane_peers_file(a, spec)
    elif lane == "crash-peers-syscall":
        lane_crash_syscall(a, spec)
    elif lane == "crash-peers-line":
        lane_crash_syscall(a, spec, by_line=True)
    elif lane == "real-threads":
        # auxiliary: the repository's own integration tests (real sockets + threads) with the disjointness monitor attached
        env.boot()
        from skv import realsock
        rep = realsock.run_network_tests()
        if rep is None:
            a.inc("real_thread_lane_not_run_cleanly")
        else:
            a.inc("real_thread_lane_runs")
            a.inc("real_thread_disjointness_evaluations", rep["disjoint_evaluations"])
            a.n += rep["disjoint_evaluations"]
            for v in rep["disjoint_violations"][:3]:
                a.v("real-thread-lane:address-both-connected-and-disconnected", v, {"lane": "real-threads"})
    return a.result()


def finalize(m, tier):
    c = m["counters"]
    return {
        "rule": "event sequences (100-600 events) over 3-5 remote addresses plus the node's own: timer steps with clock jumps "
                "0 s..2 h, refusals, remote closes before/after the greeting, greetings (own nonce included), incoming "
                "connections advertising known ports, duplicate keys, announcements of known/unknown/own/IPv6-only addresses, "
                "garbage; configuration lane with failure limit 4 and documented-value lane (2,900 refused attempts); peers file "
                "cases and crash points; every sequence of 5/6 events from an 8-event alphabet on one address on a slow clock "
                "(exhaustive small scope); distinct = distinct event sequences + distinct (failures, gap) pairs + crash points",
        "floors": [("events", c.get("events", 0), 10000), ("outgoing_attempts", c.get("outgoing_attempts", 0), 1000),
                   ("reconnect_gaps_checked", c.get("reconnect_gaps_checked", 0), 800),
                   ("reconnects_exactly_at_the_bound", c.get("reconnects_exactly_at_the_bound", 0), 20),
                   ("self_nonce_greetings", c.get("self_nonce_greetings", 0), 20),
                   ("real_self_connections_attempted", c.get("real_self_connections_attempted", 0), 5),
                   ("peers_file_writes", c.get("peers_file_writes", 0), 100),
                   ("consecutive_failures_driven", c.get("consecutive_failures_driven", 0), 2881),
                   ("invariant_evaluations", c.get("invariant_evaluations", 0), 10000),
                   ("crash points landed", c.get("kills_landed", 0) + c.get("line_exits_landed", 0), 10),
                   ("restarts_reading_the_peer_book", c.get("restarts_reading_the_peer_book", 0), 10),
                   ("max_consecutive_failures_seen", c.get("max_consecutive_failures_seen", 0), 4),
                   ("small_scope_sequences", c.get("small_scope_sequences", 0), 8 ** 5)],
        "extra": {},
    }
