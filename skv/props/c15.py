"""C15 - wallet keys: faithful file, no key handed out twice, atomic save.

Sequence lane: random sequences of hand-outs, restores, key generation, saves and loads, checked
against a small model (plus an icontract class invariant on Wallet); balance lane: get_balance versus
the reference ledger; crash lanes (fault enumeration): SIGKILL on entry to every syscall of a save
(strace injection) and process exit at every statement boundary of the save, for several wallet
sizes, and the same around the whole receive script (an address that was printed must never be
handed out again by a restarted process)."""
import json
import os
import random
import re
import shutil
import sys

from skv import env, ref, gen, crash
from skv.runner import digest

PROPERTY = "C15"
LEVEL = "fault_enumeration"
SHARD_TIMEOUT = {"quick": 900, "thorough": 3600}


def shards(tier, seed):
    out = [{"lane": "seq", "shard": i, "tier": tier, "seed": seed} for i in range(6)]
    out += [{"lane": "balance", "shard": i, "tier": tier, "seed": seed} for i in range(2)]
    sizes = [(3, 1), (200, 2)] if tier == "quick" else [(3, 1), (40, 1), (200, 2), (10000, 12)]
    for n, parts in sizes:
        for p in range(parts):
            out.append({"lane": "crash-syscall", "keys": n, "part": p, "parts": parts, "tier": tier, "seed": seed})
    for n in ([3, 200] if tier == "quick" else [3, 40, 200]):
        out.append({"lane": "crash-line", "keys": n, "tier": tier, "seed": seed})
    for n in ([3] if tier == "quick" else [3, 200]):
        out.append({"lane": "crash-receive", "keys": n, "tier": tier, "seed": seed})
    out += [{"lane": "miner", "shard": i, "tier": tier, "seed": seed} for i in range(3)]
    return out


class Acc:
    def __init__(self):
        self.viol = []
        self.c = {}
        self.digests = set()
        self.samples = []
        self.n = 0
        self.inconclusive = []

    def v(self, key, msg, w):
        if sum(1 for x in self.viol if x["key"] == key) < 3:
            self.viol.append({"key": key, "msg": msg, "witness": w})

    def inc(self, k, n=1):
        self.c[k] = self.c.get(k, 0) + n

    def result(self):
        return {"evaluations": self.n, "digests": sorted(self.digests), "violations": self.viol, "counters": self.c,
                "samples": self.samples, "inconclusive": self.inconclusive}


# ------------------------------------------------------------------------------ sequence lane
class InvariantBroken(Exception):
    pass


def install_invariant(wm, counter):
    import icontract

    def keys_consistent(self):
        counter[0] += 1
        u = self.unused_public_keys
        return (len(set(u)) == len(u) and all(k in self.keypairs for k in u)
                and all(k in self.keypairs for k in self.public_key_annotations)
                and not (set(u) & set(self.public_key_annotations)))
    wm.Wallet = icontract.invariant(keys_consistent, error=InvariantBroken)(wm.Wallet)


def lane_seq(a, spec):
    env.boot()
    import skepticoin.wallet as wm
    inv_count = [0]
    install_invariant(wm, inv_count)
    rng = random.Random("c15/seq/%d/%d" % (spec["seed"], spec["shard"]))
    nseq = 25 if spec["tier"] == "quick" else 700
    pool = gen.make_keys(24, tag=b"c15")
    for s in range(nseq):
        nk = rng.randint(3, 12)
        ks = rng.sample(pool, nk)
        wallet = wm.Wallet({pk: sk for sk, pk in ks}, [pk for _s, pk in ks], {})
        model = {"keypairs": dict(wallet.keypairs), "unused": list(wallet.unused_public_keys), "ann": {}}
        active = set()          # handed out and not restored
        ops = []
        a.inc("sequences")
        w = {"lane": "seq", "keys": [pk.hex() for _s, pk in ks], "ops": ops}
        for step in range(rng.randint(5, 40)):
            op = rng.choice(["handout", "handout", "handout", "restore", "save", "load", "saveload", "generate"])
            a.n += 1
            try:
                if op == "handout":
                    ann = "note %d" % step if rng.random() < 0.85 else rng.choice(["", " ", "0"])      # (also empty / blank ones)
                    had_unused = len(model["unused"]) > 0
                    ops.append(["handout", ann])
                    pk = wallet.get_annotated_public_key(ann)
                    a.inc("handouts")
                    if had_unused:
                        if pk in active:
                            a.v("key-handed-out-twice", "key handed out again while %d unused keys remain (step %d)" % (
                                len(model["unused"]), step), w)
                        if pk not in model["unused"]:
                            a.v("handout-of-key-not-unused", "a key that was not in the unused list was handed out while "
                                "unused keys remained", w)
                        else:
                            model["unused"].remove(pk)
                        model["ann"][pk] = ann
                        active.add(pk)
                        if pk in wallet.unused_public_keys:
                            a.v("handed-out-key-still-unused", "handed-out key is still listed as unused", w)
                        if wallet.public_key_annotations.get(pk) != ann:
                            a.v("annotation-not-recorded", "annotation of a handed-out key was not recorded", w)
                    else:
                        a.inc("handouts_with_no_unused_left")
                        if pk not in model["keypairs"]:
                            a.v("handout-of-foreign-key", "handed out a key the wallet has no secret for", w)
                elif op == "restore" and active:
                    pk = rng.choice(sorted(active))
                    # the annotation passed along is the recorded one, or -- as when the miner gives back a key it was handed
                    # from an exhausted wallet (a key in use under an earlier annotation) -- another one
                    ann = model["ann"][pk] if rng.random() < 0.6 else "reserved for potentially mined block"
                    ops.append(["restore", pk.hex(), ann])
                    wallet.restore_annotated_public_key(pk, ann)
                    a.inc("restores")
                    if ann != model["ann"][pk]:
                        a.inc("restores_with_other_annotation")
                    active.discard(pk)
                    del model["ann"][pk]
                    model["unused"].append(pk)
                elif op == "generate":
                    ops.append(["generate"])
                    before = set(wallet.keypairs)
                    wallet.generate_key()
                    new = set(wallet.keypairs) - before
                    a.inc("generated")
                    if len(new) != 1:
                        a.v("generate-key-wrong", "generate_key added %d keys" % len(new), w)
                    for pk in new:
                        model["keypairs"][pk] = wallet.keypairs[pk]
                        model["unused"].append(pk)
                elif op in ("save", "load", "saveload"):
                    ops.append([op])
                    if op in ("save", "saveload") or not os.path.exists("wallet.json"):
                        wm.save_wallet(wallet)
                        a.inc("saves")
                        saved_model = json.loads(json.dumps({"k": {k.hex(): v.hex() for k, v in model["keypairs"].items()},
                                                             "u": [k.hex() for k in model["unused"]],
                                                             "a": {k.hex(): v for k, v in model["ann"].items()}}))
                        a.c["_last_saved"] = saved_model
                    if op in ("load", "saveload") and "_last_saved" in a.c:
                        loaded = wm.Wallet.load(open("wallet.json"))
                        a.inc("loads")
                        sm = a.c["_last_saved"]
                        got = {"k": {k.hex(): v.hex() for k, v in loaded.keypairs.items()},
                               "u": [k.hex() for k in loaded.unused_public_keys],
                               "a": {k.hex(): v for k, v in loaded.public_key_annotations.items()}}
                        if got["k"] != sm["k"]:
                            a.v("save-load-changes-key-pairs", "key pairs differ after save and load", w)
                        if got["u"] != sm["u"]:
                            a.v("save-load-changes-unused-keys", "unused key list (content or order) differs after save+load", w)
                        if got["a"] != sm["a"]:
                            a.v("save-load-changes-annotations", "annotations differ after save and load", w)
                        if op == "saveload" or sm == json.loads(json.dumps({
                                "k": {k.hex(): v.hex() for k, v in model["keypairs"].items()},
                                "u": [k.hex() for k in model["unused"]], "a": {k.hex(): v for k, v in model["ann"].items()}})):
                            wallet = loaded      # continue with the reloaded wallet: uniqueness must hold across it
                            a.inc("continued_with_reloaded_wallet")
                # model comparison after every operation
                if list(wallet.unused_public_keys) != model["unused"] and set(wallet.unused_public_keys) != set(model["unused"]):
                    a.v("unused-set-diverged", "unused keys differ from the model after %s" % op, w)
                if dict(wallet.public_key_annotations) != model["ann"]:
                    a.v("annotations-diverged", "annotations differ from the model after %s" % op, w)
            except InvariantBroken as e:
                a.v("wallet-invariant-broken", "class invariant (unused within key pairs, no repeats, annotated and unused "
                    "disjoint) broken after %s: %s" % (op, str(e)[:100]), w)
                break
        a.digests.add(digest(json.dumps(ops)))
        if len(a.samples) < 1:
            a.samples.append({"lane": "seq", "keys": nk, "ops": [o[0] for o in ops]})
    a.c.pop("_last_saved", None)
    a.inc("invariant_evaluations", inv_count[0])
    if inv_count[0] == 0:
        a.inconclusive.append("icontract invariant on Wallet never evaluated")


def nodekit_quiet(fn, *args):
    from skv import nodekit
    return nodekit.quiet(fn, *args)


# ------------------------------------------------------------------------------ balance lane
def lane_balance(a, spec):
    env.boot()
    import skepticoin.wallet as wm
    rng = random.Random("c15/bal/%d/%d" % (spec["seed"], spec["shard"]))
    for t in range(6 if spec["tier"] == "quick" else 120):
        world = gen.World(rng, nkeys=8)
        world.odd_reward_prob = rng.choice([0.0, 0.3])
        everything = wm.Wallet({pk: sk for sk, pk in world.keys}, [], {pk: "n" for _s, pk in world.keys})
        for step in range(rng.randint(2, 6)):
            for _b in range(rng.randint(1, 6)):
                # (a long-running process asks for its balance after every block -- the miner does -- also across reorganisations)
                world.grow(1, rng, tx_prob=0.7)
                h1 = world.cs.current_chain_hash
                want1 = sum(v for (v, k) in world.ledger(h1).values() if k in everything.keypairs)
                a.n += 1
                a.inc("balances_compared_after_every_block")
                try:
                    got1 = everything.get_balance(world.cs)
                except Exception as e:
                    got1 = repr(e)
                if got1 != want1:
                    a.v("balance-differs-from-unspent-outputs", "asked after every block of a growing (and reorganising) chain: get_balance=%s, "
                        "unspent outputs paying wallet keys=%d at height %d" % (got1, want1, world.chain.blocks[h1].height),
                        {"lane": "balance", "blocks": gen.blocks_hex(world, world.chain.order[1:]),
                         "keys": [pk.hex() for pk in everything.keypairs], "asked_after_every_block": True})
                    break
            # ... and a competing branch (rewards only) that forks off one to three blocks below the head and overtakes it
            try:
                hd = world.cs.current_chain_hash
                fork_at = hd
                for _d in range(rng.randint(1, 3)):
                    if world.chain.blocks[fork_at].prev in world.chain.blocks:
                        fork_at = world.chain.blocks[fork_at].prev
                cur, hh = fork_at, world.chain.blocks[hd].height
                while world.chain.blocks[cur].height <= hh:
                    par = world.chain.blocks[cur]
                    rb_, real_ = world.assemble(cur, [], par.ts + 7, rng.choice(world.keys)[1], route="ref")
                    if world.accept(rb_, real_, now=rb_.ts) is None:
                        break
                    cur = rb_.id()
                    h1 = world.cs.current_chain_hash
                    want1 = sum(v for (v, k) in world.ledger(h1).values() if k in everything.keypairs)
                    a.n += 1
                    a.inc("balances_compared_after_every_block")
                    got1 = everything.get_balance(world.cs)
                    if got1 != want1:
                        a.v("balance-differs-from-unspent-outputs", "asked after every block while a competing branch overtakes the head: "
                            "get_balance=%s, unspent outputs paying wallet keys=%d at height %d" % (got1, want1, world.chain.blocks[h1].height),
                            {"lane": "balance", "blocks": gen.blocks_hex(world, world.chain.order[1:]),
                             "keys": [pk.hex() for pk in everything.keypairs], "asked_after_every_block": True})
                        break
                if world.cs.current_chain_hash == cur and cur != hd:
                    a.inc("reorganisations_between_balance_queries")
            except Exception:
                pass
            head = world.cs.current_chain_hash
            led = world.ledger(head)
            for _ in range(4):
                ks = rng.sample(world.keys, rng.randint(1, 8))
                cut = rng.randint(0, len(ks))
                wallet = wm.Wallet({pk: sk for sk, pk in ks}, [pk for _s, pk in ks[:cut]], {pk: "n" for _s, pk in ks[cut:]})
                for _h in range(rng.randint(0, 2)):
                    if wallet.unused_public_keys or (wallet.keypairs and rng.random() < 0.5):
                        # (with no unused key left the wallet hands out a key that is in use, as for the miner)
                        pk = nodekit_quiet(wallet.get_annotated_public_key, rng.choice(["x", "x", ""]))
                        if rng.random() < 0.4 and pk in wallet.public_key_annotations:
                            wallet.restore_annotated_public_key(pk, rng.choice(["x", "reserved for potentially mined block"]))
                            a.inc("balance_after_restore")
                a.n += 1
                a.inc("balances_compared")
                want = sum(v for (v, k) in led.values() if k in wallet.keypairs)
                if want > 2 and rng.random() < 0.4:
                    # the wallet object has built a spend that is still pending (not in the chain): what the chain pays its keys,
                    # and therefore its balance at this head, is unchanged
                    try:
                        from skepticoin.signing import SECP256k1PublicKey
                        wm.create_spend_transaction(wallet, world.cs, rng.randrange(1, want), 0, SECP256k1PublicKey(world.keys[0][1]),
                                                    SECP256k1PublicKey(next(iter(wallet.keypairs))))
                        a.inc("balances_asked_with_a_pending_spend")
                    except Exception:
                        pass
                got = wallet.get_balance(world.cs)
                a.digests.add(digest(head, sorted(wallet.keypairs)))
                if want:
                    a.inc("nonzero_balances")
                if got != want:
                    a.v("balance-differs-from-unspent-outputs", "get_balance=%d, unspent outputs paying wallet keys=%d" % (got, want),
                        {"lane": "balance", "blocks": gen.blocks_hex(world, world.chain.order[1:]),
                         "keys": [pk.hex() for pk in wallet.keypairs]})


# ------------------------------------------------------------------------------ crash lanes
def load_json(path):
    try:
        with open(path) as f:
            return json.load(f)
    except FileNotFoundError:
        return "MISSING"
    except Exception as e:
        return "UNPARSABLE: %r" % (e,)


def prepare(work, nkeys):
    os.makedirs(work, exist_ok=True)
    rc, out, err = crash.run_plain(["prepare-wallet", str(nkeys)], work)
    assert rc == 0, err[-500:]
    old = load_json(os.path.join(work, "wallet.json"))
    shutil.copy(os.path.join(work, "wallet.json"), os.path.join(work, "wallet.old"))
    return old


def reset(work):
    shutil.copy(os.path.join(work, "wallet.old"), os.path.join(work, "wallet.json"))
    for f in os.listdir(work):
        if f.startswith("wallet.json.") or f == "expected.json":
            os.remove(os.path.join(work, f))


def followup_save(a, work, w, what, old=None, new=None):
    """after a crash the user restarts and saves again (a shorter wallet): whatever the crashed save left behind must not
    damage the result of a COMPLETED save"""
    state = load_json(os.path.join(work, "wallet.json"))
    if not isinstance(state, dict):
        return
    # the restart itself: a script of the package opens the wallet the documented way (and does nothing else).  Whatever the
    # crashed save left lying around, the wallet file is afterwards still a complete wallet: the previous or the new one
    rc, out, err = crash.run_plain(["restart-open"], work)
    a.n += 1
    a.inc("restarts_through_the_scripts_wallet_open")
    after = load_json(os.path.join(work, "wallet.json"))
    if rc != 0 or not isinstance(after, dict):
        a.v("wallet-unusable-after-restart", "%s, then a restart that only opens the wallet: %s" % (
            what, "wallet.json is %s" % (after if isinstance(after, str) else "there, but opening it failed: " + err.decode("latin1")[-160:])), w)
        return
    if after != state and after not in [x for x in (old, new) if x is not None]:
        a.v("wallet-file-not-atomic:changed-by-restart", "%s, then a restart that only opens the wallet: wallet.json is neither "
            "the complete previous nor the complete new wallet" % what, w)
        return
    rc, out, err = crash.run_plain(["save-wallet-followup"], work)
    a.n += 1
    a.inc("followup_saves_after_crash")
    if rc != 0:
        a.v("save-after-crash-fails", "%s, then a restart and a normal save: the save raised: %s" % (what, err[-200:]), w)
        return
    got = load_json(os.path.join(work, "wallet.json"))
    want = load_json(os.path.join(work, "expected.json"))
    if got != want:
        kind = "unparsable" if isinstance(got, str) else "differs"
        a.v("completed-save-after-crash-corrupt:" + kind, "%s, then a restart and a COMPLETED save: wallet.json is %s (%s)" % (
            what, kind, str(got)[:80] if isinstance(got, str) else "not the wallet that was saved"), w)


def judge(a, state, old, new, w, what):
    a.n += 1
    if state == old:
        a.inc("crash_left_old_wallet")
    elif state == new:
        a.inc("crash_left_new_wallet")
    else:
        kind = "missing" if state == "MISSING" else ("unparsable" if isinstance(state, str) else "neither-old-nor-new")
        a.v("wallet-file-not-atomic:" + kind, "%s: wallet.json is %s (not the complete previous nor the complete new wallet)" % (
            what, kind), w)


def lane_crash_syscall(a, spec):
    work = os.path.join(os.getcwd(), "w")
    old = prepare(work, spec["keys"])
    tr = os.path.join(work, "trace.txt")
    rc, out, trace = crash.run_traced(["save-wallet"], work, tr)
    if rc != 0:
        a.inconclusive.append("dry run of the save driver failed rc=%s" % rc)
        return
    new = load_json(os.path.join(work, "wallet.json"))
    if new == old or not isinstance(new, dict):
        a.inconclusive.append("dry run did not produce a different, valid new wallet")
        return
    pts = crash.region_points(trace)
    a.inc("syscalls_in_save_region", len(pts) if spec["part"] == 0 else 0)
    names = {}
    for n, (name, ordinal, text) in enumerate(pts):
        names[name] = names.get(name, 0) + 1
        if n % spec["parts"] != spec["part"]:
            continue
        reset(work)
        rc, out, t2 = crash.run_traced(["save-wallet"], work, tr, inject=(name, ordinal))
        a.inc("crash_points_run")
        if not crash.kill_landed(t2, name, ordinal):
            a.inc("kill_did_not_land")
            continue
        a.inc("kills_landed")
        a.inc("kills_by_syscall:" + name)
        a.digests.add(digest("sys", spec["keys"], n))
        state = load_json(os.path.join(work, "wallet.json"))
        ww = {"lane": "crash-syscall", "keys": spec["keys"], "point": n, "syscall": text[:100]}
        judge(a, state, old, new, ww, "SIGKILL on entry to syscall #%d of the save (%s)" % (n, text[:60]))
        followup_save(a, work, ww, "SIGKILL on entry to syscall #%d of a save (%s)" % (n, text[:40]), old, new)
    if spec["part"] == 0:
        a.samples.append({"lane": "crash-syscall", "keys": spec["keys"], "region": [p[2][:70] for p in pts[:8]],
                          "syscalls_by_name": names})
    shutil.rmtree(work, ignore_errors=True)


def lane_crash_line(a, spec):
    work = os.path.join(os.getcwd(), "w")
    old = prepare(work, spec["keys"])
    rc, out, err = crash.run_plain(["save-wallet", "--count-lines", "1"], work)
    m = re.search(rb"LINES (\d+)", out)
    if rc != 0 or not m:
        a.inconclusive.append("line-count run failed: %s" % err[-300:])
        return
    nlines = int(m.group(1))
    new = load_json(os.path.join(work, "wallet.json"))
    a.inc("statement_boundaries_in_save", nlines)
    for k in range(1, nlines + 1):
        reset(work)
        rc, out, err = crash.run_plain(["save-wallet", "--exit-at-line", str(k)], work)
        a.inc("crash_points_run")
        if rc != 9:
            a.inc("exit_did_not_land")
            continue
        a.inc("line_exits_landed")
        a.digests.add(digest("line", spec["keys"], k))
        state = load_json(os.path.join(work, "wallet.json"))
        ww = {"lane": "crash-line", "keys": spec["keys"], "line_event": k}
        judge(a, state, old, new, ww, "process exit at statement boundary #%d of the save" % k)
        followup_save(a, work, ww, "process exit at statement boundary #%d of a save" % k, old, new)
    shutil.rmtree(work, ignore_errors=True)


ADDR = re.compile(rb"SKE([0-9a-f]{128})PTI")


def lane_crash_receive(a, spec):
    work = os.path.join(os.getcwd(), "w")
    old = prepare(work, spec["keys"])
    tr = os.path.join(work, "trace.txt")
    rc, out, trace = crash.run_traced(["receive", "first"], work, tr, unbuffered=True)
    m = ADDR.search(out)
    if rc != 0 or not m:
        a.inconclusive.append("dry run of the receive script failed rc=%s" % rc)
        return
    new = load_json(os.path.join(work, "wallet.json"))
    pts = crash.region_points(trace)
    a.inc("syscalls_in_receive_region", len(pts))
    for n, (name, ordinal, text) in enumerate(pts):
        reset(work)
        rc, out, t2 = crash.run_traced(["receive", "first"], work, tr, inject=(name, ordinal), unbuffered=True)
        a.inc("crash_points_run")
        if not crash.kill_landed(t2, name, ordinal):
            a.inc("kill_did_not_land")
            continue
        a.inc("kills_landed")
        a.digests.add(digest("recv", spec["keys"], n))
        w = {"lane": "crash-receive", "keys": spec["keys"], "point": n, "syscall": text[:100]}
        state = load_json(os.path.join(work, "wallet.json"))
        judge(a, state, old, new, w, "SIGKILL on entry to syscall #%d of the receive script (%s)" % (n, text[:60]))
        printed = ADDR.search(out)
        if not printed:
            followup_save(a, work, w, "SIGKILL on entry to syscall #%d of the receive script (%s)" % (n, text[:40]), old, new)
        if printed:
            a.inc("address_printed_before_kill")
            # a restarted process must never hand that address out again
            rc2, out2, err2 = crash.run_plain(["receive", "second"], work, unbuffered=True)
            m2 = ADDR.search(out2)
            a.n += 1
            if m2 and m2.group(1) == printed.group(1):
                a.v("printed-address-handed-out-again-after-crash", "address printed before the crash at syscall #%d is handed "
                    "out again by a restarted process" % n, w)
    a.samples.append({"lane": "crash-receive", "region": [p[2][:70] for p in pts[:10]]})
    shutil.rmtree(work, ignore_errors=True)


# ------------------------------------------------------------------------------ miner lane
MINER_FAULTS = ["none", "none", "flush-raises", "broadcast-raises", "save-block-raises", "ctrl-c-during-broadcast",
                "ctrl-c-during-flush", "ctrl-c-before-any-block", "set-state-raises"]


def lane_miner(a, spec):
    """the key hand-outs of the real miner front end (MinerWatcher.__call__, run in-process: worker processes, queues and
    the networking thread are in-memory stand-ins) across a restart: the miner runs, finds 0-2 blocks, and ends -- by
    Ctrl-C while idle, by Ctrl-C in the middle of handling a found block, or by an error from the store / the network
    layer at that point.  Then wallet.json is loaded as by a restarted process and every remaining key is handed out: a key
    that was paid by a block the node adopted must not be unused in the file nor handed out again."""
    import collections
    import shutil
    import sqlite3
    env.boot()
    import skepticoin.mining as mining
    import skepticoin.wallet as wm
    from skepticoin.coinstate import CoinState
    from skepticoin.consensus import construct_summary_hash
    from skepticoin.scripts.utils import open_or_init_wallet
    from skv import nodekit
    mining.MAX_KNOWN_HASH_HEIGHT = -1
    rng = random.Random("c15/miner/%d/%d" % (spec["seed"], spec["shard"]))
    top = os.getcwd()

    class MemQueue:
        def __init__(self):
            self.items = collections.deque()

        def put(self, item):
            self.items.append(item)

        def get(self):
            return self.items.popleft()

    class NoProcess:
        def __init__(self, *args, **kwargs):
            pass

        def start(self):
            pass

        def join(self):
            pass

    class Net:          # the networking thread's side, as far as the miner touches it
        def __init__(self, coinstate, fault, at_block):
            self.fault, self.at_block = fault, at_block
            self.coinstate = coinstate
            self.broadcast, self.saved = [], []
            self.local_peer = self
            self.chain_manager = self.network_manager = self.disk_interface = self

        def trip(self, point):
            if len(self.broadcast) + (point != "broadcast") < self.at_block and point != "broadcast":
                return
            if point == "broadcast" and len(self.broadcast) < self.at_block:
                return
            f = self.fault
            if f == "flush-raises" and point == "flush":
                raise sqlite3.OperationalError("database is locked")
            if f == "save-block-raises" and point == "save":
                raise sqlite3.OperationalError("disk I/O error")
            if f == "broadcast-raises" and point == "broadcast":
                raise RuntimeError("dictionary changed size during iteration")
            if f == "set-state-raises" and point == "set":
                raise RuntimeError("lock problem")
            if f == "ctrl-c-during-broadcast" and point == "broadcast":
                raise KeyboardInterrupt()
            if f == "ctrl-c-during-flush" and point == "flush":
                raise KeyboardInterrupt()

        def get_state(self):
            return self.coinstate, []

        def set_coinstate(self, coinstate, validated=True):
            self.trip("set")
            self.coinstate = coinstate

        def get_active_peers(self):
            return []

        def broadcast_block(self, block):
            self.broadcast.append(block)
            self.trip("broadcast")

        def save_block(self, block):
            self.trip("save")
            self.saved.append(block)

        def flush_blocks(self):
            self.trip("flush")

        def show_stats(self):
            pass

        def stop(self):
            pass

        def join(self):
            pass

    class Driver:       # plays worker process 0 on the watcher's receive queue
        def __init__(self, watcher, net, stop_after):
            self.watcher, self.net, self.stop_after = watcher, net, stop_after
            self.nonce = rng.randrange(1 << 20)
            self.waiting = False
            self.tries = 0

        def get(self):
            self.tries += 1
            if self.tries > 400000:
                raise KeyboardInterrupt()
            if not self.waiting:
                if len(self.net.broadcast) >= self.stop_after:
                    raise KeyboardInterrupt()           # the operator stops the miner while it is idle
                self.waiting = True
                self.nonce += 1
                return (0, "request_scrypt_input", self.nonce)
            _t, (summary, height) = self.watcher.send_queues[0].get()
            self.waiting = False
            return (0, "scrypt_output", construct_summary_hash(summary, height))

    nruns = 6 if spec["tier"] == "quick" else 60
    for j in range(nruns):
        work = os.path.join(top, "miner-%d" % j)
        os.makedirs(work, exist_ok=True)
        os.chdir(work)
        try:
            fault = MINER_FAULTS[(j + spec["shard"] * 3) % len(MINER_FAULTS)]
            nkeys = rng.choice([3, 4, 6])
            stop_after = 0 if fault == "ctrl-c-before-any-block" else rng.choice([1, 1, 2])
            at_block = rng.randint(1, max(1, stop_after))
            wallet = wm.Wallet.empty()
            nodekit.quiet(wallet.generate_keys, nkeys)
            for _ in range(rng.choice([0, 1])):
                wallet.get_annotated_public_key("receive")
            wm.save_wallet(wallet)
            all_keys = set(wallet.keypairs)
            net = Net(CoinState.zero(), fault, at_block)
            mining.Queue, mining.Process = MemQueue, NoProcess
            mining.check_chain_dir = lambda: None
            mining.read_chain_from_disk = lambda: net.coinstate
            mining.start_networking_peer_in_background = lambda args, cs: net
            mining.wait_for_fresh_chain = lambda thread, freshness: None
            mining.open_or_init_wallet = lambda: wm.Wallet.load(open("wallet.json"))
            argv = sys.argv
            sys.argv = ["skepticoin-mine", "--quiet"]
            w = {"lane": "miner", "fault": fault, "keys": nkeys, "stop_after_blocks": stop_after, "fault_at_block": at_block}
            try:
                watcher = mining.MinerWatcher()
                watcher.recv_queue = Driver(watcher, net, stop_after)
                try:
                    nodekit.quiet(watcher)
                except KeyboardInterrupt:
                    pass
                except SystemExit:
                    pass
            finally:
                sys.argv = argv
            a.n += 1
            a.inc("miner_runs")
            a.inc("miner_runs_fault_" + fault)
            a.digests.add(digest("miner", fault, nkeys, stop_after, at_block))
            # keys paid by blocks that are part of the chain state the node adopted
            cs = net.coinstate
            paid = set()
            for blk in cs.block_by_hash.values():
                if blk.height > 0:
                    for o in blk.transactions[0].outputs:
                        paid.add(o.public_key.public_key)
            paid &= all_keys
            a.inc("miner_blocks_adopted", len(cs.block_by_hash) - 1)
            if paid:
                a.inc("miner_runs_with_paid_key")
            # the restarted process
            try:
                loaded = wm.Wallet.load(open("wallet.json"))
            except Exception as e:
                a.v("wallet-file-unreadable-after-miner-run", "wallet.json cannot be loaded after the miner ended (%s): %r" % (fault, e), w)
                continue
            relisted = paid & set(loaded.unused_public_keys)
            if relisted:
                a.v("paid-mining-key-unused-again-after-restart", "after the miner ended (%s) wallet.json lists as unused a key that "
                    "received the reward of a block the node adopted" % fault, w)
            handed = []
            while loaded.unused_public_keys:
                handed.append(loaded.get_annotated_public_key("after restart"))
            a.inc("keys_handed_out_after_restart", len(handed))
            if paid & set(handed) and not relisted:
                a.v("paid-mining-key-handed-out-again-after-restart", "a key paid by an adopted block is handed out again (%s)" % fault, w)
            if len(set(handed)) != len(handed):
                a.v("key-handed-out-twice", "after the miner run a key is handed out twice by the reloaded wallet", w)
        finally:
            os.chdir(top)
            shutil.rmtree(work, ignore_errors=True)
    a.samples.append({"lane": "miner", "faults": sorted(set(MINER_FAULTS))})


def run_shard(spec):
    a = Acc()
    if "replay" in spec:
        spec = dict(spec["replay"], tier="quick", seed=0, shard=0, part=0, parts=1)
    lane = spec["lane"]
    if lane == "seq":
        lane_seq(a, spec)
    elif lane == "balance":
        lane_balance(a, spec)
    elif lane == "crash-syscall":
        lane_crash_syscall(a, spec)
    elif lane == "crash-line":
        lane_crash_line(a, spec)
    elif lane == "crash-receive":
        lane_crash_receive(a, spec)
    elif lane == "miner":
        lane_miner(a, spec)
    return a.result()


def finalize(m, tier):
    c = m["counters"]
    landed = c.get("kills_landed", 0) + c.get("line_exits_landed", 0)
    return {
        "rule": "sequence lane: random operation sequences (hand-out, restore, generate, save, load) on wallets of 3-12 keys "
                "against a model, continuing with the reloaded wallet; balance lane: wallets over generated chains vs the "
                "reference ledger; crash lanes: EVERY syscall of the save region (strace SIGKILL on entry) and EVERY statement "
                "boundary of save_wallet/Wallet.dump, for several wallet sizes, and every syscall of the receive script; "
                "distinct = distinct op sequences + distinct crash points; non-trivial = crash points whose kill landed "
                "inside the region (counted)",
        "floors": [("handouts", c.get("handouts", 0), 500), ("loads", c.get("loads", 0), 100),
                   ("continued_with_reloaded_wallet", c.get("continued_with_reloaded_wallet", 0), 50),
                   ("balances_compared", c.get("balances_compared", 0), 100),
                   ("restores_with_other_annotation", c.get("restores_with_other_annotation", 0), 30),
                   ("balance_after_restore", c.get("balance_after_restore", 0), 20),
                   ("miner_runs", c.get("miner_runs", 0), 15), ("miner_runs_with_paid_key", c.get("miner_runs_with_paid_key", 0), 8), ("crash points landed", landed, 30),
                   ("crash_left_old_wallet", c.get("crash_left_old_wallet", 0), 10),
                   ("crash_left_new_wallet", c.get("crash_left_new_wallet", 0), 3),
                   ("address_printed_before_kill", c.get("address_printed_before_kill", 0), 1),
                   ("followup_saves_after_crash", c.get("followup_saves_after_crash", 0), 30),
                   ("restarts_through_the_scripts_wallet_open", c.get("restarts_through_the_scripts_wallet_open", 0), 30)],
        "extra": {"crash_points_exhaustive_per_save": True},
    }
