"""C08 - persistence fidelity.

Offline checker over the write log (blocks passed to add_block_to_buffer, flush points) versus what a
fresh BlockStore on the same file yields after every flush: exactly-once, byte equality, ids, parent
before child; plus the chain state rebuilt by the real scripts.utils.read_chain_from_disk versus the
in-memory state built from the same blocks."""
import io
import os
import random
import sys

from skv import env, ref, gen, bridge
from skv.runner import digest

PROPERTY = "C08"
LEVEL = "exploration"
NSHARD = 16
SHARD_TIMEOUT = {"quick": 900, "thorough": 3600}
KNOWN_KEY = "shared-transaction-id-across-stored-blocks"


def shards(tier, seed):
    return [{"shard": i, "tier": tier, "seed": seed} for i in range(NSHARD)]


def quiet(fn, *a, **k):
    out = sys.stdout
    sys.stdout = io.StringIO()
    try:
        return fn(*a, **k)
    finally:
        sys.stdout = out


def state_view(cs):
    """order-independent view: stored ids, per-block unspent sets, tips, head height"""
    utos = {}
    for bid, m in cs.unspent_transaction_outs_by_hash.items():
        utos[bid] = frozenset((r.hash, r.index, o.value, o.public_key.public_key) for r, o in m.items())
    return {"blocks": set(cs.block_by_hash.keys()), "utos": utos, "tips": set(cs.heads.keys()),
            "head_height": cs.head().height if cs.current_chain_hash else None}


class Checker:
    def __init__(self):
        self.viol = []
        self.c = {"trees": 0, "flushes": 0, "reloads": 0, "blocks_written": 0, "blocks_read_back": 0,
                  "byte_comparisons": 0, "state_rebuilds": 0, "blocks_with_transactions": 0, "multi_input_transactions": 0,
                  "trees_with_forks": 0, "same_transaction_in_two_blocks": 0, "max_batch": 0, "reorganisations": 0,
                  "cross_fork_references": 0}
        self.digests = set()
        self.samples = []

    def v(self, key, msg, w):
        if sum(1 for x in self.viol if x["key"] == key) < 3:
            self.viol.append({"key": key, "msg": msg, "witness": w})

    def check_reload(self, path, written, world, w, key_prefix=""):
        """written: list of ids in write order (genesis excluded) that have been flushed"""
        from skepticoin.blockstore import BlockStore, DefaultBlockStore
        import skepticoin.scripts.utils as su
        from skepticoin.coinstate import CoinState
        c = self.c
        store = quiet(BlockStore, path)
        c["reloads"] += 1
        try:
            read = quiet(lambda: list(store.read_blocks_from_disk()))
        except Exception as e:
            self.v("reading-the-store-fails", "read_blocks_from_disk raised %r after %d blocks" % (e, len(written)), w)
            store.close()
            return
        c["blocks_read_back"] += len(read)
        expect = [world.gid] + list(written)
        exp_bytes = {b: world.chain.blocks[b].enc() for b in expect}
        # which transaction ids occur in more than one written block (the known mechanism)
        owners = {}
        for b in expect:
            for t in world.chain.blocks[b].txs:
                owners.setdefault(t.id(), []).append(b)
        shared_blocks = {b for bs in owners.values() if len(bs) > 1 for b in bs}
        seen = {}
        pos = {}
        damaged = set()
        other_problem = []
        for n, blk in enumerate(read):
            try:
                rid = blk.hash()
                raw = blk.serialize()
            except Exception as e:
                other_problem.append(("unreadable-block-object", "block #%d from the store cannot be serialized: %r" % (n, e)))
                continue
            seen[rid] = seen.get(rid, 0) + 1
            pos.setdefault(rid, n)
            c["byte_comparisons"] += 1
            if rid not in exp_bytes:
                other_problem.append(("unknown-block-read-back", "store yields a block that was never written"))
            elif raw != exp_bytes[rid]:
                damaged.add(rid)
            elif bridge.real_to_rblock(blk).id() != rid:
                other_problem.append(("id-differs-from-content", "store yields a block whose id is not the hash of its header"))
        for b in expect:
            if b not in seen:
                damaged.add(b)
            elif seen[b] > 1:
                other_problem.append(("block-read-back-twice", "block h=%d yielded %d times" % (world.chain.blocks[b].height, seen[b])))
        for rid, n in pos.items():
            if rid in exp_bytes and rid != world.gid:
                p = world.chain.blocks[rid].prev
                if p in pos and pos[p] > n:
                    other_problem.append(("child-before-parent", "block h=%d read before its parent" % world.chain.blocks[rid].height))
        unexplained = {d for d in damaged if d not in shared_blocks}
        if damaged and not unexplained:
            self.v(KNOWN_KEY, "%d of %d written blocks come back missing or altered; each of them contains a transaction "
                   "that is also contained in another stored block (e.g. h=%d)" % (
                       len(damaged), len(expect), world.chain.blocks[sorted(damaged)[0]].height), w)
        elif unexplained:
            d = sorted(unexplained)[0]
            kind = key_prefix + ("written-block-missing" if d not in seen else "written-block-bytes-differ")
            self.v(kind, "block h=%d (%d transactions) %s after reload; %d damaged in total" % (
                world.chain.blocks[d].height, len(world.chain.blocks[d].txs), "is missing" if d not in seen else "differs",
                len(damaged)), w)
        for key, msg in other_problem[:3]:
            self.v(key, msg, w)
        # rebuilt state
        old = DefaultBlockStore.instance
        DefaultBlockStore.instance = store
        try:
            rebuilt = quiet(su.read_chain_from_disk)
        except Exception as e:
            rebuilt = None
            self.v("rebuilding-state-fails", "read_chain_from_disk raised %r" % (e,), w)
        finally:
            DefaultBlockStore.instance = old
        store.close()
        if rebuilt is not None:
            c["state_rebuilds"] += 1
            mem = CoinState.empty()
            for b in expect:
                mem = mem.add_block_no_validation(world.real[b])
            a, b2 = state_view(rebuilt), state_view(mem)
            if a != b2:
                # descendants of damaged blocks are collateral of the same mechanism
                def tainted(x):
                    while x in world.chain.blocks and x != ref.ZERO32:
                        if x in damaged:
                            return True
                        x = world.chain.blocks[x].prev
                    return False
                diff_blocks = (a["blocks"] ^ b2["blocks"]) | {k for k in a["utos"].keys() & b2["utos"].keys()
                                                              if a["utos"][k] != b2["utos"][k]}
                if damaged and not unexplained and all(tainted(x) for x in diff_blocks):
                    self.v(KNOWN_KEY, "rebuilt chain state differs from the in-memory one only at blocks damaged by the "
                           "shared-transaction mechanism and their descendants (head height %s vs %s)" % (
                               a["head_height"], b2["head_height"]), w)
                else:
                    self.v("rebuilt-state-differs", "rebuilt chain state differs: %d block ids differ, head height %s vs %s" % (
                        len(diff_blocks), a["head_height"], b2["head_height"]), w)

    def run_tree(self, rng, n, idx, tier):
        from skepticoin.blockstore import BlockStore
        world = gen.World(rng)
        world.odd_reward_prob = rng.choice([0.0, 0.3])
        world.min_ts = rng.choice([0, 0, 2_000_000_000, 4_200_000_000])     # (some histories are stamped ahead of the wall clock)
        if world.min_ts:
            self.c["trees_stamped_ahead_of_the_wall_clock"] = self.c.get("trees_stamped_ahead_of_the_wall_clock", 0) + 1
        world.grow(n, rng, tx_prob=0.8, max_txs=rng.choice([1, 2, 4]))
        order = world.chain.order[1:]
        c = self.c
        c["trees"] += 1
        if len(world.chain.tips()) > 1:
            c["trees_with_forks"] += 1
        c["blocks_with_transactions"] += sum(1 for b in order if len(world.chain.blocks[b].txs) > 1)
        c["multi_input_transactions"] += sum(1 for b in order for t in world.chain.blocks[b].txs[1:] if len(t.inputs) > 1)
        c["same_transaction_in_two_blocks"] += world.counters.get("pending_tx_reused", 0)
        self.digests.add(digest(b"".join(order)))
        path = os.path.join(os.getcwd(), "store-%d.db" % idx)
        store = quiet(BlockStore, path)
        # the hand-over sequence: every block once, in arrival order; in some trees blocks that were handed over before
        # (flushed already, or still buffered -- possibly with children handed over since) are handed over AGAIN
        seq = []
        rehand = rng.random() < 0.4
        for k in range(len(order)):
            if rehand and k and rng.random() < 0.25:
                seq.append(rng.randrange(k))
            seq.append(k)
        if rehand and rng.random() < 0.5:
            seq.append(rng.randrange(len(order)))
        w = {"blocks": gen.blocks_hex(world, order), "handed": seq, "flush_after": []}
        written = []
        pending = []
        batch_mode = rng.choice(["each", "random", "random", "all"])
        for k, oi in enumerate(seq):
            bid = order[oi]
            store.add_block_to_buffer(world.real[bid])
            if bid in written or bid in pending:
                c["blocks_handed_over_again"] = c.get("blocks_handed_over_again", 0) + 1
            else:
                pending.append(bid)
            c["blocks_written"] += 1
            if pending and rng.random() < 0.08:
                # the node drops what it has buffered (as it does after refusing a relayed block) and the same blocks arrive
                # again (downloaded anew): they are handed over a second time and must end up in the store like any others
                store.write_buffer.clear()
                for b2 in pending:
                    store.add_block_to_buffer(world.real[b2])
                w.setdefault("buffer_dropped_and_refilled_after", []).append(k)
                c["buffer_dropped_and_refilled"] = c.get("buffer_dropped_and_refilled", 0) + 1
            last = k == len(seq) - 1
            do_flush = last or batch_mode == "each" or (batch_mode == "random" and rng.random() < 0.4)
            if do_flush:
                c["flushes"] += 1
                c["max_batch"] = max(c["max_batch"], len(pending))
                w["flush_after"].append(k)
                try:
                    store.flush_blocks_to_disk()
                except Exception as e:
                    owners = {}
                    for b in written + pending:
                        for t in world.chain.blocks[b].txs:
                            owners.setdefault(t.id(), []).append(b)
                    shared = any(len(v) > 1 for v in owners.values())
                    self.v(KNOWN_KEY if shared else "flush-fails", "flush_blocks_to_disk raised %r with %d blocks buffered" % (
                        e, len(pending)), dict(w))
                    break
                written += pending
                pending = []
                self.digests.add(digest("flush", b"".join(written)))
                if tier != "quick" or rng.random() < 0.5 or last:
                    self.check_reload(path, written, world, dict(w, flushed=len(written)))
        store.close()
        os.remove(path)
        if len(self.samples) < 1:
            self.samples.append({"blocks": len(order), "batching": batch_mode, "flush_after": w["flush_after"],
                                 "tips": len(world.chain.tips()),
                                 "tx_per_block": [len(world.chain.blocks[b].txs) - 1 for b in order]})


def large_lane(chk, rng, ntrees, huge=False):
    """stores of 1000-2600 blocks (cheap un-mined reward-only blocks; the store does not validate): two or three long
    branches side by side, so that many heights hold several blocks -- written in a few flushes, reloaded, compared"""
    import skepticoin.datatypes as dt
    import skepticoin.signing as sg
    from skepticoin.blockstore import BlockStore
    from skepticoin.coinstate import CoinState
    for idx in range(ntrees):
        nbranch = rng.choice([2, 2, 3])
        length = rng.choice([505, 700, 1000, 1300])
        if huge:        # more than 10,000 blocks handed to the store between two flushes (a bulk download with a rival branch)
            nbranch, length = 2, rng.choice([5040, 5300])
        genesis_id = ref.GENESIS_ID
        blocks = []       # (real block, parent id, height) in write order
        tips = [genesis_id] * nbranch
        n = 0
        for h in range(1, length + 1):
            for b in range(nbranch):
                if b > 0 and h > length - rng.choice([0, 3, 40]):
                    continue
                n += 1
                cb = dt.Transaction([dt.Input(dt.OutputReference(b"\x00" * 32, 0), sg.CoinbaseData(h, b"%d.%d" % (b, n)))],
                                    [dt.Output(10, sg.SECP256k1PublicKey(bytes([b + 1]) * 64))])
                blk = dt.Block(dt.BlockHeader(dt.BlockSummary(h, tips[b], cb.hash(), 1615757105 + n, b"\xff" * 32, n),
                                              dt.PowEvidence(b"\x00" * 32, b"\x00" * 32, b"\x00" * 32)), [cb])
                tips[b] = blk.hash()
                blocks.append(blk)
        path = os.path.join(os.getcwd(), "large-%d.db" % idx)
        store = quiet(BlockStore, path)
        k = 0
        while k < len(blocks):
            step = rng.choice([len(blocks), 400, 999, 1000, 1001, 1500]) if not huge else len(blocks)
            for blk in blocks[k:k + step]:
                store.add_block_to_buffer(blk)
            chk.c["max_batch"] = max(chk.c["max_batch"], min(step, len(blocks) - k))
            try:
                store.flush_blocks_to_disk()
            except Exception as e:
                chk.v("large-store:flush-fails", "flush of %d buffered blocks raised %r" % (min(step, len(blocks) - k), e),
                      {"lane": "large", "branches": nbranch, "length": length, "huge": huge})
                break
            k += step
        if huge:
            chk.c["batches_above_10000_blocks"] = chk.c.get("batches_above_10000_blocks", 0) + 1
        store.close()
        chk.c["large_stores"] = chk.c.get("large_stores", 0) + 1
        chk.c["large_store_blocks"] = chk.c.get("large_store_blocks", 0) + len(blocks)
        st2 = quiet(BlockStore, path)
        read = quiet(lambda: list(st2.read_blocks_from_disk()))
        st2.close()
        os.remove(path)
        want = {b.hash(): b.serialize() for b in blocks}
        want[genesis_id] = None
        got = {}
        pos = {}
        w = {"lane": "large", "branches": nbranch, "length": length, "huge": huge}
        for i, b in enumerate(read):
            got[b.hash()] = got.get(b.hash(), 0) + 1
            pos[b.hash()] = i
        missing = [x for x in want if x not in got]
        if missing:
            hs = sorted({b.height for b in blocks if b.hash() in set(missing)})[:5]
            chk.v("large-store:written-block-missing", "%d of %d written blocks are missing after reload (heights %s...), store with %d "
                  "branches of length %d" % (len(missing), len(want), hs, nbranch, length), w)
        if any(v > 1 for v in got.values()):
            chk.v("large-store:block-read-back-twice", "", w)
        for b in read:
            if b.hash() in want and want[b.hash()] is not None and b.serialize() != want[b.hash()]:
                chk.v("large-store:written-block-bytes-differ", "height %d" % b.height, w)
                break
            p = b.header.summary.previous_block_hash
            if p in pos and pos[p] > pos[b.hash()]:
                chk.v("large-store:child-before-parent", "block at height %d read before its parent" % b.height, w)
                break
        # head of the same height after restart
        cs = CoinState.empty()
        skipped = 0
        for b in read:
            try:
                cs = cs.add_block_no_validation(b)
            except Exception:
                skipped += 1
        if skipped or (cs.current_chain_hash and cs.head().height != length):
            chk.v("large-store:rebuilt-state-differs", "restart: %d blocks could not be applied, head height %s (written chain: %d)" % (
                skipped, cs.head().height if cs.current_chain_hash else None, length), w)


def threads_lane(chk, rng, ntrees):
    """one thread hands blocks to the store while another flushes; a delay injected right after the real sqlite write
    (the point between 'written' and 'buffer cleared') widens the window in which an unlocked implementation loses blocks"""
    import threading
    import time
    from skepticoin.blockstore import BlockStore
    for idx in range(ntrees):
        world = gen.World(rng)
        world.reuse_pending = False
        world.grow(rng.choice([10, 16, 24]), rng, tx_prob=0.6)
        order = world.chain.order[1:]
        path = os.path.join(os.getcwd(), "tstore-%d.db" % idx)
        store = quiet(BlockStore, path)
        real_write = store.write_blocks_to_disk
        hits = [0]

        def slow_write(blocks, _rw=real_write):
            _rw(blocks)
            hits[0] += 1
            time.sleep(0.003)
        store.write_blocks_to_disk = slow_write
        done = threading.Event()
        errors = []

        def flusher():
            while not done.is_set():
                try:
                    store.flush_blocks_to_disk()
                except Exception as e:
                    errors.append(repr(e))
                    return
                time.sleep(0.0005)

        def adder():
            r = random.Random(idx)
            for bid in order:
                store.add_block_to_buffer(world.real[bid])
                time.sleep(r.choice([0, 0.0005, 0.002, 0.004]))
        tf, ta = threading.Thread(target=flusher), threading.Thread(target=adder)
        tf.start()
        ta.start()
        ta.join(60)
        done.set()
        tf.join(60)
        w = {"lane": "threads", "blocks": gen.blocks_hex(world, order)}
        chk.c["thread_lane_trees"] = chk.c.get("thread_lane_trees", 0) + 1
        chk.c["thread_lane_flushes_with_data"] = chk.c.get("thread_lane_flushes_with_data", 0) + hits[0]
        try:
            store.write_blocks_to_disk = real_write
            store.flush_blocks_to_disk()
        except Exception as e:
            errors.append(repr(e))
        if errors:
            chk.v("concurrent-add-and-flush:flush-fails", "flush raised %s while another thread was handing blocks to the store" % errors[0][:160], w)
        store.close()
        chk.c["trees"] += 1
        chk.check_reload(path, list(order), world, dict(w, flushed=len(order)), key_prefix="concurrent-add-and-flush:")
        os.remove(path)


def replay(chk, w):
    from skepticoin.blockstore import BlockStore
    rng = random.Random(0)
    world = gen.World(rng)
    order = []
    for hx in w["blocks"]:
        rb = ref.parse_block(bytes.fromhex(hx))
        order.append(world.accept(rb, bridge.rblock_to_real(rb), validate=False))
    path = os.path.join(os.getcwd(), "replay.db")
    store = quiet(BlockStore, path)
    written, pending = [], []
    seq = w.get("handed", list(range(len(order))))
    for k, oi in enumerate(seq):
        bid = order[oi]
        store.add_block_to_buffer(world.real[bid])
        if bid not in written and bid not in pending:
            pending.append(bid)
        if k in w.get("buffer_dropped_and_refilled_after", []):
            store.write_buffer.clear()
            for b2 in pending:
                store.add_block_to_buffer(world.real[b2])
        if k in w.get("flush_after", []) or k == len(seq) - 1:
            try:
                store.flush_blocks_to_disk()
            except Exception as e:
                chk.v("flush-fails", repr(e), w)
                break
            written += pending
            pending = []
            if "flushed" not in w or len(written) == w["flushed"]:
                chk.check_reload(path, written, world, w)
    store.close()



def _replay_route_story(spec):
    from skv.props import c09
    env.boot()
    mon = c09.route_histories(random.Random(1), 8, 14, c09.all_classes(), "replay-route", story_share=0.8)
    return {"evaluations": mon.c.get("deliveries", 0), "distinct": mon.c.get("download_route_stories", 0),
            "violations": [{"key": "node-route:" + v["key"], "msg": v["msg"], "witness": v["witness"]} for v in mon.viol[:6]],
            "counters": {"route_lane_stories": mon.c.get("download_route_stories", 0)}, "digests": []}

def run_shard(spec):
    if "replay" in spec and isinstance(spec["replay"], dict) and spec["replay"].get("kind") == "download-route-story":
        # (the story is re-run with this check's classes on the current tree; the recorded chain is for the reader)
        return _replay_route_story(spec)
    env.boot()
    chk = Checker()
    if "replay" in spec and spec["replay"].get("lane") == "large":
        large_lane(chk, random.Random(1), 1, huge=bool(spec["replay"].get("huge")))
    elif "replay" in spec and spec["replay"].get("lane") == "threads":
        threads_lane(chk, random.Random(1), 6)
    elif "replay" in spec:
        replay(chk, spec["replay"])
    else:
        rng = random.Random("c08/%d/%d" % (spec["seed"], spec["shard"]))
        quick = spec["tier"] == "quick"
        for j in range(8 if quick else 250):
            chk.run_tree(rng, rng.choice([5, 9, 14, 20, 28]), j, spec["tier"])
        if spec["shard"] % 4 == 0:
            threads_lane(chk, rng, 4 if quick else 60)
        if spec["shard"] % 4 == 1:
            large_lane(chk, rng, 2 if quick else 12)
        if spec["shard"] % 8 == 2:
            large_lane(chk, rng, 1 if quick else 3, huge=True)
        if spec["shard"] % 4 == 3:
            from skv import cstream
            route_lane(chk.v, chk.c, rng, 3 if quick else 20, dict(cstream.C02_CLASSES), "c08r")
    return {"evaluations": chk.c["reloads"], "digests": sorted(chk.digests), "violations": chk.viol, "counters": chk.c,
            "samples": chk.samples}


def route_lane(add_violation, counters, rng, nhist, classes, tag):
    """this property on the routes by which a RUNNING NODE takes blocks (relay and download, real store): histories in which the
    node had asked a peer for blocks, blocks were announced, arrived unrequested, late, before their parent, or again with another
    body (the stories of skv/props/c09.py), built from this check's classes of rule-breaking blocks"""
    from skv.props import c09
    mon = c09.route_histories(rng, nhist, 14, classes, tag)
    counters["route_lane_deliveries"] = counters.get("route_lane_deliveries", 0) + mon.c.get("deliveries", 0)
    counters["route_lane_stories"] = counters.get("route_lane_stories", 0) + mon.c.get("download_route_stories", 0)
    for k_, v_ in mon.c.items():
        if k_.startswith("story:"):
            counters["route_" + k_] = counters.get("route_" + k_, 0) + v_
    for v in mon.viol:
        add_violation("node-route:" + v["key"], v["msg"], v["witness"])


def finalize(m, tier):
    c = m["counters"]
    return {
        "rule": "random block trees with multi-input/multi-output transactions, pending transactions re-mined on sibling "
                "forks, reorganisations; random batching of writes into flushes (each / random / all), in 40% of the trees with blocks "
                "handed over again later (before or after their first flush, with children handed over since); file-backed store "
                "reloaded by a fresh BlockStore after flushes; distinct = distinct trees + distinct flushed prefixes by "
                "digest; non-trivial = reloads of stores holding at least one non-genesis block (all of them)",
        "floors": [("reloads", c.get("reloads", 0), 150), ("state_rebuilds", c.get("state_rebuilds", 0), 150),
                   ("trees_with_forks", c.get("trees_with_forks", 0), 40),
                   ("blocks_with_transactions", c.get("blocks_with_transactions", 0), 300),
                   ("multi_input_transactions", c.get("multi_input_transactions", 0), 100),
                   ("same_transaction_in_two_blocks", c.get("same_transaction_in_two_blocks", 0), 20),
                   ("thread_lane_flushes_with_data", c.get("thread_lane_flushes_with_data", 0), 40),
                   ("large_store_blocks", c.get("large_store_blocks", 0), 5000),
                   ("blocks_handed_over_again", c.get("blocks_handed_over_again", 0), 50),
                   ("batches_above_10000_blocks", c.get("batches_above_10000_blocks", 0), 2),
                   ("buffer_dropped_and_refilled", c.get("buffer_dropped_and_refilled", 0), 30)],
        "extra": {},
    }
