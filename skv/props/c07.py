"""C07 - canonical identity.

Lane A (encode->decode->encode) on generated values of every serializable class, compared field by
field with a harness-side structural view and, for consensus types, with the reference encoder.
Lane B (decode->encode) offers byte strings -- valid encodings mutated structure-aware (alternative
length-prefix encodings at every VLQ position, tag/version edits, truncation, trailing data, byte
substitutions) and random bytes -- to every consensus decoder; whatever decodes must re-encode to the
consumed bytes.  Lane C compares the id the node assigns (from bytes / from the store / built in
memory) with the double SHA-256 of the canonical encoding."""
import io
import random

from skv import env, ref, bridge, objgen
from skv.runner import digest

PROPERTY = "C07"
LEVEL = "exploration"
NSHARD = 16


def shards(tier, seed):
    return [{"shard": i, "tier": tier, "seed": seed} for i in range(NSHARD)]


class AltVlq:
    """temporarily makes the reference encoder emit an alternative encoding at the k-th length prefix"""

    def __init__(self, occurrence, mode):
        self.occurrence, self.mode, self.count, self.hit = occurrence, mode, 0, False

    def __enter__(self):
        self.orig = ref.vlq_enc

        def enc(n):
            k = self.count
            self.count += 1
            if k != self.occurrence:
                return self.orig(n)
            self.hit = True
            canon = self.orig(n)
            if self.mode.startswith("value:"):
                return self.orig(int(self.mode[6:]))       # canonical encoding of ANOTHER number at this position
            if self.mode == "pad1":
                return b"\x80" + canon
            if self.mode == "pad3":
                return b"\x80\x80\x80" + canon
            # 'minimal': the textbook-minimal form (drops the leading 0x80 the network's encoder emits when the
            # bit length is a multiple of 7); identical to canon otherwise
            return canon[1:] if len(canon) > 1 and canon[0] == 0x80 else canon
        ref.vlq_enc = enc
        return self

    def __exit__(self, *a):
        ref.vlq_enc = self.orig


class Lane:
    def __init__(self, spec):
        self.rng = random.Random("c07/%d/%d" % (spec["seed"], spec["shard"]))
        self.g = objgen.Gen()
        self.dec = self.g.decoders()
        self.viol = []
        self.c = {"A_values": 0, "A_by_class": {}, "B_strings": 0, "B_decoder_calls": 0, "B_decoded": 0,
                  "B_decoded_by_class": {}, "B_rejected": 0, "B_by_mutation": {}, "C_ids_checked": 0,
                  "C_ids_from_store": 0, "B_decoded_noncanonical_input": 0}
        self.digests = set()
        self.samples = []

    def v(self, key, msg, w):
        if sum(1 for x in self.viol if x["key"] == key) < 3:
            self.viol.append({"key": key, "msg": msg, "witness": w})

    # ---------------- lane A
    def lane_a(self, n):
        g, rng = self.g, self.rng
        import skepticoin.networking.messages as ms
        for _ in range(n):
            name = rng.choice(g.CONSENSUS)
            val = getattr(g, name)(rng, big=True) if name in ("transaction", "block") and rng.random() < 0.02 \
                else getattr(g, name)(rng)
            self.roundtrip(val, self.dec[g.decoder_for(name)], g.decoder_for(name))
        for _ in range(n // 2):
            kind = rng.choice(g.MESSAGES)
            self.roundtrip(g.message(rng, kind), ms.Message, "Message/" + kind)
            self.roundtrip(g.message_header(rng), ms.MessageHeader, "MessageHeader")
            self.header_from_reference_bytes(ms, (objgen.pick_u32(rng), objgen.pick_u32(rng), rng.choice([0, 0, 1, objgen.pick_u32(rng)]),
                                                  objgen.pick_u64(rng)))
            k2 = rng.randrange(3)
            if k2 == 0:
                self.roundtrip(ms.SupportedVersion(rng.randrange(256)), ms.SupportedVersion, "SupportedVersion")
            elif k2 == 1:
                self.roundtrip(ms.InventoryItem(objgen.rb(rng, 2), objgen.h32(rng)), ms.InventoryItem, "InventoryItem")
            else:
                self.roundtrip(ms.Peer(objgen.pick_u32(rng), g.ip(rng), rng.randrange(65536)), ms.Peer, "Peer")

    def header_from_reference_bytes(self, ms, intended):
        """the message header as ANOTHER implementation would put it on the wire (fixed layout, packed here): the decoder must
        give exactly these four values (every value is legal, zero included), twice, and encode them back to the same bytes; a
        header constructed from the four values must hold them"""
        import struct
        ts, mid, irt, ctx = intended
        hb = struct.pack(">BIIIQ", 0, ts, mid, irt, ctx) + b"\x00" * 32
        self.c["A_headers_from_reference_bytes"] = self.c.get("A_headers_from_reference_bytes", 0) + 1
        if 0 in intended:
            self.c["A_headers_with_a_zero_field"] = self.c.get("A_headers_with_a_zero_field", 0) + 1
        w = {"lane": "A-header-bytes", "class": "MessageHeader", "bytes": hb.hex()}
        try:
            d1 = ms.MessageHeader.deserialize(hb)
            d2 = ms.MessageHeader.deserialize(hb)
            got1 = (d1.timestamp, d1.id, d1.in_response_to, d1.context)
            got2 = (d2.timestamp, d2.id, d2.in_response_to, d2.context)
            again = d1.serialize()
            made = ms.MessageHeader(ts, mid, irt, ctx)
            held = (made.timestamp, made.id, made.in_response_to, made.context)
        except Exception as e:
            self.v("legal-value-cannot-be-decoded:MessageHeader", "header %r as packed by another implementation: %r" % (intended, e), w)
            return
        if got1 != intended or got2 != intended:
            self.v("decoder-changes-value:MessageHeader", "header bytes carrying (timestamp, id, in_response_to, context) = %r decode "
                   "to %r%s" % (intended, got1, "" if got1 == got2 else " and, the second time, to %r" % (got2,)), w)
        if again != hb:
            self.v("roundtrip-changes-encoding:MessageHeader", "encode(decode(b)) != b for a header packed by another implementation", w)
        if held != intended:
            self.v("constructor-changes-value:MessageHeader", "MessageHeader%r holds %r" % (intended, held), w)

    def roundtrip(self, val, decoder, cname):
        self.c["A_values"] += 1
        self.c["A_by_class"][cname] = self.c["A_by_class"].get(cname, 0) + 1
        try:
            b = val.serialize()
        except Exception as e:
            self.v("legal-value-cannot-be-encoded:" + cname.split("/")[0], "%s: a value within the field widths of the format cannot be "
                   "encoded: %r (view %s)" % (cname, e, str(objgen.deep(val))[:200]), {"lane": "A", "class": cname, "bytes": ""})
            return
        self.digests.add(digest("A", cname, b))
        w = {"lane": "A", "class": cname, "bytes": b.hex()}
        f = io.BytesIO(b)
        try:
            back = decoder.stream_deserialize(f)
        except Exception as e:
            self.v("encoder-output-does-not-decode:" + cname.split("/")[0], "%s: own encoding rejected: %r" % (cname, e), w)
            return
        if f.tell() != len(b):
            self.v("decoder-leaves-bytes-of-own-encoding:" + cname.split("/")[0],
                   "%s: decoder consumed %d of %d bytes" % (cname, f.tell(), len(b)), w)
        if objgen.deep(back) != objgen.deep(val):
            self.v("roundtrip-changes-value:" + cname.split("/")[0], "%s: decode(encode(v)) != v field by field" % cname, w)
        try:
            again = back.serialize()
        except Exception as e:
            again = None
            self.v("decoded-value-cannot-be-encoded:" + cname.split("/")[0], "%s: decode(encode(v)) cannot be encoded again: %r" % (cname, e), w)
        if again is not None and again != b:
            self.v("roundtrip-changes-encoding:" + cname.split("/")[0], "%s: encode(decode(b)) != b" % cname, w)
        # reference encoder (anchors the byte layout) and ids
        if cname == "Transaction":
            r = bridge.real_to_rtx(val)
            self.c["C_ids_checked"] += 2
            if r.enc() != b:
                self.v("encoding-differs-from-network-format:Transaction", "Transaction bytes differ from reference", w)
            if val.hash() != r.id() or back.hash() != r.id():
                self.v("id-is-not-hash-of-canonical-encoding:Transaction", "Transaction id differs from sha256d(encoding)", w)
        elif cname == "Block":
            r = bridge.real_to_rblock(val)
            self.c["C_ids_checked"] += 2
            if r.enc() != b:
                self.v("encoding-differs-from-network-format:Block", "Block bytes differ from reference", w)
            if val.hash() != r.id() or back.hash() != r.id():
                self.v("id-is-not-hash-of-canonical-encoding:Block", "Block id differs from sha256d(header encoding)", w)
            for t, rt in zip(back.transactions, r.txs):
                self.c["C_ids_checked"] += 1
                if t.hash() != rt.id():
                    self.v("id-is-not-hash-of-canonical-encoding:Transaction", "tx-in-block id differs", w)
        elif cname == "BlockHeader":
            r = bridge.real_to_rheader(val)
            self.c["C_ids_checked"] += 2
            if r.header_enc() != b:
                self.v("encoding-differs-from-network-format:BlockHeader", "BlockHeader bytes differ from reference", w)
            if val.hash() != r.id() or back.hash() != r.id():
                self.v("id-is-not-hash-of-canonical-encoding:BlockHeader", "header id differs", w)
        elif cname == "BlockSummary":
            r = ref.RBlock(val.height, val.previous_block_hash, val.merkle_root_hash, val.timestamp, val.target,
                           val.nonce, b"", b"", b"", [])
            if r.summary_enc() != b:
                self.v("encoding-differs-from-network-format:BlockSummary", "BlockSummary bytes differ from reference", w)
        if len(self.samples) < 2 and cname in ("Transaction", "BlockSummary"):
            self.samples.append({"lane": "A", "class": cname, "bytes": b.hex()[:160]})

    # ---------------- lane B
    def offer(self, b, mutation):
        """offer one byte string to every consensus decoder"""
        self.c["B_strings"] += 1
        self.c["B_by_mutation"][mutation] = self.c["B_by_mutation"].get(mutation, 0) + 1
        self.digests.add(digest("B", b))
        for cname, dec in self.dec.items():
            self.c["B_decoder_calls"] += 1
            f = io.BytesIO(b)
            try:
                obj = dec.stream_deserialize(f)
            except Exception:
                self.c["B_rejected"] += 1
                continue
            used = f.tell()
            consumed = b[:used]
            self.c["B_decoded"] += 1
            self.c["B_decoded_by_class"][cname] = self.c["B_decoded_by_class"].get(cname, 0) + 1
            w = {"lane": "B", "class": cname, "bytes": b.hex(), "mutation": mutation}
            try:
                again = obj.serialize()
            except Exception as e:
                self.v("decoded-value-cannot-be-encoded:" + cname, "%s decodes but cannot be re-encoded: %r" % (cname, e), w)
                continue
            if again != consumed:
                self.c["B_decoded_noncanonical_input"] += 1
                self.v(self.classify(cname, consumed, again) + ":" + cname,
                       "%s accepts %d bytes that re-encode differently (%s)" % (cname, used, mutation), w)
            # lane C on what decoded
            if cname == "Transaction":
                self.c["C_ids_checked"] += 1
                if obj.hash() != ref.sha256d(again):
                    self.v("id-is-not-hash-of-canonical-encoding:Transaction",
                           "Transaction from bytes has id %s, canonical encoding hashes to %s (%s)" % (
                               obj.hash().hex()[:16], ref.sha256d(again).hex()[:16], mutation), w)
            elif cname == "Block":
                self.c["C_ids_checked"] += 1
                canon = ref.sha256d(obj.header.serialize())
                if obj.hash() != canon:
                    self.v("id-is-not-hash-of-canonical-encoding:Block",
                           "Block from bytes has id %s, canonical header hashes to %s (%s)" % (
                               obj.hash().hex()[:16], canon.hex()[:16], mutation), w)
                for t in obj.transactions:
                    self.c["C_ids_checked"] += 1
                    if t.hash() != ref.sha256d(t.serialize()):
                        self.v("id-is-not-hash-of-canonical-encoding:Transaction",
                               "Transaction inside block from bytes: id differs from hash of canonical encoding", w)

    @staticmethod
    def classify(cname, consumed, again):
        """mechanism key of a decode/re-encode mismatch, from the structure of the witness"""
        return "second-encoding-accepted"

    def lane_b(self, n):
        g, rng = self.g, self.rng
        for _ in range(n):
            name = rng.choice(g.CONSENSUS)
            # lists of 64..127 elements matter: their length prefix is where the network's two-octet form and the
            # textbook one-octet form differ
            val = getattr(g, name)(rng, big=True) if name in ("transaction", "block") and rng.random() < 0.2 \
                else getattr(g, name)(rng)
            try:
                b = val.serialize()
            except Exception as e:
                self.v("legal-value-cannot-be-encoded:" + g.decoder_for(name), "%s: a value within the field widths of the format cannot "
                       "be encoded: %r" % (name, e), {"lane": "A", "class": g.decoder_for(name), "bytes": ""})
                continue
            self.offer(b, "valid")
            # structure-aware: alternative encodings of every length prefix / height
            r = None
            if name == "transaction":
                r = lambda: bridge.real_to_rtx(val).enc()
            elif name == "block":
                r = lambda: bridge.real_to_rblock(val).enc()
            elif name == "block_header":
                r = lambda: bridge.real_to_rheader(val).header_enc()
            elif name == "block_summary":
                r = lambda: bridge.real_to_rheader(self._hdr(val)).summary_enc()
            if r is not None:
                occ = 0
                while True:
                    any_hit = False
                    for mode in ("pad1", "pad3", "minimal"):
                        with AltVlq(occ, mode) as alt:
                            mb = r()
                        if alt.hit:
                            any_hit = True
                            if mb != b:
                                if mode == "minimal" and not (name in ("block", "block_header", "block_summary") and occ == 0):
                                    self.c["B_minimal_list_prefix"] = self.c.get("B_minimal_list_prefix", 0) + 1
                                self.offer(mb, "vlq-" + mode)
                    if not any_hit or occ > 12:
                        break
                    occ += 1
            # generic mutations
            L = len(b)
            if L:
                positions = range(L) if L <= 48 else [rng.randrange(L) for _ in range(24)]
                for p in positions:
                    nb = rng.choice([0x00, 0x01, 0x02, 0x03, 0x7f, 0x80, 0x81, 0xff, b[p] ^ (1 << rng.randrange(8))])
                    if nb != b[p]:
                        self.offer(b[:p] + bytes([nb]) + b[p + 1:], "substitute")
                cuts = range(L) if L <= 48 else [rng.randrange(L) for _ in range(8)]
                for p in cuts:
                    self.offer(b[:p], "truncate")
                self.offer(b + objgen.rb(rng, rng.choice([1, 2, 33])), "trailing")
                p = rng.randrange(L)
                self.offer(b[:p] + b"\x80" + b[p:], "insert-0x80")
                self.offer(b[:p] + b[p + 1:], "delete-byte")
            self.offer(objgen.rb(rng, rng.choice([1, 2, 5, 40, 70, 140, 300])), "random")
            self.offer(b"\x00" + bytes([rng.choice([0x80, 0x81, 0xff])]) * rng.choice([1, 2, 9]) + objgen.rb(rng, 150),
                       "vlq-run")

    def _hdr(self, summary):
        import skepticoin.datatypes as dt
        return dt.BlockHeader(summary, dt.PowEvidence(b"\x00" * 32, b"\x00" * 32, b"\x00" * 32))

    def lane_long_lists(self, n):
        """lists of 1000+ elements (legal: a transaction with ~1980 inputs still fits a block) and length prefixes that
        announce another count than the number of elements that follow"""
        g, rng = self.g, self.rng
        import skepticoin.datatypes as dt
        for _ in range(n):
            k = rng.choice([999, 1000, 1001, 1024, 1500, 1900])
            which = rng.choice(["inputs", "outputs", "transactions"])
            if which == "inputs":
                val = dt.Transaction([g.input(rng) for _i in range(k)], [g.output(rng)])
                name, enc = "Transaction", lambda: bridge.real_to_rtx(val).enc()
            elif which == "outputs":
                val = dt.Transaction([g.input(rng)], [g.output(rng) for _i in range(k)])
                name, enc = "Transaction", lambda: bridge.real_to_rtx(val).enc()
            else:
                tiny = [dt.Transaction([g.input(rng)], []) for _i in range(k)]
                val = dt.Block(g.block_header(rng), tiny)
                name, enc = "Block", lambda: bridge.real_to_rblock(val).enc()
            self.c["long_lists"] = self.c.get("long_lists", 0) + 1
            self.roundtrip(val, self.dec[name], name)
            b = val.serialize()
            occ_of_list = {"inputs": 0, "outputs": 1, "transactions": 1}[which]
            for other in (k + 1, k - 1, 1000, 1001, 5000, 1 << 40):
                if other == k:
                    continue
                with AltVlq(occ_of_list, "value:%d" % other) as alt:
                    mb = enc()
                if alt.hit and mb != b:
                    # the announced count differs from the elements present: give the decoder enough (random) continuation
                    self.offer(mb + objgen.rb(rng, 200), "count-altered")

    # ---------------- lane C (store)
    def lane_c_store(self, n):
        import skepticoin.datatypes as dt
        import skepticoin.signing as sg
        from skepticoin.blockstore import BlockStore
        rng, g = self.rng, self.g
        store = BlockStore(":memory:")
        written = {}
        gen_id = ref.GENESIS_ID
        for k in range(n):
            txs = []
            for _ in range(rng.choice([1, 1, 2, 3])):
                ins = [dt.Input(dt.OutputReference(b"\x00" * 32, objgen.pick_u32(rng)), g.signature(rng))
                       for _ in range(rng.choice([1, 2]))]
                outs = [dt.Output(rng.choice([0, 1, ref.MAX_SASHIMI, (1 << 63) - 1, rng.randrange(1 << 62)]), g.public_key(rng))
                        for _ in range(rng.choice([0, 1, 2]))]
                txs.append(dt.Transaction(ins, outs))
            s = g.block_summary(rng)
            s.previous_block_hash = gen_id
            s.height = rng.choice([1, 63, 64, 127, 128, 16383, 16384, (1 << 31) - 1, (1 << 62)])
            blk = dt.Block(dt.BlockHeader(s, g.pow_evidence(rng)), txs)
            if len({t.hash() for t in txs}) != len(txs):
                continue
            try:
                store.write_blocks_to_disk([blk])
            except Exception as e:
                self.v("store-refuses-encodable-block", "write_blocks_to_disk raised %r" % (e,), {"lane": "C-store", "bytes": ""})
                continue
            written[bridge.real_to_rblock(blk).id()] = bridge.real_to_rblock(blk)
        for blk in store.read_blocks_from_disk():
            try:
                blk.serialize()
                r = bridge.real_to_rblock(blk)
            except Exception as e:
                self.c["C_ids_from_store"] += 1
                self.v("block-from-store-has-no-encoding", "a block handed back by the store (id %s..) cannot be encoded: %r -- the id "
                       "it carries is not the hash of any encoding" % (blk.hash().hex()[:12], e), {"lane": "C-store", "bytes": ""})
                continue
            self.c["C_ids_from_store"] += 1
            self.c["C_ids_checked"] += 1
            w = {"lane": "C-store", "bytes": r.enc().hex()}
            if blk.hash() != r.id():
                self.v("id-is-not-hash-of-canonical-encoding:Block-from-store", "block read from the store: id differs from "
                       "sha256d(header)", w)
            for t, rt in zip(blk.transactions, r.txs):
                self.c["C_ids_checked"] += 1
                if t.hash() != rt.id():
                    self.v("id-is-not-hash-of-canonical-encoding:Transaction-from-store",
                           "transaction read from the store: id differs from sha256d(encoding)", w)
        store.close()

    def lane_c_faulty_store(self, n):
        """ids of what the store hands back after a flush FAILED half-way (a block whose input refers to an output the store
        does not hold, an amount beyond the store's integer range) and the store was closed and opened again"""
        import os
        import hashlib
        import skepticoin.datatypes as dt
        import skepticoin.signing as sg
        from skepticoin.blockstore import BlockStore
        rng, g = self.rng, self.g

        def sha256d(b):
            return hashlib.sha256(hashlib.sha256(b).digest()).digest()
        path = os.path.join(os.getcwd(), "c07-faulty.db")
        for k in range(n):
            for suffix in ("", "-journal"):
                if os.path.exists(path + suffix):
                    os.remove(path + suffix)
            store = nodekit_quiet(BlockStore, path)
            prev = ref.GENESIS_ID
            faults = 0
            for h in range(1, rng.choice([3, 4, 6])):
                fault = rng.choice([None, None, "missing-referenced-output", "amount-beyond-integer-range"])
                txs = [dt.Transaction([dt.Input(dt.OutputReference(b"\x00" * 32, 0), sg.CoinbaseData(h, b"c07"))],
                                      [dt.Output(10 + h, g.public_key(rng)), dt.Output(5, g.public_key(rng))])]
                for _ in range(rng.choice([1, 2])):
                    ref_hash = txs[0].hash() if fault != "missing-referenced-output" else objgen.rb(rng, 32)
                    val = rng.randrange(1, 1 << 40) if fault != "amount-beyond-integer-range" else rng.choice([1 << 63, (1 << 64) - 1])
                    txs.append(dt.Transaction([dt.Input(dt.OutputReference(ref_hash, len(txs) - 1), g.signature(rng))],
                                              [dt.Output(val, g.public_key(rng)), dt.Output(7, g.public_key(rng))]))
                s = g.block_summary(rng)
                s.previous_block_hash, s.height = prev, h
                blk = dt.Block(dt.BlockHeader(s, g.pow_evidence(rng)), txs)
                store.add_block_to_buffer(blk)
                try:
                    store.flush_blocks_to_disk()
                    prev = blk.hash()
                except Exception:
                    faults += 1
                    self.c["C_failed_flushes"] = self.c.get("C_failed_flushes", 0) + 1
                    store.write_buffer.clear()
            try:
                store.close()
            except Exception:
                pass
            store = nodekit_quiet(BlockStore, path)
            try:
                blocks = list(store.read_blocks_from_disk())
            except Exception as e:
                blocks = []
                if faults:
                    self.v("store-unreadable-after-failed-flush", "read_blocks_from_disk raised %r after a failed flush" % (e,),
                           {"lane": "C-faulty-store", "bytes": ""})
            for blk in blocks:
                for t in blk.transactions:
                    self.c["C_ids_checked"] += 1
                    self.c["C_ids_after_failed_flush"] = self.c.get("C_ids_after_failed_flush", 0) + 1
                    enc = t.serialize()
                    if t.hash() != sha256d(enc):
                        self.v("id-is-not-hash-of-canonical-encoding:Transaction-from-store-after-failed-flush",
                               "after a flush that failed half-way and a re-open, the store hands back a transaction whose id is "
                               "not the double SHA-256 of its encoding (%d inputs, %d outputs)" % (len(t.inputs), len(t.outputs)),
                               {"lane": "C-faulty-store", "bytes": enc.hex()})
            store.close()
        for suffix in ("", "-journal"):
            if os.path.exists(path + suffix):
                os.remove(path + suffix)

    def lane_f_after_failed_encoding(self, n):
        """values that can be built but not encoded (an unsigned input, 256 bytes of reward data, an out-of-range port, a
        negative amount, a list with an unencodable element half-way): the encoding attempt fails -- and the NEXT encoding
        or id request of a perfectly good object must be unaffected by it"""
        import hashlib
        import skepticoin.datatypes as dt
        import skepticoin.signing as sg
        import skepticoin.networking.messages as ms
        rng, g = self.rng, self.g

        def sha256d(b):
            return hashlib.sha256(hashlib.sha256(b).digest()).digest()
        gb = dt.Block.deserialize(env.genesis_bytes())
        ghdr = gb.header.serialize()
        for k in range(n):
            good_tx = g.transaction(rng)
            good_bytes = bridge.real_to_rtx(good_tx).enc()
            bad_makers = [
                lambda: dt.Transaction([dt.Input(dt.OutputReference(objgen.rb(rng, 32), 1), None)], [dt.Output(5, g.public_key(rng))]),
                lambda: dt.Transaction([dt.Input(dt.OutputReference(b"\x00" * 32, 0), sg.CoinbaseData.__new__(sg.CoinbaseData))], []),
                lambda: dt.Transaction([dt.Input(dt.OutputReference(objgen.rb(rng, 32), 0), g.signature(rng))],
                                       [dt.Output(7, g.public_key(rng)), dt.Output(-1, g.public_key(rng))]),
                lambda: dt.Transaction([dt.Input(dt.OutputReference(objgen.rb(rng, 32), 0), g.signature(rng))],
                                       [dt.Output(7, g.public_key(rng)), dt.Output(1 << 64, g.public_key(rng))]),
                lambda: ms.PeersMessage([ms.Peer(1, g.ip(rng), 2412), ms.Peer(1, g.ip(rng), 70000)]),
                lambda: ms.GetBlocksMessage([objgen.h32(rng), None]),
            ]
            maker = bad_makers[k % len(bad_makers)]
            failed = False
            try:
                bad = maker()
                if hasattr(bad, "inputs") and bad.inputs and isinstance(getattr(bad.inputs[0], "signature", None), sg.CoinbaseData):
                    bad.inputs[0].signature.height = 5
                    bad.inputs[0].signature.signature = b"x" * 256
                bad.serialize()
            except Exception:
                failed = True
            if not failed:
                self.c["F_unencodable_value_was_encoded"] = self.c.get("F_unencodable_value_was_encoded", 0) + 1
                continue
            self.c["F_failed_encodings"] = self.c.get("F_failed_encodings", 0) + 1
            w = {"lane": "F-after-failed-encoding", "bytes": good_bytes.hex(), "failed_value": k % len(bad_makers)}
            which = k % 3
            if which == 0:
                got = gb.header.serialize()
                if got != ghdr:
                    self.v("encoding-depends-on-an-earlier-failed-encoding", "the genesis header encodes to %d bytes (expected %d) "
                           "right after another value failed to encode" % (len(got), len(ghdr)), w)
            elif which == 1:
                fresh = dt.Transaction(list(good_tx.inputs), list(good_tx.outputs))
                if fresh.hash() != sha256d(good_bytes):
                    self.v("id-is-not-hash-of-canonical-encoding:Transaction-after-failed-encoding", "a transaction built in memory "
                           "right after another value failed to encode gets an id that is not the double SHA-256 of its encoding", w)
            else:
                m = ms.GetDataMessage(ms.DATA_BLOCK, objgen.h32(rng))
                enc = m.serialize()
                try:
                    same = ms.Message.deserialize(enc).serialize() == enc
                except Exception:
                    same = False
                if not same or len(enc) != 2 + 1 + 2 + 32:
                    self.v("encoding-depends-on-an-earlier-failed-encoding", "a GetData message encodes to %d bytes right after "
                           "another value failed to encode" % len(enc), w)
            # and the following request is clean in any case
            if gb.header.serialize() != ghdr:
                self.v("encoding-depends-on-an-earlier-failed-encoding", "the genesis header still encodes differently one request "
                       "later", w)

    def lane_d_derived(self, n):
        """objects DERIVED by the repository's own functions from objects that came from bytes (signing a decoded unsigned
        transaction, signing a decoded signed one again, the to-be-signed form of a decoded transaction)"""
        import hashlib
        import skepticoin.datatypes as dt
        import skepticoin.signing as sg
        import skepticoin.wallet as wm
        rng, g = self.rng, self.g

        def sha256d(b):
            return hashlib.sha256(hashlib.sha256(b).digest()).digest()
        wallet = wm.Wallet.empty()
        nodekit_quiet(wallet.generate_keys, 4)
        pubs = list(wallet.keypairs.keys())
        for k in range(n):
            utxo = {}
            ins = []
            for _ in range(rng.choice([1, 2, 3])):
                r = dt.OutputReference(objgen.rb(rng, 32), rng.choice([0, 1, 63, 64, 200]))
                utxo[r] = dt.Output(rng.randrange(1, 1 << 40), sg.SECP256k1PublicKey(rng.choice(pubs)))
                ins.append(dt.Input(r, sg.SignableEquivalent()))
            outs = [dt.Output(rng.randrange(1, 1 << 40), g.public_key(rng)) for _ in range(rng.choice([1, 2]))]
            unsigned = dt.Transaction(ins, outs)
            self.derived_case(wallet, utxo, unsigned)

    def derived_case(self, wallet, utxo, unsigned):
        import hashlib
        import skepticoin.datatypes as dt
        import skepticoin.wallet as wm

        def sha256d(b):
            return hashlib.sha256(hashlib.sha256(b).digest()).digest()
        base = {"lane": "D-derived", "unsigned": unsigned.serialize().hex(),
                "keys": [[pk.hex(), sk.hex()] for pk, sk in wallet.keypairs.items()],
                "utxo": [[r.hash.hex(), r.index, o.value, o.public_key.public_key.hex()] for r, o in utxo.items()]}
        if True:
            routes = {}
            try:
                from_bytes = dt.Transaction.deserialize(unsigned.serialize())
                routes["signed-from-memory"] = wm.sign_transaction(wallet, utxo, unsigned)
                routes["signed-from-bytes"] = wm.sign_transaction(wallet, utxo, from_bytes)
                routes["to-be-signed-form-of-decoded"] = from_bytes.signable_equivalent()
                again = dt.Transaction.deserialize(routes["signed-from-bytes"].serialize())
                routes["signed-again-from-bytes"] = wm.sign_transaction(wallet, utxo, again)
                routes["to-be-signed-form-of-decoded-signed"] = again.signable_equivalent()
            except Exception as e:
                self.v("derived-object-route-raises", "deriving from a decoded transaction raised %r" % (e,), dict(base, bytes=""))
                return
            for name, t in routes.items():
                self.c["D_ids_checked"] = self.c.get("D_ids_checked", 0) + 1
                enc = t.serialize()
                w = dict(base, route=name, bytes=enc.hex())
                if t.hash() != sha256d(enc):
                    self.v("id-is-not-hash-of-canonical-encoding:Transaction-" + name,
                           "transaction obtained by route '%s': id differs from sha256d(its encoding)" % name, w)
                if dt.Transaction.deserialize(enc).hash() != t.hash():
                    self.v("same-content-two-ids:Transaction-" + name,
                           "a node decoding the bytes of the transaction obtained by route '%s' knows it under another id" % name, w)

    def lane_e_workload(self, n):
        """the id invariant (hooked on every hash() call) along a node-like workload: blocks assembled by the repository's
        own block assembly and by the reference, full validation, a file-backed store written and read back, a chain state
        rebuilt from it, wallet spends built and signed at the head, block and transaction objects decoded from bytes"""
        import os
        import skepticoin.datatypes as dt
        import skepticoin.wallet as wm
        import skepticoin.signing as sg
        from skepticoin.blockstore import BlockStore
        from skv import gen, nodekit, idhook
        env.boot()          # (stand-in scrypt, horizon off: generated low chains get full validation)
        rng = self.rng
        for k in range(n):
            before = idhook.STATE["evaluations"]
            world = gen.World(rng)
            world.grow(rng.choice([6, 10, 14]), rng, tx_prob=0.7)
            order = world.chain.order[1:]
            path = os.path.join(os.getcwd(), "c07-e.db")
            for suffix in ("", "-journal"):
                if os.path.exists(path + suffix):
                    os.remove(path + suffix)
            store = nodekit.quiet(BlockStore, path)
            try:
                store.write_blocks_to_disk([world.real[b] for b in order])
            except Exception:
                pass            # (the shared-transaction mechanism of C08 is not this lane's subject)
            store.close()
            store = nodekit.quiet(BlockStore, path)
            cs = world.CoinState.zero()
            for blk in store.read_blocks_from_disk():
                blk.hash()
                for t in blk.transactions:
                    t.hash()
                try:
                    if blk.height > 0:
                        cs = cs.add_block_no_validation(blk)
                except Exception:
                    pass
            store.close()
            os.remove(path)
            for b in order:
                d = dt.Block.deserialize(world.real[b].serialize())
                d.hash()
                [t.hash() for t in d.transactions]
            wallet = wm.Wallet(dict((pk, sk) for sk, pk in world.keys), [], {})
            for _ in range(3):
                try:
                    t = wm.create_spend_transaction(wallet, world.cs, rng.randrange(1, 10 ** 9), rng.choice([0, 1, 5]),
                                                    sg.SECP256k1PublicKey(rng.choice(world.keys)[1]),
                                                    sg.SECP256k1PublicKey(rng.choice(world.keys)[1]))
                    t.hash()
                    dt.Transaction.deserialize(t.serialize()).signable_equivalent().hash()
                except Exception:
                    pass
            self.c["E_workloads"] = self.c.get("E_workloads", 0) + 1
            self.c["E_id_requests_observed"] = self.c.get("E_id_requests_observed", 0) + idhook.STATE["evaluations"] - before

    # ---------------- lane G: two threads inside the codec
    def lane_g_two_threads(self, n):
        """the networking thread decodes and re-encodes what peers send while the miner / wallet thread encodes what it builds:
        thread A decodes a value, encodes it again and takes its id; at one statement boundary / function entry inside the
        codec modules -- a sample of all of them -- it is held while thread B does the same with ANOTHER value.  Both must get
        what they get alone"""
        import skepticoin.datatypes as dt
        import skepticoin.serialization as ser
        import skepticoin.signing as sg
        import skepticoin.hash as hm
        import skepticoin.networking.messages as ms
        from skv import preempt
        g, rng = self.g, self.rng
        pre = preempt.Preempter([dt, ser, sg, hm, ms])
        if not pre.ok:
            self.c["G_tool_slot_taken"] = 1
            return

        def pick():
            r = rng.random()
            if r < 0.4:
                return g.transaction(rng), dt.Transaction, "Transaction"
            if r < 0.7:
                return g.block(rng), dt.Block, "Block"
            kind = rng.choice(g.MESSAGES)
            return g.message(rng, kind), ms.Message, "Message/" + kind

        def job(b, decoder):
            def work():
                v = decoder.stream_deserialize(io.BytesIO(b))
                return (objgen.deep(v), v.serialize(), v.hash() if hasattr(v, "hash") and not isinstance(v, ms.Message) else None)
            return work
        try:
            for _ in range(n):
                try:
                    (x, dx, cx), (y, dy, cy) = pick(), pick()
                    bx, by = x.serialize(), y.serialize()
                    alone_a, alone_b = job(bx, dx)(), job(by, dy)()
                except Exception:
                    self.c["G_cases_skipped"] = self.c.get("G_cases_skipped", 0) + 1
                    continue
                total = pre.count(job(bx, dx))
                self.c["G_cases"] = self.c.get("G_cases", 0) + 1
                points = pre.points_by_location(rng, 40)
                self.c["G_locations_seen"] = len(pre.loc_uses)
                for k in points:
                    a, b, ran = pre.run(job(bx, dx), job(by, dy), k)
                    if not ran:
                        continue
                    self.c["G_switch_points"] = self.c.get("G_switch_points", 0) + 1
                    w = {"lane": "G-two-threads", "class": cx, "bytes": bx.hex(), "other_class": cy, "other_bytes": by.hex(),
                         "switch_at_event": k, "of_events": total}
                    for who, got, want, cn in (("A", a, alone_a, cx), ("B", b, alone_b, cy)):
                        if isinstance(got, preempt.Raised):
                            self.v("codec-raises-when-two-threads-use-it:" + cn.split("/")[0], "thread %s (%s) raised %r while another "
                                   "thread was inside the codec (switch at event %d of %d)" % (who, cn, got.e, k, total), w)
                        elif got != want:
                            part = ["decoded value", "encoding", "id"][[i for i in range(3) if got[i] != want[i]][0]]
                            self.v("codec-result-depends-on-another-threads-work:" + cn.split("/")[0], "thread %s (%s): the %s differs "
                                   "from what the same call gives alone (switch at event %d of %d, the other thread worked on a %s)" % (
                                       who, cn, part, k, total, cy if who == "A" else cx), w)
        finally:
            pre.close()

    def result(self):
        from skv import idhook
        idhook.report(self.v, self.c)
        return {"evaluations": self.c["A_values"] + self.c["B_decoder_calls"], "digests": sorted(self.digests),
                "violations": self.viol, "counters": self.c, "samples": self.samples}


def _rebuild_unsigned(b):
    """an in-memory (not 'from bytes') unsigned transaction with the given encoding"""
    import skepticoin.datatypes as dt
    t = dt.Transaction.deserialize(b)
    return dt.Transaction(list(t.inputs), list(t.outputs))


def nodekit_quiet(fn, *a):
    from skv import nodekit
    return nodekit.quiet(fn, *a)


def run_shard(spec):
    env.boot(fake_scrypt=False, horizon_off=False)
    from skv import idhook
    idhook.install()
    if "replay" in spec:
        w = spec["replay"]
        lane = Lane({"seed": 0, "shard": 0})
        b = bytes.fromhex(w["bytes"])
        if w.get("lane") == "A":
            import skepticoin.networking.messages as ms
            dec = dict(lane.dec)
            dec.update({"MessageHeader": ms.MessageHeader, "SupportedVersion": ms.SupportedVersion,
                        "InventoryItem": ms.InventoryItem, "Peer": ms.Peer})
            cname = w["class"]
            d = ms.Message if cname.startswith("Message/") else dec[cname]
            f = io.BytesIO(b)
            lane.roundtrip(d.stream_deserialize(f), d, cname)
        elif w.get("lane") == "D-derived":
            import skepticoin.datatypes as dt
            import skepticoin.signing as sg
            import skepticoin.wallet as wm
            wallet = wm.Wallet.empty()
            for pk, sk in w["keys"]:
                wallet.keypairs[bytes.fromhex(pk)] = bytes.fromhex(sk)
            utxo = {dt.OutputReference(bytes.fromhex(h), i): dt.Output(v, sg.SECP256k1PublicKey(bytes.fromhex(pk)))
                    for h, i, v, pk in w["utxo"]}
            lane.derived_case(wallet, utxo, _rebuild_unsigned(bytes.fromhex(w["unsigned"])))
        elif w.get("lane") == "A-header-bytes":
            import struct
            import skepticoin.networking.messages as ms
            _v, ts, mid, irt, ctx = struct.unpack(">BIIIQ", b[:21])
            lane.header_from_reference_bytes(ms, (ts, mid, irt, ctx))
        elif w.get("lane") == "G-two-threads":
            lane.lane_g_two_threads(30)
        elif w.get("lane") == "id-hook":
            import skepticoin.datatypes as dt
            t = dt.Transaction.deserialize(b)
            t.hash()
        else:
            lane.offer(b, w.get("mutation", "replay"))
        return lane.result()
    lane = Lane(spec)
    quick = spec["tier"] == "quick"
    lane.lane_a(1500 if quick else 40000)
    lane.lane_b(220 if quick else 6000)
    lane.lane_c_store(40 if quick else 600)
    lane.lane_c_faulty_store(6 if quick else 80)
    lane.lane_long_lists(2 if quick else 40)
    lane.lane_d_derived(25 if quick else 400)
    lane.lane_f_after_failed_encoding(60 if quick else 1200)
    lane.lane_e_workload(2 if quick else 40)
    lane.lane_g_two_threads(10 if quick else 200)
    return lane.result()


def finalize(m, tier):
    c = m["counters"]
    return {
        "rule": "lane A: generated values of every serializable class (consensus + wire) with boundary integers; lane B: "
                "every consensus decoder offered each mutated/random byte string (incl. lists of 64..127 and of 1000+ elements and "
                "length prefixes announcing another count); distinct = distinct byte strings by "
                "digest (lane A encodings + lane B strings); non-trivial = every string (lane B counts separately how "
                "many decoded at all: B_decoded)",
        "floors": [("A_values", c.get("A_values", 0), 10000), ("B_strings", c.get("B_strings", 0), 20000),
                   ("B_decoded", c.get("B_decoded", 0), 5000),
                   ("vlq alternatives offered", c.get("B_by_mutation", {}).get("vlq-pad1", 0), 500),
                   ("vlq textbook-minimal alternatives offered", c.get("B_by_mutation", {}).get("vlq-minimal", 0), 300),
                   ("textbook-minimal list prefixes offered", c.get("B_minimal_list_prefix", 0), 40),
                   ("ids checked", c.get("C_ids_checked", 0), 5000),
                   ("two-thread switch points in the codec", c.get("G_switch_points", 0), 2000),
                   ("ids from store", c.get("C_ids_from_store", 0), 100), ("failed flushes", c.get("C_failed_flushes", 0), 40),
                   ("ids after a failed flush", c.get("C_ids_after_failed_flush", 0), 200), ("ids of derived objects", c.get("D_ids_checked", 0), 1000),
                   ("encodings right after a failed encoding", c.get("F_failed_encodings", 0), 500),
                   ("id requests observed along node-like workloads", c.get("E_id_requests_observed", 0), 5000),
                   ("id_invariant_evaluations", c.get("id_invariant_evaluations", 0), 5000), ("long_lists", c.get("long_lists", 0), 20),
                   ("count-altered strings", c.get("B_by_mutation", {}).get("count-altered", 0), 60)],
        "extra": {},
    }
