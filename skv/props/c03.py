"""C03 - ledger state at a block is a function of that block's chain alone.

After every block arrival, the real per-block unspent-output maps and per-key balances are compared
with the reference replay of that block's ancestors from genesis; several parent-before-child arrival
orders of the same tree are fed to fresh states; every state object ever returned is fingerprinted
when created and again later (snapshot immutability)."""
import itertools
import random

from skv import env, ref, gen, bridge
from skv.runner import digest

PROPERTY = "C03"
LEVEL = "exploration"
NSHARD = 16
SHARD_TIMEOUT = {"quick": 900, "thorough": 3600}


def shards(tier, seed):
    out = [{"shard": i, "tier": tier, "seed": seed} for i in range(NSHARD)]
    out[-1]["py_flags"] = ["-X", "dev", "-X", "faulthandler"]   # auxiliary lane: CPython debug allocator
    return out


def real_uto(cs, bid):
    return {(r.hash, r.index): (o.value, o.public_key.public_key)
            for r, o in cs.unspent_transaction_outs_by_hash[bid].items()}


class Monitor:
    def __init__(self):
        self.viol = []
        self.c = {"trees": 0, "arrival_orders": 0, "adds": 0, "uto_maps_compared": 0, "balance_maps_compared": 0,
                  "wallet_balances_compared": 0, "snapshots_rechecked": 0, "blocks_with_transactions": 0,
                  "reorganisations": 0, "keys_that_dropped_to_zero": 0, "max_forks": 0, "all_orders_trees": 0,
                  "pending_tx_in_sibling_forks": 0}
        self.digests = set()
        self.samples = []

    def v(self, key, msg, w):
        if sum(1 for x in self.viol if x["key"] == key) < 3:
            self.viol.append({"key": key, "msg": msg, "witness": w})

    def check_block(self, cs, chain, bid, w, order_name):
        c = self.c
        exp = chain.replay_uncached(bid)
        try:
            got = real_uto(cs, bid)
        except KeyError:
            # the state keeps no unspent set for this block under the documented attribute (a design that drops old snapshots
            # is not by itself a violation): nothing to compare here; what is built ON such a block is compared as usual
            c["blocks_without_a_reported_unspent_set"] = c.get("blocks_without_a_reported_unspent_set", 0) + 1
            return {}
        c["uto_maps_compared"] += 1
        if got != exp:
            extra = sorted(set(got) - set(exp))[:2]
            missing = sorted(set(exp) - set(got))[:2]
            self.v("unspent-set-differs-from-replay", "block h=%d (%s order): unspent set differs from replay of its "
                   "ancestors: %d extra %s, %d missing %s, %d different values" % (
                       chain.blocks[bid].height, order_name, len(set(got) - set(exp)), [(a.hex()[:8], b) for a, b in extra],
                       len(set(exp) - set(got)), [(a.hex()[:8], b) for a, b in missing],
                       sum(1 for k in exp if k in got and got[k] != exp[k])), w)
        exp_bal = {}
        for r, (v, k) in exp.items():
            t, refs = exp_bal.get(k, (0, []))
            exp_bal[k] = (t + v, refs + [r])
        try:
            pkb = cs.public_key_balances_by_hash[bid]
        except Exception as e:
            self.v("balances-cannot-be-reported-for-a-stored-block", "block h=%d (%s order): asking the chain state for the per-key "
                   "balances at a stored block raises %s: %s" % (chain.blocks[bid].height, order_name, type(e).__name__, str(e)[:80]), w)
            return exp_bal
        c["balance_maps_compared"] += 1
        exp_bal = {}
        for r, (v, k) in exp.items():
            t, refs = exp_bal.get(k, (0, []))
            exp_bal[k] = (t + v, refs + [r])
        seen = set()
        for pk, bal in pkb.items():
            k = pk.public_key
            seen.add(k)
            refs = [(r.hash, r.index) for r in bal.output_references]
            et, er = exp_bal.get(k, (0, []))
            if bal.value == 0 and not refs:
                c["keys_that_dropped_to_zero"] += 1
            if bal.value != et:
                self.v("key-balance-not-sum-of-unspent-outputs", "block h=%d: balance %d, unspent outputs paying the key "
                       "sum to %d" % (chain.blocks[bid].height, bal.value, et), w)
            if len(refs) != len(set(refs)) or set(refs) != set(er):
                self.v("key-reference-list-not-exactly-unspent-outputs", "block h=%d: key lists %d references (%d "
                       "distinct), reference has %d" % (chain.blocks[bid].height, len(refs), len(set(refs)), len(er)), w)
        for k in exp_bal:
            if k not in seen:
                self.v("key-with-unspent-outputs-missing-from-balances", "block h=%d: a key holding %d is absent" % (
                    chain.blocks[bid].height, exp_bal[k][0]), w)
        return exp_bal

    def run_order(self, world, order, w, order_name, validate, rng, check_every=True, light=False):
        from skepticoin.coinstate import CoinState
        from skepticoin.wallet import Wallet
        chain = world.chain
        cs = CoinState.zero()
        snaps = [(cs, gen.fingerprint(cs))]
        self.c["arrival_orders"] += 1
        for n, bid in enumerate(order):
            rb = chain.blocks[bid]
            prev_head = cs.current_chain_hash
            try:
                if validate:
                    cs = cs.add_block(world.real[bid], rb.ts)
                else:
                    cs = cs.add_block_no_validation(world.real[bid])
            except Exception as e:
                # the block is valid on its own chain (reference) and was accepted in generation order: failing to add it
                # here means its ledger state depends on something other than its ancestors (arrival order, other forks)
                self.v("valid-block-cannot-be-added-in-this-arrival-order", "block h=%d (%s order, arrival %d): %s: %s" % (
                    rb.height, order_name, n, type(e).__name__, str(e)[:80]), w)
                break
            self.c["adds"] += 1
            if cs.current_chain_hash != prev_head and rb.prev != prev_head:
                self.c["reorganisations"] += 1
            if not light or n % 40 == 0:
                snaps.append((cs, gen.fingerprint(cs)))
            if light:
                # very long histories: full checks on a subset of the arrivals (every 10th and the last 20)
                if n % 10 == 0 or n >= len(order) - 20:
                    self.check_block(cs, chain, bid, w, order_name)
                    for ob in rng.sample(order[:n + 1], min(2, n + 1)):
                        self.check_block(cs, chain, ob, w, order_name)
                continue
            if check_every or n == len(order) - 1:
                exp_bal = self.check_block(cs, chain, bid, w, order_name)
                # a couple of older blocks, re-read from the newest state
                for ob in rng.sample(order[:n + 1], min(2, n + 1)):
                    self.check_block(cs, chain, ob, w, order_name)
                # wallet view at the head
                head_bal = self.check_block(cs, chain, cs.current_chain_hash, w, order_name) \
                    if cs.current_chain_hash != bid else exp_bal
                ks = rng.sample(world.keys, rng.randint(1, len(world.keys)))
                wal = Wallet({pk: sk for sk, pk in ks}, [pk for _s, pk in ks[:len(ks) // 2]],
                             {pk: "x" for _s, pk in ks[len(ks) // 2:]})
                self.c["wallet_balances_compared"] += 1
                want = sum(head_bal.get(pk, (0, []))[0] for _s, pk in ks)
                try:
                    got = wal.get_balance(cs)
                except Exception as e:
                    self.v("balances-cannot-be-reported-for-a-stored-block", "Wallet.get_balance at the head raises %s: %s" % (
                        type(e).__name__, str(e)[:80]), w)
                    got = want
                if got != want:
                    self.v("wallet-balance-differs", "Wallet.get_balance=%d, unspent outputs paying its keys total %d" % (
                        got, want), w)
            if n % 7 == 6:
                self.recheck(snaps, w)
        self.recheck(snaps, w)
        self.c["max_forks"] = max(self.c["max_forks"], len(cs.heads))
        return cs

    def recheck(self, snaps, w):
        for (s, fp) in snaps:
            self.c["snapshots_rechecked"] += 1
            if gen.fingerprint(s) != fp:
                self.v("earlier-snapshot-changed", "a chain-state object obtained earlier changed after later additions", w)


def topo_orders(chain, ids, rng, k):
    """k random parent-before-child orders of ids (ids exclude genesis)"""
    out = []
    idset = set(ids)
    for _ in range(k):
        placed = set()
        remaining = list(ids)
        order = []
        while remaining:
            ready = [b for b in remaining if chain.blocks[b].prev not in idset or chain.blocks[b].prev in placed]
            pick = rng.choice(ready) if rng.random() < 0.8 else ready[-1]
            order.append(pick)
            placed.add(pick)
            remaining.remove(pick)
        out.append(order)
    return out


def all_topo_orders(chain, ids):
    idset = set(ids)

    def rec(placed, remaining):
        if not remaining:
            yield list(placed)
            return
        for b in remaining:
            p = chain.blocks[b].prev
            if p not in idset or p in placed:
                yield from rec(placed + [b], [x for x in remaining if x != b])
    return rec([], list(ids))


def run_tree(mon, rng, nblocks, norders, seed_name, exhaustive_orders=False, tall=False):
    world = gen.World(rng)
    world.odd_reward_prob = rng.choice([0.0, 0.3, 0.6])     # valid rewards split over keys / with zero-valued outputs
    if tall:
        # a chain well above 32 / 64 blocks (sizes at which hash-trie containers change their iteration order) with a few
        # forks near the top; spends reach back to outputs created long before
        ids = world.grow(nblocks - 8, rng, tx_prob=0.75, bias="linear")
        ids += world.grow(8, rng, tx_prob=0.75, bias="mixed")
        mon.c["tall_trees"] = mon.c.get("tall_trees", 0) + 1
        mon.c["max_height_seen"] = max(mon.c.get("max_height_seen", 0), max(world.chain.blocks[b].height for b in ids))
    else:
        ids = world.grow(nblocks, rng, tx_prob=0.75, bias="mixed")
    mon.c["trees"] += 1
    mon.c["blocks_with_unusual_reward"] = mon.c.get("blocks_with_unusual_reward", 0) + world.counters.get("odd_rewards", 0)
    mon.c["pending_tx_in_sibling_forks"] += world.counters.get("pending_tx_reused", 0)
    mon.c["blocks_with_transactions"] += sum(1 for b in ids if len(world.chain.blocks[b].txs) > 1)
    w = {"blocks": gen.blocks_hex(world, ids)}
    mon.digests.add(digest("tree", b"".join(ids)))
    if exhaustive_orders:
        mon.c["all_orders_trees"] += 1
        orders = list(itertools.islice(all_topo_orders(world.chain, ids), 800))
    else:
        orders = [ids] + topo_orders(world.chain, ids, rng, norders - 1)
    for j, order in enumerate(orders):
        ww = dict(w, order=[ids.index(b) for b in order])
        mon.digests.add(digest("order", b"".join(order)))
        mon.run_order(world, order, ww, "generation" if j == 0 else "permuted", validate=(j % 2 == 0), rng=rng,
                      check_every=(j < 3))
    if len(mon.samples) < 1:
        mon.samples.append({"tree_parents": [ids.index(world.chain.blocks[b].prev) if world.chain.blocks[b].prev in ids
                                              else -1 for b in ids],
                            "tx_per_block": [len(world.chain.blocks[b].txs) - 1 for b in ids], "orders": len(orders)})


def two_thread_lane(mon, rng, ntrees, npoints=14):
    """the chain state object is shared by the node's threads (networking, miner watcher, wallet/repl): two of them ask it
    for balances at overlapping times -- the same block or blocks of different forks, neither asked before.  Thread A is held
    at a source location of the ledger modules while thread B's query completes on the SAME state object; both must report
    what a lone query reports, and so must the queries made afterwards on that object"""
    import skepticoin.balances as bal
    import skepticoin.coinstate as csm
    from skv import preempt
    pre = preempt.Preempter([bal, csm])
    if not pre.ok:
        mon.c["two_thread_tool_slot_taken"] = 1
        return
    state = preempt.ModuleState([bal, csm])

    def view(cs, bid):
        return {pk.public_key: (b.value, sorted((r.hash, r.index) for r in b.output_references))
                for pk, b in cs.public_key_balances_by_hash[bid].items()}
    try:
        for _ in range(ntrees):
            world = gen.World(rng)
            ids = world.grow(rng.choice([8, 14, 20]), rng, tx_prob=0.8, bias="mixed")
            tips = sorted(world.chain.tips())
            head = world.cs.current_chain_hash
            pairs = [(head, head), (head, rng.choice(ids)), (rng.choice(ids), head)]
            if len(tips) > 1:
                other = rng.choice([t for t in tips if t != head])
                pairs += [(head, other), (other, head)]
            for x, y in pairs:
                exp_x = {}
                for r, (v, k) in world.chain.replay_uncached(x).items():
                    t0, refs = exp_x.get(k, (0, []))
                    exp_x[k] = (t0 + v, sorted(refs + [r]))
                setup = (lambda: world.state_at(head))
                ja = (lambda cs, b=x: view(cs, b))
                jb = (lambda cs, b=y: view(cs, b))
                for t in preempt.trials(pre, state, setup, ja, jb, rng, npoints):
                    mon.c["two_thread_trials"] = mon.c.get("two_thread_trials", 0) + 1
                    if isinstance(t["want_a"], preempt.Raised) or {k: v for k, v in t["want_a"].items() if v[1]} != exp_x:
                        continue        # (a lone query already disagrees with the replay: the arrival-order lanes report that)
                    for who, got, want in preempt.disagreements(t):
                        w = {"blocks": gen.blocks_hex(world, ids), "lane": "two-threads", "block_a": ids.index(x) if x in ids else -1,
                             "block_b": ids.index(y) if y in ids else -1, "switch_at_event": t["k"], "of_events": t["total"]}
                        if isinstance(got, preempt.Raised):
                            mon.v("balances-cannot-be-reported-for-a-stored-block", "%s: asking one chain state for balances from two "
                                  "threads raises %r" % (who, got.e), w)
                        else:
                            bad = [k for k in set(got) | set(want) if got.get(k) != want.get(k)]
                            mon.v("balances-depend-on-another-threads-query", "%s: balances at a block (h=%d) differ from what a lone "
                                  "query reports for %d keys when two threads ask the same chain state at once (other block h=%d; "
                                  "switch at event %d of %d), e.g. balance %s instead of %s" % (
                                      who, world.chain.blocks[x if "A" in who else y].height, len(bad),
                                      world.chain.blocks[y if "A" in who else x].height, t["k"], t["total"],
                                      got.get(bad[0], (None,))[0] if bad else None, want.get(bad[0], (None,))[0] if bad else None), w)
                        break
    finally:
        pre.close()


def deep_reorganisation(mon, rng):
    """a chain of 104-130 blocks, a competing chain from (near) genesis that overtakes it -- a reorganisation more than 100
    blocks deep -- and then LATE blocks on blocks buried deep in the abandoned chain, spending outputs that exist only there"""
    world = gen.World(rng)
    L = rng.choice([104, 112, 130])

    def extend(pid, n, tx_prob):
        out = []
        for _ in range(n):
            parent = world.chain.blocks[pid]
            rtxs = []
            if rng.random() < tx_prob:
                t = world.make_rtx(pid, rng)
                if t is not None:
                    rtxs.append(t)
            rb, real = world.assemble(pid, rtxs, parent.ts + rng.choice([1, 60]), rng.choice(world.keys)[1], route="ref")
            # (kept out of the generator's own real state: the arrival-order run below is where the code under test adds it)
            b = world.accept(rb, real, cs=world.cs)
            out.append(b)
            pid = b
        return out
    A = extend(world.gid, L, 0.3)
    if len(A) < L:
        return
    fork = rng.choice([world.gid, A[1], A[4]])
    B = extend(fork, L + 1 - world.chain.blocks[fork].height, 0.1)
    late = []
    for base in (A[19], A[29], A[rng.randrange(40, L - 5)], A[19]):
        late += extend(base, rng.choice([1, 2]), 0.9)
    ids = A + B + late
    mon.c["trees"] += 1
    mon.c["deep_reorganisation_trees"] = mon.c.get("deep_reorganisation_trees", 0) + 1
    w = {"blocks": gen.blocks_hex(world, ids), "order": list(range(len(ids)))}
    mon.digests.add(digest("deep", b"".join(ids)))
    mon.run_order(world, ids, w, "generation", validate=False, rng=rng, light=True)


def replay(mon, w, rng):
    """re-executes a recorded tree/order against the current code"""
    world = gen.World(rng)
    ids = []
    for hx in w["blocks"]:
        rb = ref.parse_block(bytes.fromhex(hx))
        ids.append(world.accept(rb, bridge.rblock_to_real(rb), validate=False))
    if w.get("lane") == "two-threads":
        two_thread_lane(mon, rng, 4)        # (the lane is re-run: the recorded tree is for the reader)
        return
    order = [ids[i] for i in w.get("order", range(len(ids)))]
    mon.run_order(world, order, w, "replay", validate=False, rng=rng)



def _replay_route_story(spec):
    from skv.props import c09
    env.boot()
    mon = c09.route_histories(random.Random(1), 8, 14, c09.all_classes(), "replay-route", story_share=0.8)
    return {"evaluations": mon.c.get("deliveries", 0), "distinct": mon.c.get("download_route_stories", 0),
            "violations": [{"key": "node-route:" + v["key"], "msg": v["msg"], "witness": v["witness"]} for v in mon.viol[:6]],
            "counters": {"route_lane_stories": mon.c.get("download_route_stories", 0)}, "digests": []}

def run_shard(spec):
    if "replay" in spec and isinstance(spec["replay"], dict) and spec["replay"].get("kind") == "download-route-story":
        # (the story is re-run with this check's classes on the current tree; the recorded chain is for the reader)
        return _replay_route_story(spec)
    env.boot()
    mon = Monitor()
    if "replay" in spec:
        replay(mon, spec["replay"], random.Random(0))
    else:
        rng = random.Random("c03/%d/%d" % (spec["seed"], spec["shard"]))
        quick = spec["tier"] == "quick"
        for j in range(3 if quick else 60):
            run_tree(mon, rng, rng.choice([8, 14, 20, 30, 40]), 4 if quick else 8, "t%d" % j)
        for j in range(2 if quick else 30):
            run_tree(mon, rng, rng.choice([4, 5, 6]), 0, "s%d" % j, exhaustive_orders=True)
        for j in range(1 if quick else 6):
            run_tree(mon, rng, rng.choice([44, 70, 100]), 2, "tall%d" % j, tall=True)
        if spec["shard"] % 2 == 0 or not quick:
            deep_reorganisation(mon, rng)
        two_thread_lane(mon, rng, 1 if quick else 10)
        if spec["shard"] % 4 == 3:
            from skv import cstream
            route_lane(mon.v, mon.c, rng, 3 if quick else 20, dict(cstream.C01_CLASSES), "c03r")
    return {"evaluations": mon.c["adds"], "digests": sorted(mon.digests), "violations": mon.viol, "counters": mon.c,
            "samples": mon.samples}


def route_lane(add_violation, counters, rng, nhist, classes, tag):
    """this property on the routes by which a RUNNING NODE takes blocks (relay and download, real store): histories in which the
    node had asked a peer for blocks, blocks were announced, arrived unrequested, late, before their parent, or again with another
    body (the stories of skv/props/c09.py), built from this check's classes of rule-breaking blocks"""
    from skv.props import c09
    mon = c09.route_histories(rng, nhist, 14, classes, tag)
    counters["route_lane_deliveries"] = counters.get("route_lane_deliveries", 0) + mon.c.get("deliveries", 0)
    counters["route_lane_stories"] = counters.get("route_lane_stories", 0) + mon.c.get("download_route_stories", 0)
    for k_, v_ in mon.c.items():
        if k_.startswith("story:"):
            counters["route_" + k_] = counters.get("route_" + k_, 0) + v_
    for v in mon.viol:
        add_violation("node-route:" + v["key"], v["msg"], v["witness"])


def finalize(m, tier):
    c = m["counters"]
    return {
        "rule": "random block trees (8-40 blocks, forks of any shape, spends that differ between forks, pending "
                "transactions re-mined on sibling forks) x several random parent-before-child arrival orders (all orders "
                "for trees of <= 6 blocks, capped at 800); distinct = distinct trees + distinct arrival orders by digest; "
                "non-trivial = trees with transactions (counted)",
        "floors": [("arrival_orders", c.get("arrival_orders", 0), 100), ("uto_maps_compared", c.get("uto_maps_compared", 0), 2000),
                   ("blocks_with_transactions", c.get("blocks_with_transactions", 0), 200),
                   ("reorganisations", c.get("reorganisations", 0), 50),
                   ("snapshots_rechecked", c.get("snapshots_rechecked", 0), 5000), ("tall_trees", c.get("tall_trees", 0), 10),
                   ("deep_reorganisation_trees", c.get("deep_reorganisation_trees", 0), 6),
                   ("two_thread_trials", c.get("two_thread_trials", 0), 500)],
        "extra": {"auxiliary_lane": "one shard runs under -X dev -X faulthandler (CPython debug allocator); auxiliary only"},
    }
