"""C13 - the pending-transaction pool holds only valid, mutually compatible transactions.

Invariant-at-hook: after every pool-affecting operation of a real node (API submission, wire
submission, block delivery, direct state replacement incl. fork switches) the snapshot returned by the
lock-holding get_state() is judged by the reference ledger at the snapshot's head.  Auxiliary stress
lane with real threads (2 submitters, 1 head changer, 1 sampler)."""
import random
import sys
import threading
import time

from skv import env, ref, gen, bridge, nodekit, cstream
from skv.runner import digest

PROPERTY = "C13"
LEVEL = "exploration"
NSHARD = 16
SHARD_TIMEOUT = {"quick": 900, "thorough": 3600}


def shards(tier, seed):
    out = [{"shard": i, "tier": tier, "seed": seed, "lane": "seq"} for i in range(NSHARD - 2)]
    out += [{"shard": 90 + i, "tier": tier, "seed": seed, "lane": "threads"} for i in range(2)]
    return out


# ---- transaction submissions: (world, head, pool_rtxs, rng) -> RTx or None
def t_valid(world, head, pool, rng):
    used = {r for t in pool for r in t.refs()}
    return world.make_rtx(head, rng, exclude=used)


def t_conflicting(world, head, pool, rng):
    if not pool:
        return None
    victim = rng.choice(pool)
    led = world.ledger(head)
    refs = [r for r in victim.refs() if r in led and led[r][1] in world.sk_by_pk]
    if not refs:
        return None
    r = rng.choice(refs)
    v, k = led[r]
    if v < 2:
        return None
    spend = [(r, v, k)]
    extra = cstream.pick_own(world, head, rng, exclude={x for t in pool for x in t.refs()})
    if extra and rng.random() < 0.5:
        spend.append(extra[0])
    return world.make_rtx(head, rng, spend=spend)


def t_duplicate(world, head, pool, rng):
    return rng.choice(pool) if pool else None


def _own(world, head, pool, rng, n=1):
    return cstream.pick_own(world, head, rng, n=n, exclude={x for t in pool for x in t.refs()})


def t_no_outputs(world, head, pool, rng):
    own = _own(world, head, pool, rng)
    return cstream.sign_each(world, cstream.unsigned_tx([own[0][0]], []), [own[0][2]], rng) if own else None


def t_no_inputs(world, head, pool, rng):
    return ref.RTx([], [(5, rng.choice(world.keys)[1])])


def t_zero_output(world, head, pool, rng):
    own = _own(world, head, pool, rng)
    if not own:
        return None
    return cstream.sign_each(world, cstream.unsigned_tx([own[0][0]], [(0, world.keys[0][1]), (own[0][1] - 1, world.keys[1][1])]),
                             [own[0][2]], rng)


def t_dup_ref(world, head, pool, rng):
    own = _own(world, head, pool, rng)
    if not own:
        return None
    r, v, k = own[0]
    return cstream.sign_each(world, cstream.unsigned_tx([r, r], [(v // 2, world.keys[0][1])]), [k, k], rng)


def t_null_ref(world, head, pool, rng):
    own = _own(world, head, pool, rng)
    if not own:
        return None
    r, v, k = own[0]
    return cstream.sign_each(world, cstream.unsigned_tx([r, (ref.ZERO32, 0)], [(v, world.keys[0][1])]), [k, k], rng)


def t_placeholder_sig(world, head, pool, rng):
    own = _own(world, head, pool, rng)
    if not own:
        return None
    r, v, k = own[0]
    return ref.RTx([(r[0], r[1], rng.choice([(ref.SIG_EQ,), (ref.SIG_CB, 3, b"x")]))], [(v, world.keys[0][1])])


def t_wrong_key(world, head, pool, rng):
    own = _own(world, head, pool, rng)
    if not own:
        return None
    r, v, k = own[0]
    other = rng.choice([kk for _s, kk in world.keys if kk != k])
    return cstream.sign_each(world, cstream.unsigned_tx([r], [(v, world.keys[0][1])]), [other], rng)


def t_altered_after_signing(world, head, pool, rng):
    t = t_valid(world, head, pool, rng)
    if t is None or t.outputs[0][0] < 2:
        return None
    outs = list(t.outputs)
    outs[0] = (outs[0][0] - 1, outs[0][1])
    return ref.RTx(t.inputs, outs)


def t_missing_input(world, head, pool, rng):
    k = rng.choice(world.keys)[1]
    return cstream.sign_each(world, cstream.unsigned_tx([(rng.getrandbits(256).to_bytes(32, "big"), 0)], [(5, k)]), [k], rng)


def t_already_mined_input(world, head, pool, rng):
    spent = cstream.ancestors_spent(world, head)
    rng.shuffle(spent)
    for r in spent:
        info = cstream.creation_info(world, r)
        if info and info[1] in world.sk_by_pk and info[0] > 1:
            return cstream.sign_each(world, cstream.unsigned_tx([r], [(info[0] - 1, world.keys[0][1])]), [info[1]], rng)
    return None


def t_overspend(world, head, pool, rng):
    own = _own(world, head, pool, rng)
    if not own:
        return None
    r, v, k = own[0]
    return cstream.sign_each(world, cstream.unsigned_tx([r], [(v + 1, world.keys[0][1])]), [k], rng)


def t_other_fork_only(world, head, pool, rng):
    anc = set(world.chain.ancestors(head))
    led = world.ledger(head)
    for ob in sorted(b for b in world.chain.order if b not in anc):
        oled = world.ledger(ob)
        c = sorted(r for r, (v, k) in oled.items() if r not in led and k in world.sk_by_pk and v > 1)
        if c:
            r = rng.choice(c)
            v, k = oled[r]
            return cstream.sign_each(world, cstream.unsigned_tx([r], [(v - 1, world.keys[0][1])]), [k], rng)
    return None


def t_non_point_key(world, head, pool, rng):
    led = world.ledger(head)
    c = sorted(r for r, (v, k) in led.items() if k in world.bad_keys and v > 0)
    if not c:
        return None
    r = rng.choice(c)
    return cstream.sign_each(world, cstream.unsigned_tx([r], [(led[r][0], world.keys[0][1])]), [None], rng)


EVER_VALID = []          # valid transactions the node under test has verified earlier in this process (bounded)


def t_forged_twin(world, head, pool, rng):
    """a twin of a transaction whose signatures this process verified before (it was pooled once, or sits in a validated
    block of another branch) and that would be valid at the head right now: same spent references, same outputs, but
    other bytes where the signatures belong"""
    led = world.ledger(head)
    pool_refs = {r for x in pool for r in x.refs()}
    cands = [t for b in world.chain.order[1:] for t in world.chain.blocks[b].txs[1:]] + EVER_VALID[-60:]
    rng.shuffle(cands)
    for t in cands[:80]:
        if set(t.refs()) & pool_refs or any(r not in led for r in t.refs()):
            continue
        if ref.tx_codes_by_itself(t) | ref.tx_codes_in_ledger(t, led):
            continue
        mode = rng.choice(["random", "flip", "swap"])
        ins = []
        for n, (h, i, sg_) in enumerate(t.inputs):
            if sg_[0] != ref.SIG_EC:
                return None
            sig = bytearray(sg_[1])
            if mode == "random":
                sig = bytearray(rng.getrandbits(8) for _ in range(len(sig)))
            elif mode == "flip" or len(t.inputs) < 2:
                sig[rng.randrange(len(sig))] ^= 1 << rng.randrange(8)
            else:
                sig = bytearray(t.inputs[(n + 1) % len(t.inputs)][2][1])      # the signature of the neighbouring input
            ins.append((h, i, (ref.SIG_EC, bytes(sig))))
        twin = ref.RTx(ins, list(t.outputs))
        if ref.tx_codes_by_itself(twin) | ref.tx_codes_in_ledger(twin, led):
            return twin
    return None


SUBMISSIONS = {
    "forged-twin-of-verified": t_forged_twin,
    "valid": t_valid, "conflicting-with-pooled": t_conflicting, "duplicate-of-pooled": t_duplicate,
    "no-outputs": t_no_outputs, "no-inputs": t_no_inputs, "zero-value-output": t_zero_output,
    "reference-twice": t_dup_ref, "null-reference": t_null_ref, "placeholder-signature": t_placeholder_sig,
    "signed-by-other-key": t_wrong_key, "altered-after-signing": t_altered_after_signing,
    "missing-input": t_missing_input, "already-mined-input": t_already_mined_input, "overspend": t_overspend,
    "valid-on-other-fork-only": t_other_fork_only, "output-locked-to-non-point": t_non_point_key,
}


def pool_verdict(world, head, pool_rtxs):
    """(list of problems) for a pool snapshot at head, by the reference"""
    led = world.ledger(head)
    problems = []
    seen = {}
    for n, t in enumerate(pool_rtxs):
        codes = ref.tx_codes_by_itself(t) | ref.tx_codes_in_ledger(t, led)
        if codes:
            problems.append(("invalid", n, sorted(codes)))
        for r in t.refs():
            if r in seen and seen[r] != n:
                problems.append(("shared-reference", n, seen[r]))
            seen[r] = n
    return problems


class Monitor:
    def __init__(self):
        self.viol = []
        self.c = {"sequences": 0, "operations": 0, "snapshots_checked": 0, "submissions_api": 0, "submissions_wire": 0,
                  "admitted": 0, "refused": 0, "valid_refused": 0, "by_submission": {}, "head_changes": 0,
                  "head_changes_by_block_delivery": 0, "head_changes_by_state_replacement": 0, "fork_switches": 0,
                  "evictions": 0, "survivors_after_head_change": 0, "max_pool": 0, "submission_raised": 0,
                  "blocks_confirming_pooled": 0, "blocks_conflicting_with_pooled": 0, "distinct_states": 0}
        self.digests = set()
        self.samples = []

    def v(self, key, msg, w):
        self.reported = getattr(self, "reported", 0) + 1
        if sum(1 for x in self.viol if x["key"] == key) < 3:
            self.viol.append({"key": key, "msg": msg, "witness": w})


class Seq:
    def __init__(self, mon, rng, idx):
        self.mon, self.rng = mon, rng
        self.world = world = gen.World(rng, nkeys=6)
        world.bad_key_prob = 0.08
        world.odd_reward_prob = rng.choice([0.0, 0.25])
        world.grow(rng.choice([8, 12, 18]), rng, tx_prob=0.6, bias="mixed")
        self.sn = nodekit.SingleNode(world, rng, "c13-%d" % idx, npeers=2)
        self.ops = []
        self.refused = []
        self.w = {"chain": gen.blocks_hex(world, world.chain.order[1:]), "ops": self.ops}

    def snapshot(self):
        cs, pool = self.sn.cm.get_state()
        return cs.current_chain_hash, [bridge.real_to_rtx(t) for t in list(pool)]

    def check_invariant(self, after):
        mon = self.mon
        head, pool = self.snapshot()
        mon.c["snapshots_checked"] += 1
        mon.c["max_pool"] = max(mon.c["max_pool"], len(pool))
        d = digest(head, b"".join(sorted(t.id() for t in pool)))
        if d not in mon.digests:
            mon.digests.add(d)
            mon.c["distinct_states"] += 1
        for p in pool_verdict(self.world, head, pool):
            if p[0] == "invalid":
                mon.v("pool-holds-invalid-transaction:" + "+".join(p[2]), "after %s: pooled transaction #%d is invalid at the "
                      "head (%s)" % (after, p[1], p[2]), dict(self.w))
            else:
                mon.v("pool-holds-conflicting-transactions", "after %s: pooled transactions #%d and #%d spend the same output" % (
                    after, p[1], p[2]), dict(self.w))
        esc = self.sn.escaped()
        if esc:
            mon.v("exception-escaped-event-handler", esc[0][:300], dict(self.w))
        return head, pool

    def submit(self, name, via):
        mon, c, world, rng = self.mon, self.mon.c, self.world, self.rng
        head, pool = self.snapshot()
        if name == "resubmit-refused":
            # a transaction refused earlier is submitted again (verdicts must not depend on what was seen before)
            t = rng.choice(self.refused)[0] if self.refused else None
        else:
            try:
                t = SUBMISSIONS[name](world, head, pool, rng)
            except Exception:
                t = None
        if t is None:
            return
        c["operations"] += 1
        c["by_submission"][name] = c["by_submission"].get(name, 0) + 1
        led = world.ledger(head)
        codes = ref.tx_codes_by_itself(t) | ref.tx_codes_in_ledger(t, led)
        pool_refs = {r for x in pool for r in x.refs()}
        conflict = bool(set(t.refs()) & pool_refs)
        ok_expected = not codes and not conflict
        real = bridge.rtx_to_real(t)
        self.ops.append(["submit", via, name, t.enc().hex()])
        # in a quarter of the submissions the debugging copy the node writes of every refused transaction cannot be written
        # (disk full): whatever that does to the submitter, a refused transaction stays out of the pool
        disk = getattr(self.sn, "disk", None)
        if disk is not None:
            disk.fail_debug_copy = rng.random() < 0.25
            if disk.fail_debug_copy:
                self.ops[-1].append("debug-copy-fails")
        if via == "api":
            c["submissions_api"] += 1
            try:
                res = self.sn.cm.add_transaction_to_pool(real)
            except Exception as e:
                res = None
                c["submission_raised"] += 1
        else:
            c["submissions_wire"] += 1
            raw = rng.choice(self.sn.active() or [self.sn.add_peer()])
            raw.push(self.sn.wire.transaction(real))
            self.sn.settle(fragment=rng.random() < 0.3)
            res = "wire"
            while len(self.sn.active()) < 2:
                self.sn.add_peer()
        if disk is not None:
            disk.fail_debug_copy = False
            c["debug_copies_that_could_not_be_written"] = disk.debug_copy_failures
        head2, pool2 = self.check_invariant("submission of a %s transaction via %s" % (name, via))
        ids_before = [x.id() for x in pool]
        ids_after = [x.id() for x in pool2]
        admitted = ids_after == ids_before + [t.id()] and t.id() not in ids_before
        if admitted:
            c["admitted"] += 1
            if ok_expected and len(EVER_VALID) < 5000:
                EVER_VALID.append(t)
            if not ok_expected:
                self.mon.v("invalid-or-conflicting-transaction-admitted:" + ("conflict" if conflict else "+".join(sorted(codes))),
                           "%s transaction admitted via %s (reference: %s, shares a reference with the pool: %s)" % (
                               name, via, sorted(codes), conflict), dict(self.w))
            if res is False:
                self.mon.v("pool-changed-although-submission-refused", "", dict(self.w))
        else:
            c["refused"] += 1
            if name != "resubmit-refused" and len(self.refused) < 200:
                self.refused.append((t, name))
            if ok_expected and t.id() not in ids_before:
                c["valid_refused"] += 1
            if ids_after != ids_before:
                self.mon.v("refused-submission-changed-pool", "%s via %s: pool changed from %d to %d entries although the "
                           "transaction was not admitted" % (name, via, len(ids_before), len(ids_after)), dict(self.w))
            if res is True:
                self.mon.v("submission-reported-success-but-not-pooled", name, dict(self.w))

    def submit_tx(self, t, name):
        """API submission of a given transaction with the admission oracle (used by the small-scope lane)"""
        c, world = self.mon.c, self.world
        head, pool = self.snapshot()
        c["operations"] += 1
        c["by_submission"][name] = c["by_submission"].get(name, 0) + 1
        led = world.ledger(head)
        codes = ref.tx_codes_by_itself(t) | ref.tx_codes_in_ledger(t, led)
        conflict = bool(set(t.refs()) & {r for x in pool for r in x.refs()})
        self.ops.append(["submit", "api", name, t.enc().hex()])
        c["submissions_api"] += 1
        try:
            res = self.sn.cm.add_transaction_to_pool(bridge.rtx_to_real(t))
        except Exception:
            res = None
            c["submission_raised"] += 1
        _h2, pool2 = self.check_invariant("submission (%s)" % name)
        ids_before, ids_after = [x.id() for x in pool], [x.id() for x in pool2]
        admitted = ids_after == ids_before + [t.id()] and t.id() not in ids_before
        if admitted:
            c["admitted"] += 1
            if codes or conflict:
                self.mon.v("invalid-or-conflicting-transaction-admitted:" + ("conflict" if conflict else "+".join(sorted(codes))),
                           "%s: admitted (reference: %s, conflict: %s)" % (name, sorted(codes), conflict), dict(self.w))
        else:
            c["refused"] += 1
            if name != "resubmit-refused":
                self.refused.append((t, name))
            if ids_after != ids_before:
                self.mon.v("refused-submission-changed-pool", "%s: pool changed although the transaction was not admitted" % name, dict(self.w))
            if res is True:
                self.mon.v("submission-reported-success-but-not-pooled", name, dict(self.w))

    def after_head_change(self, head, pool, mode):
        c, world = self.mon.c, self.world
        c["operations"] += 1
        h2, pool2 = self.check_invariant("head change (%s)" % mode)
        if h2 != head:
            c["head_changes"] += 1
            c["head_changes_by_state_replacement"] += 1
            if h2 not in set(world.chain.ancestors(head)) and head not in set(world.chain.ancestors(h2)):
                c["fork_switches"] += 1
            led2 = world.ledger(h2)
            exp = [t.id() for t in pool if not (ref.tx_codes_in_ledger(t, led2) | ref.tx_codes_by_itself(t))]
            got = [t.id() for t in pool2]
            c["evictions"] += len(pool) - len(exp)
            c["survivors_after_head_change"] += len(exp)
            if got != exp:
                missing = [x for x in exp if x not in got]
                extra = [x for x in got if x not in exp]
                key = "still-valid-transaction-evicted" if missing and not extra else "pool-after-head-change-wrong"
                self.mon.v(key, "after head change (%s): pool has %d entries; %d of the %d previous ones are still valid; %d valid "
                           "ones missing, %d unexpected" % (mode, len(got), len(exp), len(pool), len(missing), len(extra)), dict(self.w))

    def head_change(self):
        mon, c, world, rng, sn = self.mon, self.mon.c, self.world, self.rng, self.sn
        head, pool = self.snapshot()
        mode = rng.choice(["extend-confirm", "extend-conflict", "extend-plain", "replace-any", "replace-other-tip", "fork-overtake"])
        c["operations"] += 1
        new_head = None
        if mode.startswith("extend"):
            led = world.ledger(head)
            rtxs = []
            if mode == "extend-confirm" and pool:
                rtxs = rng.sample(pool, rng.randint(1, len(pool)))
                c["blocks_confirming_pooled"] += 1
            elif mode == "extend-conflict" and pool:
                t = t_conflicting(world, head, [rng.choice(pool)], rng)
                if t is not None:
                    rtxs = [t]
                    c["blocks_conflicting_with_pooled"] += 1
            parent = world.chain.blocks[head]
            sn.net.clock.t = world.now = max(world.now, parent.ts + 200)
            rb, real = world.assemble(head, rtxs, parent.ts + rng.choice([1, 60]), rng.choice(world.keys)[1])
            self.ops.append(["deliver-block", rb.enc().hex()])
            raw = rng.choice(sn.active() or [sn.add_peer()])
            raw.push(sn.wire.block(real))
            sn.settle()
            if rb.id() in sn.cm.coinstate.block_by_hash:
                world.cs = world.cs.add_block_no_validation(real)
                world.accept(rb, real, cs=world.cs)
                c["head_changes_by_block_delivery"] += 1
            new_head = sn.cm.coinstate.current_chain_hash
        elif mode == "fork-overtake":
            tips = [t for t in sorted(world.cs.heads.keys()) if t != head]
            if not tips:
                return
            tip = max(tips, key=lambda t: world.chain.blocks[t].height)
            hh = world.chain.blocks[head].height
            cur = tip
            while world.chain.blocks[cur].height <= hh:
                parent = world.chain.blocks[cur]
                sn.net.clock.t = world.now = max(world.now, parent.ts + 200)
                rb, real = world.assemble(cur, [], parent.ts + 30, rng.choice(world.keys)[1])
                self.ops.append(["deliver-block", rb.enc().hex()])
                raw = rng.choice(sn.active() or [sn.add_peer()])
                raw.push(sn.wire.block(real))
                sn.settle()
                if rb.id() not in sn.cm.coinstate.block_by_hash:
                    break
                world.cs = world.cs.add_block_no_validation(real)
                world.accept(rb, real, cs=world.cs)
                cur = rb.id()
            new_head = sn.cm.coinstate.current_chain_hash
            if new_head != head:
                c["fork_switches"] += 1
                c["head_changes_by_block_delivery"] += 1
        else:
            cands = sorted(world.cs.heads.keys()) if mode == "replace-other-tip" else world.chain.order[1:]
            cands = [b for b in cands if b != head]
            if not cands:
                return
            target = rng.choice(cands)
            self.ops.append(["set-coinstate", target.hex()])
            sn.cm.set_coinstate(world.state_at(target, cs=sn.cm.coinstate), validated=rng.random() < 0.7)
            new_head = target
            c["head_changes_by_state_replacement"] += 1
            if target not in set(world.chain.ancestors(head)) and head not in set(world.chain.ancestors(target)):
                c["fork_switches"] += 1
        h2, pool2 = self.check_invariant("head change (%s)" % mode)
        if h2 != head:
            c["head_changes"] += 1
            led2 = world.ledger(h2)
            exp = [t.id() for t in pool if not (ref.tx_codes_in_ledger(t, led2) | ref.tx_codes_by_itself(t))]
            got = [t.id() for t in pool2]
            c["evictions"] += len(pool) - len(exp)
            c["survivors_after_head_change"] += len(exp)
            if got != exp:
                missing = [x for x in exp if x not in got]
                extra = [x for x in got if x not in exp]
                key = "still-valid-transaction-evicted" if missing and not extra else "pool-after-head-change-wrong"
                self.mon.v(key, "after head change (%s): pool has %d entries; %d of the %d previous ones are still valid; %d valid "
                           "ones missing, %d unexpected" % (mode, len(got), len(exp), len(pool), len(missing), len(extra)), dict(self.w))

    def fall_back_after_bulk_blocks(self):
        """a head change BACKWARDS: blocks arrive as bulk-download replies (taken without in-state validation), a transaction
        spending an output created in them is admitted, then a relayed block breaking a chain rule makes the node fall back to
        what it had validated -- at that head the transaction's input does not exist, so it must leave the pool"""
        mon, c, world, rng, sn = self.mon, self.mon.c, self.world, self.rng, self.sn
        head, pool = self.snapshot()
        if head not in world.chain.blocks:
            return
        tmp = world.fork()
        cur = head
        blocks = []
        try:
            for _ in range(rng.choice([1, 2, 3])):
                parent = tmp.chain.blocks[cur]
                rb, real = tmp.assemble(cur, [], parent.ts + 1, rng.choice(tmp.keys)[1], route="ref")
                if tmp.accept(rb, real, validate=False) is None:
                    return
                blocks.append((rb, real))
                cur = rb.id()
            src = blocks[0][0]
            v, k = src.txs[0].outputs[0]
            if v < 2 or k not in tmp.sk_by_pk:
                return
            t = cstream.sign_each(tmp, cstream.unsigned_tx([(src.txs[0].id(), 0)], [(v - 1, tmp.keys[0][1])]), [k], rng)
            built = cstream.v_reward_plus_one(tmp, cur, rng)
        except Exception:
            return
        if built is None:
            return
        bad = built[0]
        sn.net.clock.t = world.now = max(world.now, bad.ts + 10)
        raw = rng.choice(sn.active() or [sn.add_peer()])
        for j, (rb, real) in enumerate(blocks):
            raw.push(sn.wire.block(real, in_response_to=5000 + j))
        sn.settle()
        if sn.cm.coinstate.current_chain_hash != cur:
            return          # (the bulk blocks were not taken: nothing to fall back from)
        c["operations"] += 1
        self.ops.append(["bulk-blocks", [rb.enc().hex() for rb, _r in blocks]])
        admitted = False
        try:
            admitted = bool(sn.cm.add_transaction_to_pool(bridge.rtx_to_real(t)))
        except Exception:
            pass
        self.ops.append(["submit", "api", "spend-of-bulk-block-output", t.enc().hex()])
        self.ops.append(["relay-rule-breaking-block", bad.enc().hex()])
        rng.choice(sn.active() or [sn.add_peer()]).push(sn.wire.block(bridge.rblock_to_real(bad)))
        sn.settle()
        while len(sn.active()) < 2:
            sn.add_peer()
        c["fall_backs_after_bulk_blocks"] = c.get("fall_backs_after_bulk_blocks", 0) + 1
        if admitted:
            c["fall_backs_with_dependent_transaction_pooled"] = c.get("fall_backs_with_dependent_transaction_pooled", 0) + 1
        if sn.cm.coinstate.current_chain_hash not in world.chain.blocks:
            # the node kept blocks the harness world does not know (not this property's subject): re-align and go on
            sn.store.write_buffer.clear()
            sn.cm.set_coinstate(world.state_at(head))
        c["head_changes"] += 1
        self.check_invariant("a fall-back to the last validated state (bulk-download blocks dropped after a rule-breaking relayed block)")

    def run(self, nops):
        names = sorted(SUBMISSIONS)
        rng = self.rng
        for k in range(nops):
            r = rng.random()
            if r < 0.03:
                self.fall_back_after_bulk_blocks()
            elif r < 0.22:
                self.head_change()
            else:
                name = "valid" if r < 0.55 else rng.choice(names + ["resubmit-refused", "resubmit-refused"])
                self.submit(name, "api" if rng.random() < 0.5 else "wire")
        self.sn.close()


class MiniNode:
    """a real ChainManager on a stub peer (no sockets, no store): enough for API submissions and state replacement"""

    def __init__(self, world):
        import logging
        import skepticoin.networking.local_peer as lpm     # noqa (import order)
        from skepticoin.networking.manager import ChainManager

        class Disk:
            def save_transaction_for_debugging(self, t):
                pass

        class Peer:
            logger = logging.getLogger("skv.mini")
            disk_interface = Disk()
        self.cm = ChainManager(Peer(), 0)
        self.cm.set_coinstate(world.cs)

    def escaped(self):
        return []


SMALL = ["submit-spend-of-trunk-output", "submit-spend-of-branch-output", "submit-conflicting", "resubmit-refused",
         "extend-confirming-pooled", "extend-conflicting-with-pooled", "extend-empty", "switch-to-other-tip", "other-fork-overtakes"]


def small_scope(mon, rng, length, shard, nshard):
    """EVERY sequence of `length` operations from SMALL on a small forked world, through the pool API and the state setter"""
    import itertools
    base = gen.World(rng, nkeys=4)
    base.reuse_pending = False
    base.grow(3, rng, tx_prob=0.0, bias="linear")
    trunk_tip = base.cs.current_chain_hash
    trunk = set(base.chain.ancestors(trunk_tip))
    # two branches off the trunk: A (2 blocks, head) and B (1 block)
    for n, par in ((2, trunk_tip), (1, trunk_tip)):
        pid = par
        for _ in range(n):
            rb, real = base.assemble(pid, [], base.chain.blocks[pid].ts + 60, base.keys[_ % 4][1], route="ref")
            pid = base.accept(rb, real, validate=False)
    idx = 0
    for seq_ev in itertools.product(range(len(SMALL)), repeat=length):
        idx += 1
        if idx % nshard != shard:
            continue
        seq = Seq.__new__(Seq)
        seq.mon, seq.rng = mon, rng
        seq.world = world = base.fork()
        seq.sn = MiniNode(world)
        seq.ops, seq.refused = [], []
        seq.w = {"lane": "small-scope", "sequence": [SMALL[e] for e in seq_ev], "chain": gen.blocks_hex(world, world.chain.order[1:]),
                 "ops": seq.ops}
        mon.c["small_scope_sequences"] = mon.c.get("small_scope_sequences", 0) + 1
        cm = seq.sn.cm
        for e in seq_ev:
            name = SMALL[e]
            head, pool = seq.snapshot()
            led = world.ledger(head)
            used = {r for t in pool for r in t.refs()}
            own = [x for x in world.owned(head, used) if x[1] >= 2]
            trunk_ids = {t.id() for b in trunk for t in world.chain.blocks[b].txs}
            if name.startswith("submit-spend-of"):
                want_trunk = "trunk" in name
                cands = [x for x in own if (x[0][0] in trunk_ids) == want_trunk]
                if not cands:
                    continue
                t = world.make_rtx(head, rng, spend=[rng.choice(cands)], signer="ref")
                seq.submit_tx(t, name)
            elif name == "submit-conflicting":
                t = t_conflicting(world, head, pool, rng)
                if t is not None:
                    seq.submit_tx(t, name)
            elif name == "resubmit-refused":
                if seq.refused:
                    seq.submit_tx(seq.refused[-1][0], name)
            elif name.startswith("extend"):
                rtxs = []
                if name == "extend-confirming-pooled" and pool:
                    rtxs = [pool[0]]
                elif name == "extend-conflicting-with-pooled" and pool:
                    t = t_conflicting(world, head, [pool[0]], rng)
                    rtxs = [t] if t is not None else []
                parent = world.chain.blocks[head]
                rb, real = world.assemble(head, rtxs, parent.ts + 30, world.keys[0][1], route="ref")
                world.cs = world.state_at(head).add_block(real, rb.ts)
                world.accept(rb, real, cs=world.cs)
                seq.ops.append(["set-coinstate", rb.id().hex()])
                cm.set_coinstate(world.cs)
                seq.after_head_change(head, pool, name)
            else:
                tips = [t for t in sorted(world.cs.heads.keys()) if t != head and head not in world.chain.ancestors(t)]
                if not tips:
                    continue
                tip = max(tips, key=lambda t: world.chain.blocks[t].height)
                if name == "other-fork-overtakes":
                    cur = tip
                    while world.chain.blocks[cur].height <= world.chain.blocks[head].height:
                        parent = world.chain.blocks[cur]
                        rb, real = world.assemble(cur, [], parent.ts + 30, world.keys[1][1], route="ref")
                        world.cs = world.cs.add_block_no_validation(real)
                        cur = world.accept(rb, real, cs=world.cs)
                    tip = cur
                seq.ops.append(["set-coinstate", tip.hex()])
                cm.set_coinstate(world.state_at(tip))
                seq.after_head_change(head, pool, name)


def threads_lane(mon, rng, seconds):
    """auxiliary: real threads on the shared ChainManager"""
    world = gen.World(rng, nkeys=6)
    world.grow(14, rng, tx_prob=0.5)
    sn = nodekit.SingleNode(world, rng, "c13-threads", npeers=0)
    cm = sn.cm
    tips = sorted(world.cs.heads.keys())
    states = [world.state_at(b, cs=cm.coinstate) for b in world.chain.order[-6:] + tips]
    txs = []
    for b in world.chain.order[-6:] + tips:
        used = set()
        for _ in range(6):
            t = world.make_rtx(b, rng, exclude=used, signer="ref")
            if t is not None:
                used.update(t.refs())
                txs.append(bridge.rtx_to_real(t))
    stop = threading.Event()
    snaps = []
    errors = []
    old = sys.getswitchinterval()
    sys.setswitchinterval(1e-5)

    def submitter(seed):
        r = random.Random(seed)
        while not stop.is_set():
            try:
                cm.add_transaction_to_pool(r.choice(txs))
            except Exception as e:
                errors.append(repr(e))

    def changer():
        r = random.Random(99)
        while not stop.is_set():
            cm.set_coinstate(r.choice(states))
            time.sleep(0.0005)

    def sampler():
        while not stop.is_set():
            cs, pool = cm.get_state()
            snaps.append((cs.current_chain_hash, list(pool)))
            time.sleep(0.0002)
    ths = [threading.Thread(target=submitter, args=(1,)), threading.Thread(target=submitter, args=(2,)),
           threading.Thread(target=changer), threading.Thread(target=sampler)]
    for t in ths:
        t.start()
    time.sleep(seconds)
    stop.set()
    for t in ths:
        t.join(10)
    sys.setswitchinterval(old)
    mon.c["thread_snapshots"] = mon.c.get("thread_snapshots", 0) + len(snaps)
    seen = set()
    for head, pool in snaps:
        rt = [bridge.real_to_rtx(t) for t in pool]
        d = digest(head, b"".join(t.id() for t in rt))
        if d in seen:
            continue
        seen.add(d)
        mon.digests.add(d)
        for p in pool_verdict(world, head, rt):
            mon.v("thread-lane:pool-snapshot-inconsistent:" + p[0], "snapshot taken through get_state() under concurrent "
                  "submissions and head changes: %s" % (p,), {"lane": "threads"})
    mon.c["thread_distinct_states"] = mon.c.get("thread_distinct_states", 0) + len(seen)
    mon.c["thread_nonempty_states"] = mon.c.get("thread_nonempty_states", 0) + sum(1 for h, p in snaps if p)
    sn.close()


def replay(mon, w):
    rng = random.Random(0)
    seq = Seq.__new__(Seq)
    seq.mon, seq.rng = mon, rng
    seq.world = world = gen.World(rng, nkeys=6)
    # the recorded chain contains blocks delivered during the sequence; start from those that were not
    delivered = {ref.dec_block(bytes.fromhex(o[1]), strict=False)[0].id() for o in w["ops"] if o[0] == "deliver-block"}
    for hx in w["chain"]:
        rb = ref.parse_block(bytes.fromhex(hx))
        if rb.id() not in delivered:
            world.accept(rb, bridge.rblock_to_real(rb), validate=False)
    seq.sn = nodekit.SingleNode(world, rng, "c13-replay", npeers=2)
    seq.ops = []
    seq.refused = []
    seq.w = w
    for o in w["ops"]:
        if o[0] == "submit":
            t = ref.dec_tx(bytes.fromhex(o[3]), strict=False)[0]
            real = bridge.rtx_to_real(t)
            seq.sn.disk.fail_debug_copy = "debug-copy-fails" in o
            if o[1] == "api":
                try:
                    seq.sn.cm.add_transaction_to_pool(real)
                except Exception:
                    pass
            else:
                raw = (seq.sn.active() or [seq.sn.add_peer()])[0]
                raw.push(seq.sn.wire.transaction(real))
                seq.sn.settle()
            seq.sn.disk.fail_debug_copy = False
        elif o[0] == "deliver-block":
            rb = ref.dec_block(bytes.fromhex(o[1]), strict=False)[0]
            real = bridge.rblock_to_real(rb)
            seq.sn.net.clock.t = max(seq.sn.net.clock.t, rb.ts + 100)
            raw = (seq.sn.active() or [seq.sn.add_peer()])[0]
            raw.push(seq.sn.wire.block(real))
            seq.sn.settle()
            if rb.id() in seq.sn.cm.coinstate.block_by_hash:
                world.cs = world.cs.add_block_no_validation(real)
                world.accept(rb, real, cs=world.cs)
        elif o[0] == "set-coinstate":
            seq.sn.cm.set_coinstate(world.state_at(bytes.fromhex(o[1]), cs=seq.sn.cm.coinstate))
        elif o[0] == "bulk-blocks":
            raw = (seq.sn.active() or [seq.sn.add_peer()])[0]
            for j, hx in enumerate(o[1]):
                rb = ref.dec_block(bytes.fromhex(hx), strict=False)[0]
                seq.sn.net.clock.t = max(seq.sn.net.clock.t, rb.ts + 100)
                raw.push(seq.sn.wire.block(bridge.rblock_to_real(rb), in_response_to=5000 + j))
            seq.sn.settle()
        elif o[0] == "relay-rule-breaking-block":
            rb = ref.dec_block(bytes.fromhex(o[1]), strict=False)[0]
            seq.sn.net.clock.t = max(seq.sn.net.clock.t, rb.ts + 100)
            (seq.sn.active() or [seq.sn.add_peer()])[0].push(seq.sn.wire.block(bridge.rblock_to_real(rb)))
            seq.sn.settle()
        if seq.sn.cm.coinstate.current_chain_hash in world.chain.blocks:
            seq.check_invariant("replayed %s" % o[0])
    seq.sn.close()


def run_shard(spec):
    env.boot()
    mon = Monitor()
    if "replay" in spec:
        if spec["replay"].get("lane") == "threads":
            threads_lane(mon, random.Random(1), 3)
        else:
            replay(mon, spec["replay"])
    elif spec["lane"] == "threads":
        rng = random.Random("c13/t/%d/%d" % (spec["seed"], spec["shard"]))
        threads_lane(mon, rng, 5 if spec["tier"] == "quick" else 40)
    else:
        rng = random.Random("c13/%d/%d" % (spec["seed"], spec["shard"]))
        quick = spec["tier"] == "quick"
        for j in range(5 if quick else 120):
            seq = Seq(mon, rng, j)
            mon.c["sequences"] += 1
            nviol = getattr(mon, "reported", 0)
            try:
                seq.run(rng.choice([50, 80]) if quick else rng.choice([50, 150, 300]))
            except Exception:
                # the harness cannot go on with this sequence.  When the sequence has ALREADY produced a violation (a pool
                # holding a rule-breaking transaction makes the harness's own block assembly fail, for instance) that violation
                # is the finding and the sequence ends here; otherwise the failure is the harness's and the shard is inconclusive
                if getattr(mon, "reported", 0) == nviol:
                    raise
                mon.c["sequences_ended_after_a_violation"] = mon.c.get("sequences_ended_after_a_violation", 0) + 1
                try:
                    seq.sn.close()
                except Exception:
                    pass
            if len(mon.samples) < 1:
                mon.samples.append({"ops": [(o[0], o[1] if o[0] == "submit" else "", o[2] if o[0] == "submit" else "")
                                            for o in seq.ops][:30]})
        small_scope(mon, rng, 4 if quick else 5, spec["shard"] % 14, 14)
    return {"evaluations": mon.c["operations"], "digests": sorted(mon.digests), "violations": mon.viol, "counters": mon.c,
            "samples": mon.samples}


def finalize(m, tier):
    c = m["counters"]
    floors = [("operations", c.get("operations", 0), 2000), ("admitted", c.get("admitted", 0), 500),
              ("refused", c.get("refused", 0), 500), ("head_changes", c.get("head_changes", 0), 300),
              ("fork_switches", c.get("fork_switches", 0), 100), ("evictions", c.get("evictions", 0), 200),
              ("survivors_after_head_change", c.get("survivors_after_head_change", 0), 200),
              ("submissions_wire", c.get("submissions_wire", 0), 500),
              ("thread_snapshots", c.get("thread_snapshots", 0), 200),
              ("fall_backs_with_dependent_transaction_pooled", c.get("fall_backs_with_dependent_transaction_pooled", 0), 20)]
    for name in SUBMISSIONS:
        floors.append(("submission " + name, c.get("by_submission", {}).get(name, 0), 10))
    floors.append(("small_scope_sequences", c.get("small_scope_sequences", 0), 9 ** 4))
    return {
        "rule": "operation sequences (50-300 ops) on one real node: submissions of 16 transaction classes via the pool API "
                "and via the wire, interleaved with head changes (extension confirming / conflicting with pooled transactions, "
                "direct state replacement to any stored block or other tip, competing fork overtaking); pool snapshot judged "
                "after every operation; refused transactions submitted again; every sequence of 4/5 operations from a 9-operation "
                "alphabet on a small forked world (exhaustive small scope); distinct = distinct (head, pool content) states observed "
                "by digest; auxiliary real-thread lane sampled through get_state()",
        "floors": floors, "extra": {},
    }
