"""C05 - header rules: proof of work, difficulty, height, time, evidence.

Monitored add_block stream with header candidates that break exactly one rule (re-mined otherwise);
a configuration lane with a short retarget period so that dozens of boundaries and forks crossing
them on both sides are explored; a real-period lane over a 10,079-block prefix (thorough); a
real-scrypt lane (thorough); pure-function lanes comparing the retarget arithmetic and the chain
sampling with the reference on boundary and random inputs; and every block produced by the node's
own assembly must pass both the reference and the real validator."""
import random
import struct

from skv import env, ref, cstream, bridge, gen
from skv.runner import digest

PROPERTY = "C05"
LEVEL = "exploration"
NSHARD = 16
SHARD_TIMEOUT = {"quick": 900, "thorough": 3600}
HEADER_CODES = {"pow", "future", "parent-unknown", "ts-order", "target", "evidence", "height", "cb-height"}


def shards(tier, seed):
    out = []
    for i in range(NSHARD):
        lane = "period" if i % 2 else "normal"
        out.append({"shard": i, "tier": tier, "seed": seed, "lane": lane})
    out.append({"shard": 100, "tier": tier, "seed": seed, "lane": "pure"})
    if tier == "thorough":
        for i in range(2):
            out.append({"shard": 200 + i, "tier": tier, "seed": seed, "lane": "realperiod"})
        for i in range(4):
            out.append({"shard": 300 + i, "tier": tier, "seed": seed, "lane": "realscrypt"})
    return out


# ------------------------------------------------------------------ header candidate classes
def _draft(world, pid, rng, with_tx=True, dts=(1, 60, 120)):
    parent = world.chain.blocks[pid]
    rtxs = []
    if with_tx and rng.random() < 0.5:
        t = world.make_rtx(pid, rng)
        if t is not None:
            rtxs.append(t)
    dt = rng.choice(world.dt_choices) if getattr(world, "dt_choices", None) else rng.choice(dts)
    return world.draft(pid, rtxs, parent.ts + dt, rng.choice(world.keys)[1])


def h_valid_real_assembly(world, pid, rng):
    parent = world.chain.blocks[pid]
    rtxs = []
    if rng.random() < 0.6:
        t = world.make_rtx(pid, rng)
        if t is not None:
            rtxs.append(t)
    dt = rng.choice(world.dt_choices) if getattr(world, "dt_choices", None) else rng.choice([1, 60, 120])
    rb, real = world.assemble(pid, rtxs, parent.ts + dt, rng.choice(world.keys)[1], route="real")
    return bridge.real_to_rblock(real), set(), set()


def h_valid_ref_assembly(world, pid, rng):
    return world.mine(_draft(world, pid, rng)), set(), set()


def h_pow_not_met(world, pid, rng):
    return world.mine(_draft(world, pid, rng), below=False), {"pow"}, set()


def h_pow_equal_target(world, pid, rng):
    """id == target exactly: set the stated target to the id (then the target is wrong too, unless equal)"""
    blk = world.mine(_draft(world, pid, rng))
    return None   # not constructible without breaking the target rule as well; kept for documentation


def h_target_easier(world, pid, rng):
    blk = _draft(world, pid, rng)
    t = int.from_bytes(blk.target, "big")
    blk.target = min((1 << 256) - 1, rng.choice([t * 2, t + 1, t * 256])).to_bytes(32, "big")
    return world.mine(blk), {"target"}, set()


def h_target_harder(world, pid, rng):
    blk = _draft(world, pid, rng)
    t = int.from_bytes(blk.target, "big")
    blk.target = max(1, rng.choice([t - 1, t // 2])).to_bytes(32, "big")
    return world.mine(blk), {"target"}, set()


def h_target_of_other_block(world, pid, rng):
    """the target some other stored block carries (previous period, other fork)"""
    blk = _draft(world, pid, rng)
    others = sorted({b.target for b in world.chain.blocks.values()} - {blk.target})
    if not others:
        return None
    blk.target = rng.choice(others)
    if int.from_bytes(blk.target, "big") < (1 << 236):
        return None
    return world.mine(blk), {"target"}, set()


def h_target_as_if_no_boundary(world, pid, rng):
    """at a retarget boundary keep the parent's target; inside a period apply a retarget"""
    blk = _draft(world, pid, rng)
    parent = world.chain.blocks[pid]
    if blk.height % world.params.period == 0:
        if blk.target == parent.target:
            return None
        blk.target = parent.target
    else:
        start_h = blk.height - world.params.period
        if start_h < 0:
            return None
        el = blk.ts - world.chain.ancestor_at(pid, start_h).ts
        nt = ref.retarget(parent.target, el, world.params)
        if nt == blk.target or int.from_bytes(nt, "big") < (1 << 236):
            return None
        blk.target = nt
    return world.mine(blk), {"target"}, set()


def h_target_from_other_timing(world, pid, rng):
    """boundary block whose target was computed for another timestamp / from the head's ancestors"""
    blk = _draft(world, pid, rng)
    parent = world.chain.blocks[pid]
    if blk.height % world.params.period != 0:
        return None
    mode = rng.randrange(2)
    if mode == 0:
        nt = ref.expected_target(world.chain, parent, blk.ts + rng.choice([-1, 1, 1000]))
    else:
        head = world.chain.blocks[world.cs.current_chain_hash]
        if head.height < blk.height - world.params.period:
            return None
        start = world.chain.ancestor_at(head.id(), blk.height - world.params.period)
        nt = ref.retarget(parent.target, blk.ts - start.ts, world.params)
    if nt == blk.target or int.from_bytes(nt, "big") < (1 << 236):
        return None
    blk.target = nt
    return world.mine(blk), {"target"}, set()


def h_height_in_summary(world, pid, rng):
    blk = _draft(world, pid, rng)
    blk.height += rng.choice([-1, 1, 2])
    if blk.height < 1:
        return None
    return world.mine(blk, max_tries=5000), {"height", "cb-height"}, {"target", "evidence"}


def h_height_in_reward(world, pid, rng):
    blk = _draft(world, pid, rng)
    cb = blk.txs[0]
    h = blk.height + rng.choice([-1, 1, 100])
    blk.txs[0] = ref.RTx([(ref.ZERO32, 0, (ref.SIG_CB, h, cb.inputs[0][2][2]))], cb.outputs)
    return world.mine(blk, fix_merkle=True), {"cb-height"}, set()


def h_height_in_both(world, pid, rng):
    blk = _draft(world, pid, rng)
    d = rng.choice([-1, 1])
    if blk.height + d < 1:
        return None
    cb = blk.txs[0]
    blk.height += d
    blk.txs[0] = ref.RTx([(ref.ZERO32, 0, (ref.SIG_CB, blk.height, cb.inputs[0][2][2]))], cb.outputs)
    return world.mine(blk, fix_merkle=True, max_tries=5000), {"height"}, {"target", "evidence", "reward"}


def h_timestamp_not_after_parent(world, pid, rng):
    blk = _draft(world, pid, rng)
    parent = world.chain.blocks[pid]
    blk.ts = parent.ts - rng.choice([0, 0, 1, 1000])
    blk.target = ref.expected_target(world.chain, parent, blk.ts) if blk.ts > world.genesis.ts else blk.target
    if int.from_bytes(blk.target, "big") < (1 << 236):
        return None
    return world.mine(blk), {"ts-order"}, set()


def h_evidence_field_altered(world, pid, rng):
    blk = world.mine(_draft(world, pid, rng))
    field = rng.choice(["sh", "cs", "bh"])
    orig = getattr(blk, field)
    for _ in range(6000):
        b = bytearray(orig)
        for _k in range(rng.choice([1, 1, 2, 8])):
            b[rng.randrange(len(b))] ^= 1 << rng.randrange(8)
        if bytes(b) == orig:
            continue
        setattr(blk, field, bytes(b))
        blk._enc = blk._id = None
        if blk.id() < blk.target:
            return blk, {"evidence"}, set()
    return None


def h_evidence_from_other_fork(world, pid, rng):
    """chain sample taken from the blocks a competing fork has at the selected heights"""
    blk = _draft(world, pid, rng)
    anc = set(world.chain.ancestors(pid))
    parent = world.chain.blocks[pid]
    others = [b for b in world.chain.order if b not in anc and world.chain.blocks[b].height >= parent.height]
    if not others:
        return None
    ob = rng.choice(others)
    start = rng.randrange(1 << 31)
    for n in range(4000):
        blk.nonce = (start + n) & 0xFFFFFFFF
        blk._enc = blk._id = None
        sh = world.chain.scrypt_fn(blk.summary_enc(), blk.height.to_bytes(8, "big"))
        true_cs = ref.chain_sample(sh, blk.height, lambda h: world.chain.ancestor_at(pid, h).enc())
        other_cs = ref.chain_sample(sh, blk.height, lambda h: world.chain.ancestor_at(ob, h).enc())
        if other_cs == true_cs:
            continue
        blk.sh, blk.cs, blk.bh = sh, other_cs, ref.blake2b32(sh + other_cs + blk.txlist_enc())
        if blk.id() < blk.target:
            return blk, {"evidence"}, set()
    return None


def h_evidence_over_other_transactions(world, pid, rng):
    blk = _draft(world, pid, rng)
    t = world.make_rtx(pid, rng, signer="ref")
    start = rng.randrange(1 << 31)
    for n in range(4000):
        blk.nonce = (start + n) & 0xFFFFFFFF
        blk._enc = blk._id = None
        sh, cs, _bh = ref.evidence(world.chain, blk)
        mode = n % 3
        if mode == 0 and t is not None:
            other = ref.vlq_enc(len(blk.txs) + 1) + b"".join(x.enc() for x in blk.txs) + t.enc()
        elif mode == 1 and len(blk.txs) > 1:
            other = ref.vlq_enc(len(blk.txs) - 1) + b"".join(x.enc() for x in blk.txs[:-1])
        else:
            other = b"".join(x.enc() for x in blk.txs)      # list without its length prefix
        blk.sh, blk.cs, blk.bh = sh, cs, ref.blake2b32(sh + cs + other)
        if blk.id() < blk.target:
            return blk, {"evidence"}, set()
    return None


def h_unknown_parent(world, pid, rng):
    blk = _draft(world, pid, rng, with_tx=False)
    blk.prev = rng.getrandbits(256).to_bytes(32, "big")
    blk.sh = blk.cs = blk.bh = b"\x00" * 32
    start = rng.randrange(1 << 31)
    for n in range(6000):
        blk.nonce = (start + n) & 0xFFFFFFFF
        blk._enc = blk._id = None
        if blk.id() < blk.target:
            return blk, {"parent-unknown"}, set()
    return None


HEADER_CLASSES = {
    "valid-real-assembly": h_valid_real_assembly, "valid-ref-assembly": h_valid_ref_assembly,
    "id-not-below-target": h_pow_not_met, "target-easier": h_target_easier, "target-harder": h_target_harder,
    "target-of-other-block": h_target_of_other_block, "height-in-summary": h_height_in_summary,
    "height-in-reward": h_height_in_reward, "height-in-both": h_height_in_both,
    "timestamp-not-after-parent": h_timestamp_not_after_parent, "evidence-field-altered": h_evidence_field_altered,
    "evidence-sampled-from-other-fork": h_evidence_from_other_fork,
    "evidence-over-other-transactions": h_evidence_over_other_transactions, "unknown-parent": h_unknown_parent,
}
PERIOD_ONLY = {"target-as-if-no-boundary": h_target_as_if_no_boundary, "target-from-other-timing": h_target_from_other_timing}


class HeaderStream(cstream.Stream):
    def __init__(self):
        super().__init__(HEADER_CODES, "accepted-despite")
        self.c.update({"future_limit_attempts": 0, "boundary_blocks_accepted": 0, "assembled_blocks_checked": 0,
                       "distinct_targets_accepted": 0, "boundary_forks_with_different_targets": 0})
        self.targets = set()
        self.boundary_targets = {}

    def post_accept(self, world, rblk, w, cls, now):
        if rblk.height % world.params.period == 0:
            self.c["boundary_blocks_accepted"] += 1
            ts = self.boundary_targets.setdefault((id(world), rblk.height), set())
            if rblk.target not in ts and ts:
                self.c["boundary_forks_with_different_targets"] += 1
            ts.add(rblk.target)
        if rblk.target not in self.targets:
            self.targets.add(rblk.target)
            self.c["distinct_targets_accepted"] += 1

    def run_world(self, rng, classes, nblocks, ncand, params=None, dt_choices=None, restarted=False):
        self.rejected_pool = []
        world = gen.World(rng, params=params)
        world.dt_choices = dt_choices
        if restarted:
            world.reuse_pending = False
        self.grow(world, nblocks, rng)
        if restarted:
            # the node was restarted: candidates are judged (and the node's own blocks assembled) on the chain state rebuilt
            # from a block store the code under test created and filled
            from skv import nodekit
            rebuilt = nodekit.rebuild_through_store(world, rng, "c05")
            if rebuilt is not None and rebuilt.current_chain_hash in world.chain.blocks:
                # (whatever the store gave back is what the restarted node works with: candidates are built on blocks it holds)
                if set(rebuilt.block_by_hash.keys()) != set(world.cs.block_by_hash.keys()):
                    self.c["rebuilt_states_lacking_blocks"] = self.c.get("rebuilt_states_lacking_blocks", 0) + 1
                world.cs = rebuilt
                self.c["worlds_on_a_state_rebuilt_from_the_store"] = self.c.get("worlds_on_a_state_rebuilt_from_the_store", 0) + 1
            else:
                restarted = False
                self.c["worlds_not_rebuilt"] = self.c.get("worlds_not_rebuilt", 0) + 1
        names = sorted(classes)
        for k in range(ncand):
            cls = names[(k + rng.randrange(3)) % len(names)]
            pid = self.pick_parent(world, rng)
            if restarted and pid not in world.cs.block_by_hash:
                pid = world.cs.current_chain_hash
            if cls in PERIOD_ONLY and rng.random() < 0.8:
                atb = [b for b in world.chain.order if (world.chain.blocks[b].height + 1) % world.params.period == 0]
                if atb:
                    pid = rng.choice(atb)
            try:
                built = classes[cls](world, pid, rng)
            except (RuntimeError, struct.error, OverflowError):
                built = None
            if built is None:
                self.c["class_material_missing"][cls] = self.c["class_material_missing"].get(cls, 0) + 1
                continue
            rblk, must, may = built
            now = rblk.ts + rng.choice([-30, -29, 0, 1, 3600])
            is_real = cls == "valid-real-assembly"
            if is_real:
                self.c["assembled_blocks_checked"] += 1
                codes = ref.block_codes(world.chain, rblk, now)
                if codes:
                    self.v("assembled-block-breaks-rule:" + "+".join(sorted(codes)), "the node's own assembly produced a "
                           "block with id below target that the reference rejects: %s" % sorted(codes),
                           self.witness(world, rblk, now, cls))
                    continue
            self.attempt(world, rblk, now, cls, must, may, claim_valid_accept=is_real)
            if rng.random() < 0.3:
                self.reoffer(world, rng)
            # the future-time rule: the same valid block at clock ts-30 (passes) and ts-31 (must not)
            if not must and rng.random() < 0.5:
                vb = classes["valid-ref-assembly"](world, self.pick_parent(world, rng), rng)[0]
                self.c["future_limit_attempts"] += 1
                self.attempt(world, vb, vb.ts - 31 - rng.choice([0, 0, 1, 600]), "timestamp-beyond-clock+30", {"future"}, set())
                self.attempt(world, vb, vb.ts - 30, "timestamp-at-clock+30", set(), set(), claim_valid_accept=True)
            if k % 6 == 5:
                self.grow(world, 1, rng)
        return world

    def grow(self, world, n, rng):
        """like World.grow, but steering block spacing so that targets stay minable in the retarget lane"""
        for _ in range(n):
            pid = world.pick_parent(rng)
            parent = world.chain.blocks[pid]
            if world.dt_choices:
                t = int.from_bytes(parent.target, "big")
                base = world.dt_choices[1]
                if t < (1 << 246):
                    dt = base * 2
                elif t > (1 << 251):
                    dt = base // 2
                else:
                    dt = rng.choice(world.dt_choices)
            else:
                dt = rng.choice([1, 2, 60, 120, 600])
            rtxs = []
            if rng.random() < 0.5:
                t = world.make_rtx(pid, rng)
                if t is not None:
                    rtxs.append(t)
            rb, real = world.assemble(pid, rtxs, parent.ts + dt, rng.choice(world.keys)[1])
            before = len(world.chain.order)
            self.attempt(world, rb, rb.ts, "tree-growth-valid", set(), set(), claim_valid_accept=True)


# ------------------------------------------------------------------ pure-function lane
def pure_lane(rng, n):
    import skepticoin.consensus as cons
    import skepticoin.pow as pw
    viol, c, digests = [], {"retarget_calls": 0, "select_height_calls": 0, "select_slice_calls": 0,
                            "chain_sample_calls": 0, "slices_that_wrapped": 0, "retarget_capped": 0}, set()

    def v(key, msg, w):
        if sum(1 for x in viol if x["key"] == key) < 3:
            viol.append({"key": key, "msg": msg, "witness": w})
    T = ref.RETARGET_TIMESPAN
    el_edge = [1, 2, T - 1, T, T + 1, 2 * T, 4 * T, 4 * T + 1, T // 4, T // 4 - 1, 1 << 31, (1 << 32) - 1, 1 << 32]
    tg_edge = [1, 2, 255, 1 << 248, (1 << 248) - 1, (1 << 255), (1 << 256) - 1, (1 << 256) - 2, T, T - 1, T + 1]
    for _ in range(n):
        el = rng.choice(el_edge) if rng.random() < 0.5 else rng.randrange(1, 1 << rng.choice([8, 20, 21, 24, 32]))
        tg = rng.choice(tg_edge) if rng.random() < 0.4 else rng.getrandbits(rng.choice([8, 64, 200, 248, 250, 256]))
        tb = tg.to_bytes(32, "big")
        c["retarget_calls"] += 1
        digests.add(digest("rt", tg, el))
        got = cons.calculate_new_target(tb, el)
        exp = ref.retarget(tb, el)
        if int.from_bytes(exp, "big") == (1 << 256) - 1:
            c["retarget_capped"] += 1
        if got != exp:
            v("retarget-arithmetic-differs", "calculate_new_target(%x, %d) = %s, rule says %s" % (tg, el, got.hex(), exp.hex()),
              {"kind": "retarget", "target": tb.hex(), "elapsed": el})
    for _ in range(n):
        h = rng.getrandbits(256).to_bytes(32, "big")
        cur = rng.choice([1, 2, 3, 255, 256, 10080, 163000, rng.randrange(1, 1 << 40)])
        c["select_height_calls"] += 1
        if pw.select_block_height(h, cur) != int.from_bytes(h[:8], "big") % cur:
            v("sample-height-selection-differs", "select_block_height", {"kind": "pure"})
        L = rng.choice([1, 2, 3, 4, 5, 7, 200, rng.randrange(1, 2000)])
        bb = bytes(rng.getrandbits(8) for _ in range(min(L, 64))) * (L // min(L, 64) + 1)
        bb = bb[:L]
        ln = rng.choice([4, 4, 4, 1, 3, 9])
        c["select_slice_calls"] += 1
        start = int.from_bytes(h[8:12], "big") % L
        if start + ln > L:
            c["slices_that_wrapped"] += 1
        exp = b""
        s2 = start
        while len(exp) < ln:
            exp += bb[s2:s2 + ln - len(exp)]
            s2 = 0
        if pw.select_block_slice(h, bb, ln) != exp:
            v("sample-slice-differs", "select_block_slice(start=%d,len(block)=%d,n=%d)" % (start, L, ln), {"kind": "pure"})

    class B:
        def __init__(self, b):
            self.b = b

        def serialize(self):
            return self.b
    for _ in range(n // 4):
        h = rng.getrandbits(256).to_bytes(32, "big")
        cur = rng.choice([1, 2, 3, 17, 300])
        blocks = [bytes(rng.getrandbits(8) for _ in range(rng.choice([1, 3, 4, 5, 150]))) for _ in range(cur)]
        c["chain_sample_calls"] += 1
        digests.add(digest("cs", h, cur))
        got = pw.select_n_k_length_slices_from_chain(h, cur, lambda x: B(blocks[x]), 8, 4)
        exp = ref.chain_sample(h, cur, lambda x: blocks[x])
        if got != exp:
            v("chain-sampling-differs", "select_n_k_length_slices_from_chain differs from the rule (height %d)" % cur,
              {"kind": "pure"})
    return viol, c, digests


# ------------------------------------------------------------------ real-period lane (thorough)
def realperiod_lane(st, rng):
    import skepticoin.datatypes as dt
    import skepticoin.signing as sg
    P = ref.RETARGET_PERIOD
    # the deep fingerprint is quadratic in chain length; with a 10k prefix use object identity of the persistent maps
    st.fingerprint = lambda cs: (id(cs.block_by_hash), id(cs.unspent_transaction_outs_by_hash),
                                 id(cs.block_by_height_by_hash), id(cs.heads), cs.current_chain_hash, len(cs.block_by_hash))
    world = gen.World(rng)
    world.chain.ledger_cache = False
    world.dt_choices = None
    key = world.keys[0][1]
    prev = world.gid
    cs = world.cs
    g_ts = world.genesis.ts
    spacing = rng.choice([100, 120, 130])
    for h in range(1, P - 1):
        cb = world.coinbase(h, ref.subsidy(h), key)
        rb = ref.RBlock(h, prev, cb.id(), g_ts + spacing * h, ref.INITIAL_TARGET, h, b"\x00" * 32, b"\x00" * 32, b"\x00" * 32, [cb])
        real = bridge.rblock_to_real(rb)
        cs = cs.add_block_no_validation(real)
        prev = world.chain.add(rb)
        world.real[prev] = real
    world.cs = cs
    st.c["prefix_blocks_unvalidated"] = st.c.get("prefix_blocks_unvalidated", 0) + P - 2
    # two forks from height P-2: mined and validated blocks at heights P-1, P, P+1 with different timings
    base = prev
    for fork in range(2):
        pid = base
        for step in range(3):
            parent = world.chain.blocks[pid]
            dtv = rng.choice([60, 120, 4000, 40000]) if step == 1 else rng.choice([60, 120])
            rb, real = world.assemble(pid, [], parent.ts + dtv, key)
            ok = st.attempt(world, rb, rb.ts, "real-period-valid", set(), set(), claim_valid_accept=True)
            if not ok:
                return
            pid = rb.id()
            if rb.height == P:
                # wrong-target candidates at the real boundary
                for cls in ("target-as-if-no-boundary", "target-from-other-timing", "target-easier"):
                    fn = dict(HEADER_CLASSES, **PERIOD_ONLY)[cls]
                    built = fn(world, rb.prev, rng)
                    if built:
                        st.attempt(world, built[0], built[0].ts, cls + "@real-period", built[1], built[2])


def realscrypt_lane(st, rng):
    """2-3 blocks mined and validated with the unreplaced scrypt"""
    world = gen.World(rng, scrypt_fn=ref.real_scrypt)
    pid = world.gid
    for step in range(2):
        parent = world.chain.blocks[pid]
        rtxs = []
        if step:
            t = world.make_rtx(pid, rng)
            if t is not None:
                rtxs.append(t)
        rb, real = world.assemble(pid, rtxs, parent.ts + 120, world.keys[step][1], route="real")
        rb = bridge.real_to_rblock(real)
        st.c["real_scrypt_blocks"] = st.c.get("real_scrypt_blocks", 0) + 1
        if not st.attempt(world, rb, rb.ts, "real-scrypt-valid", set(), set(), claim_valid_accept=True):
            return
        pid = rb.id()
    bad = h_evidence_field_altered(world, pid, rng)
    if bad:
        st.attempt(world, bad[0], bad[0].ts, "evidence-field-altered@real-scrypt", bad[1], bad[2])



def _replay_route_story(spec):
    from skv.props import c09
    env.boot()
    mon = c09.route_histories(random.Random(1), 8, 14, c09.all_classes(), "replay-route", story_share=0.8)
    return {"evaluations": mon.c.get("deliveries", 0), "distinct": mon.c.get("download_route_stories", 0),
            "violations": [{"key": "node-route:" + v["key"], "msg": v["msg"], "witness": v["witness"]} for v in mon.viol[:6]],
            "counters": {"route_lane_stories": mon.c.get("download_route_stories", 0)}, "digests": []}

def run_shard(spec):
    if "replay" in spec and isinstance(spec["replay"], dict) and spec["replay"].get("kind") == "download-route-story":
        # (the story is re-run with this check's classes on the current tree; the recorded chain is for the reader)
        return _replay_route_story(spec)
    lane = spec.get("lane", "normal")
    if "replay" in spec:
        w = spec["replay"]
        if w.get("kind") in ("retarget", "pure"):
            env.boot()
            viol, c, dg = pure_lane(random.Random(1), 2000)
            return {"evaluations": c["retarget_calls"], "violations": viol, "counters": c, "distinct": len(dg)}
        env.boot()
        if w.get("period", ref.RETARGET_PERIOD) != ref.RETARGET_PERIOD:
            env.set_retarget(w["period"])
        st = HeaderStream()
        st.replay(w, random.Random(0))
        return st.result()
    rng = random.Random("c05/%d/%d" % (spec["seed"], spec["shard"]))
    quick = spec["tier"] == "quick"
    if lane == "pure":
        env.boot()
        viol, c, dg = pure_lane(rng, 20000 if quick else 400000)
        return {"evaluations": c["retarget_calls"] + c["select_slice_calls"] + c["chain_sample_calls"], "violations": viol,
                "counters": {"pure": c}, "digests": sorted(dg),
                "samples": [{"lane": "pure", "example": "calculate_new_target(2^248, 1209601)"}]}
    if lane == "realscrypt":
        env.boot(fake_scrypt=False)
        st = HeaderStream()
        realscrypt_lane(st, rng)
        return st.result()
    env.boot()
    st = HeaderStream()
    if lane == "realperiod":
        realperiod_lane(st, rng)
        return st.result()
    if lane == "period":
        P = rng.choice([4, 5, 6, 8])
        env.set_retarget(P)
        params = ref.Params(period=P)
        base = ref.RETARGET_TIMESPAN // P
        classes = dict(HEADER_CLASSES, **PERIOD_ONLY)
        for _ in range(4 if quick else 40):
            st.run_world(rng, classes, nblocks=rng.choice([14, 20, 26]), ncand=40 if quick else 60, params=params,
                         dt_choices=(base // 2, base, base * 2, base + 1, base - 1, base // 3))
    else:
        for _ in range(4 if quick else 40):
            world = st.run_world(rng, HEADER_CLASSES, nblocks=rng.choice([8, 14, 20]), ncand=45 if quick else 60)
            st.two_thread_lane(world, rng, 2 if quick else 4)
        for _ in range(1 if quick else 10):
            st.run_world(rng, HEADER_CLASSES, nblocks=rng.choice([20, 30]), ncand=30 if quick else 50, restarted=True)
        for _ in range(1 if quick else 8):        # every candidate the first block above the checkpoint horizon
            cstream.Stream.run_world(st, rng, HEADER_CLASSES, nblocks=rng.choice([6, 10]), ncand=20 if quick else 40,
                                     bad_key_prob=0.0, horizon_at_head=True)
    if spec["shard"] % 4 in (1, 2):
        miner_front_end_lane(st, rng, 2 if quick else 25, period=rng.choice([4, 5, 6]) if lane == "period" else None)
    if lane != "period" and spec["shard"] % 4 == 0:
        tall_lane(st, rng, 1 if quick else 6)
    if lane == "normal" and spec["shard"] % 4 == 2:
        route_lane(st.v, st.c, rng, 3 if quick else 20, {k: v for k, v in HEADER_CLASSES.items() if k != "unknown-parent"}, "c05r")
    return st.result()


def tall_lane(st, rng, nworlds):
    """chains tall enough (64+ blocks) for the height field to have more than one possible spelling: valid candidates at
    heights 64..75 are offered in their canonical bytes and with the height written in the other spellings"""
    for _ in range(nworlds):
        world = gen.World(rng)
        world.grow(rng.choice([63, 66, 70]), rng, tx_prob=0.05, bias="linear")
        st.rejected_pool = []
        for k in range(8):
            head = world.cs.current_chain_hash
            parent = world.chain.blocks[head]
            rb = world.mine(world.draft(head, [], parent.ts + rng.choice([1, 60, 600]), world.keys[0][1]))
            now = rb.ts + 5
            canon = rb.enc()
            vl = ref.vlq_enc(rb.height)
            assert canon[1:1 + len(vl)] == vl
            spellings = {"height-padded": b"\x80" + vl}
            if len(vl) > 1 and vl[0] == 0x80:
                spellings["height-textbook-minimal"] = vl[1:]
            for name, alt in spellings.items():
                st.attempt_bytes(world, rb, canon[:1] + alt + canon[1 + len(vl):], now, name)
            st.c["tall_world_candidates"] = st.c.get("tall_world_candidates", 0) + 1
            st.attempt(world, rb, now, "valid-tall", must=set(), claim_valid_accept=True)


def miner_front_end_lane(st, rng, nsetups, period):
    """'the node's own block assembly' also means the miner's front end (candidate per nonce request under a ticking
    clock, on the current head): candidates with id below target are judged as in C12; rule codes of this property found
    there are reported here"""
    from skv.props import c12
    mon = c12.Monitor()
    for j in range(nsetups):
        c12.run_setup(mon, rng, 5000 + j, 3, period=period)
    env.set_retarget(ref.RETARGET_PERIOD)
    st.c["miner_front_end_found_blocks"] = st.c.get("miner_front_end_found_blocks", 0) + mon.c.get("found_blocks", 0)
    for v in mon.viol:
        if v["key"].startswith("found-candidate-invalid:"):
            codes = set(v["key"].split(":", 1)[1].split("+"))
            if codes & HEADER_CODES:
                st.v("miner-assembled-block-breaks-rule:" + "+".join(sorted(codes & HEADER_CODES)), v["msg"], v["witness"])
        elif v["key"] == "found-candidate-fails-own-validation":
            st.v("miner-assembled-block-rejected-by-own-validation", v["msg"], v["witness"])


def route_lane(add_violation, counters, rng, nhist, classes, tag):
    """this property on the routes by which a RUNNING NODE takes blocks (relay and download, real store): histories in which the
    node had asked a peer for blocks, blocks were announced, arrived unrequested, late, before their parent, or again with another
    body (the stories of skv/props/c09.py), built from this check's classes of rule-breaking blocks"""
    from skv.props import c09
    mon = c09.route_histories(rng, nhist, 14, classes, tag)
    counters["route_lane_deliveries"] = counters.get("route_lane_deliveries", 0) + mon.c.get("deliveries", 0)
    counters["route_lane_stories"] = counters.get("route_lane_stories", 0) + mon.c.get("download_route_stories", 0)
    for k_, v_ in mon.c.items():
        if k_.startswith("story:"):
            counters["route_" + k_] = counters.get("route_" + k_, 0) + v_
    for v in mon.viol:
        add_violation("node-route:" + v["key"], v["msg"], v["witness"])


def finalize(m, tier):
    c = m["counters"]
    floors = [("attempts", c.get("attempts", 0), 800), ("boundary_blocks_accepted", c.get("boundary_blocks_accepted", 0), 60),
              ("boundary forks with different targets", c.get("boundary_forks_with_different_targets", 0), 5),
              ("assembled_blocks_checked", c.get("assembled_blocks_checked", 0), 40),
              ("retarget_calls", c.get("pure", {}).get("retarget_calls", 0), 10000),
              ("future_limit_attempts", c.get("future_limit_attempts", 0), 50),
              ("miner_front_end_found_blocks", c.get("miner_front_end_found_blocks", 0), 20),
              ("accepted_ids_compared_with_target", c.get("accepted_ids_compared_with_target", 0), 500),
              ("tall_world_candidates (heights 64+)", c.get("tall_world_candidates", 0), 24),
              ("byte_level_offers", c.get("byte_level_offers", 0), 40),
              ("candidates_first_above_horizon", c.get("candidates_first_above_horizon", 0), 100)]
    for cls in list(HEADER_CLASSES) + list(PERIOD_ONLY):
        floors.append(("class " + cls, c.get("by_class", {}).get(cls, 0), 6))
    floors.append(("two_thread_switch_points", c.get("two_thread_switch_points", 0), 1500))
    if tier == "thorough":
        floors.append(("real_scrypt_blocks", c.get("real_scrypt_blocks", 0), 4))
        floors.append(("prefix_blocks_unvalidated", c.get("prefix_blocks_unvalidated", 0), 10000))
    if c.get("ref_valid_but_rejected", 0):
        m["inconclusive"].append("%d blocks the reference finds valid were rejected" % c["ref_valid_but_rejected"])
    return {
        "rule": "header candidates of 16 single-rule-broken classes + valid blocks from both assembly routes, on trees in "
                "two lanes (documented retarget period; configuration lane with period 4-8 and documented timespan, "
                "widely spaced timestamps), clock boundary pairs (ts = clock+30 / +31), pure-function comparisons of "
                "retarget arithmetic and chain sampling; thorough adds the real 10,080 period over an un-mined prefix and "
                "blocks mined with the unreplaced scrypt; chains of 64+ blocks whose candidates are also offered with the height field "
                "in its other spellings (whatever is accepted must be known to the node under an id below target); distinct = distinct candidates / pure inputs by digest",
        "floors": floors, "extra": {},
    }
