"""C11 - stream framing independent of fragmentation.

The real MessageReceiver (and, in the socket lane, the real LocalPeer.handle_remote_peer_selector_event
on an in-memory socket) is fed one byte stream under many fragmentations.  Every frame carries a unique
message id, so the delivered sequence is an unambiguous history: it must equal the reference frame
parser's result on the unfragmented stream (exactly once, in order), and a wrong magic / over-limit
length / undecodable payload must be refused at that frame under every fragmentation."""
import itertools
import random
import struct

from skv import env, ref, objgen
from skv.runner import digest

PROPERTY = "C11"
LEVEL = "exploration"
NSHARD = 16
SHARD_TIMEOUT = {"quick": 900, "thorough": 3600}


def shards(tier, seed):
    return [{"shard": i, "tier": tier, "seed": seed} for i in range(NSHARD)] + [{"lane": "real-sockets", "tier": tier, "seed": seed}]


class Stub:
    def __init__(self):
        self.log = []

    def handle_message_received(self, header, message):
        self.log.append((header.id, type(message).__name__, message))


def build_stream(g, rng, small):
    """returns dict(stream, frames=[payload...], expect=[ids], refuse=bool, kind)"""
    import skepticoin.networking.messages as ms
    nframes = rng.choice([1, 2, 2, 3, 3, 4, 5])
    kinds_small = ["get_peers", "get_data", "hello", "get_blocks_small", "inventory_small", "peers_small"]
    parts, ids, names = [], [], []
    for k in range(nframes):
        kind = rng.choice(kinds_small) if small else rng.choice(kinds_small + ["data", "inventory", "peers", "get_blocks"])
        if kind == "get_blocks_small":
            m = ms.GetBlocksMessage([objgen.h32(rng) for _ in range(rng.choice([0, 1, 2]))])
        elif kind == "inventory_small":
            m = ms.InventoryMessage([ms.InventoryItem(ms.DATA_BLOCK, objgen.h32(rng)) for _ in range(rng.choice([0, 1, 2]))])
        elif kind == "peers_small":
            m = ms.PeersMessage([ms.Peer(1, g.ip(rng), 2412) for _ in range(rng.choice([0, 1, 2]))])
        else:
            m = g.message(rng, kind)
        mid = 1000 + k
        h = ms.MessageHeader(objgen.pick_u32(rng), mid, rng.choice([0, 7]), objgen.pick_u64(rng))
        payload = h.serialize() + m.serialize()
        parts.append(ref.frame(payload))
        ids.append(mid)
        names.append(type(m).__name__)
    corrupt = rng.choice(["none", "none", "magic", "length", "length-max", "length-max+1", "payload", "short-tail", "stray-magic",
                          "frame-inside-frame"])
    at = rng.randrange(nframes)
    if corrupt == "magic":
        p = parts[at]
        pos = rng.randrange(4)
        parts[at] = p[:pos] + bytes([p[pos] ^ (1 << rng.randrange(8))]) + p[pos + 1:]
    elif corrupt == "length":
        p = parts[at]
        parts[at] = p[:4] + struct.pack(">I", rng.choice([ref.MAX_MESSAGE_SIZE + 1, 1 << 31, (1 << 32) - 1,
                                                           ref.MAX_MESSAGE_SIZE + rng.randrange(1, 1 << 20)])) + p[8:]
    elif corrupt == "length-max":
        p = parts[at]
        parts[at] = p[:4] + struct.pack(">I", ref.MAX_MESSAGE_SIZE) + p[8:]
    elif corrupt == "length-max+1":
        p = parts[at]
        parts[at] = p[:4] + struct.pack(">I", ref.MAX_MESSAGE_SIZE + 1) + p[8:]
    elif corrupt == "payload":
        p = parts[at]
        parts[at] = p[:8 + ref.MSG_HEADER_LEN] + b"\x7f\x7f" + p[8 + ref.MSG_HEADER_LEN + 2:]   # unknown message type
    elif corrupt == "stray-magic":
        parts[at] = ref.MAGIC + parts[at]           # the frame's own magic is now read as a (far over-limit) length
    elif corrupt == "frame-inside-frame":
        parts[at] = ref.frame(parts[at])            # a frame whose payload is itself a complete frame
    elif corrupt == "short-tail":
        parts.append(ref.frame(b"x" * 80)[:rng.randrange(1, 80)])
    stream = b"".join(parts)
    if corrupt in ("magic", "length", "length-max+1", "stray-magic") and rng.random() < 0.45:
        # the stream ENDS right after the corrupted frame header (4..8 bytes of it): the refusal is due in the very read
        # that brings those bytes, whatever else that read completed before them
        k = rng.choice([4, 5, 8]) if corrupt in ("magic", "stray-magic") else 8
        stream = b"".join(parts[:at]) + parts[at][:k]
        corrupt += "-then-end"
    return {"stream": stream, "corrupt": corrupt, "at": at, "ids": ids, "names": names}


def expected(stream, ms):
    """oracle from the reference frame parser: (ids delivered, refusal expected)"""
    import io
    payloads, refused, _rest = ref.parse_frames(stream)
    out = []
    refuse = refused is not None
    for p in payloads:
        try:
            hdr, body = ref.parse_msg_header(p)
            ref.parse_message(body)
            f = io.BytesIO(p)
            ms.MessageHeader.stream_deserialize(f)
            ms.Message.stream_deserialize(f)       # baseline decode by the real codec, unfragmented
        except Exception:
            refuse = True
            break
        out.append(hdr["id"])
    return out, refuse


_PEER_CLASS = []
FEEDS = [0]


def _peer_class(rp_mod):
    """a connection object of the real class whose dispatch is replaced by the recorder: bytes enter where the event loop
    hands them over (handle_receive_data), not at the receiver"""
    if not _PEER_CLASS:
        import logging

        class LP:
            logger = logging.getLogger("skv-c11")

        class P(rp_mod.ConnectedRemotePeer):
            def __init__(self):
                super().__init__(LP(), "10.9.9.9", 2412, "INCOMING", None, None, 0)
                self.stub = Stub()

            def handle_message_received(self, header, message):
                return self.stub.handle_message_received(header, message)
        _PEER_CLASS.append(P)
    return _PEER_CLASS[0]


def feed(rp_mod, chunks):
    FEEDS[0] += 1
    if FEEDS[0] % 8 == 0:
        stub = Stub()
        r = rp_mod.MessageReceiver(stub)
        take = r.receive
    else:
        peer = _peer_class(rp_mod)()
        stub = peer.stub
        take = peer.handle_receive_data
    exc = None
    fed = 0
    for c in chunks:
        try:
            take(c)
        except Exception as e:
            exc = e
            break
        fed += 1
    return stub.log, exc


def cuts_to_chunks(stream, cuts):
    prev = 0
    out = []
    for c in cuts:
        out.append(stream[prev:c])
        prev = c
    out.append(stream[prev:])
    return [x for x in out]


class Lane:
    def __init__(self, spec):
        import skepticoin.networking.remote_peer as rp
        import skepticoin.networking.messages as ms
        self.rp, self.ms = rp, ms
        self.viol = []
        self.c = {"streams": 0, "fragmentations": 0, "two_way": 0, "three_way": 0, "random_k_way": 0, "bytewise": 0,
                  "messages_delivered": 0, "refusals_observed": 0, "streams_by_corruption": {}, "deep_compared": 0,
                  "socket_lane_fragmentations": 0}
        self.distinct = 0
        self.samples = []

    def v(self, key, msg, w):
        if sum(1 for x in self.viol if x["key"] == key) < 3:
            self.viol.append({"key": key, "msg": msg, "witness": w})

    def check(self, info, exp_ids, exp_refuse, cuts, deep_base=None):
        stream = info["stream"]
        chunks = cuts_to_chunks(stream, cuts)
        log, exc = feed(self.rp, chunks)
        self.c["fragmentations"] += 1
        self.c["messages_delivered"] += len(log)
        got = [x[0] for x in log]
        w = {"stream": stream.hex(), "cuts": list(cuts), "corrupt": info["corrupt"]}
        if got != exp_ids:
            if got[:len(exp_ids)] == exp_ids and len(got) > len(exp_ids):
                key = "message-delivered-at-or-after-bad-frame" if exp_refuse else "message-delivered-twice-or-extra"
            elif exp_ids[:len(got)] == got:
                key = "well-formed-message-not-delivered"
            else:
                key = "messages-out-of-order-or-duplicated"
            self.v(key, "delivered ids %s, reference parser says %s (cuts %s, corruption %s)" % (
                got, exp_ids, list(cuts)[:6], info["corrupt"]), w)
        if exp_refuse:
            self.c["refusals_observed"] += 1 if exc is not None else 0
            if exc is None:
                self.v("bad-frame-not-refused", "stream with %s fully fed, no refusal (cuts %s)" % (
                    info["corrupt"], list(cuts)[:6]), w)
        elif exc is not None:
            self.v("well-formed-stream-refused", "refused a well-formed stream: %r (cuts %s)" % (exc, list(cuts)[:6]), w)
        if deep_base is not None:
            self.c["deep_compared"] += 1
            if [objgen.deep(x[2]) for x in log] != deep_base[:len(log)]:
                self.v("message-content-depends-on-fragmentation", "decoded content differs between fragmentations", w)
        return log

    def run_stream(self, info, rng, exhaustive, nrandom):
        stream = info["stream"]
        n = len(stream)
        self.c["streams"] += 1
        self.c["streams_by_corruption"][info["corrupt"]] = self.c["streams_by_corruption"].get(info["corrupt"], 0) + 1
        exp_ids, exp_refuse = expected(stream, self.ms)
        base = self.check(info, exp_ids, exp_refuse, ())
        deep_base = [objgen.deep(x[2]) for x in base]
        self.check(info, exp_ids, exp_refuse, tuple(range(1, n)), deep_base)     # byte at a time
        self.c["bytewise"] += 1
        cnt = 2
        if exhaustive:
            for a in range(1, n):
                self.check(info, exp_ids, exp_refuse, (a,))
                self.c["two_way"] += 1
            cnt += n - 1
            for a, b in itertools.combinations(range(1, n), 2):
                self.check(info, exp_ids, exp_refuse, (a, b))
            k = (n - 1) * (n - 2) // 2
            self.c["three_way"] += k
            cnt += k
        for _ in range(nrandom):
            k = rng.choice([1, 2, 3, 4, 7, 15, 40])
            cuts = tuple(sorted(rng.sample(range(1, n), min(k, n - 1)))) if n > 1 else ()
            self.check(info, exp_ids, exp_refuse, cuts, deep_base if rng.random() < 0.1 else None)
            self.c["random_k_way"] += 1
            cnt += 1
        self.distinct += cnt
        if len(self.samples) < 2:
            self.samples.append({"stream_len": n, "frames": info["names"], "corruption": info["corrupt"],
                                 "expected_ids": exp_ids, "refusal_expected": exp_refuse,
                                 "fragmentations": cnt, "stream_head": stream[:48].hex()})

    def result(self):
        return {"evaluations": self.c["fragmentations"], "distinct": self.distinct, "violations": self.viol,
                "counters": self.c, "samples": self.samples, "exhaustive": True}


class NullDisk:
    def save_block(self, block):
        pass

    def flush_blocks(self):
        pass

    def write_peers(self, peer):
        pass

    def save_transaction_for_debugging(self, t):
        pass


def socket_lane(lane, rng, nstreams):
    """the full path: real LocalPeer.handle_remote_peer_selector_event -> recv on an in-memory socket -> receiver ->
    handle_message_received, with the read sizes chosen by the harness"""
    from skv import simnet
    from skepticoin.coinstate import CoinState
    import skepticoin.networking.remote_peer as rp
    ms = lane.ms
    log = []
    orig = rp.ConnectedRemotePeer.handle_message_received

    def rec(self, header, message):
        # (what is delivered is judged AT delivery: the node is free to work on the message object afterwards)
        try:
            body = message.serialize()
        except Exception as e:
            body = repr(e).encode()
        log.append((header.id, type(message).__name__, body))
        return orig(self, header, message)
    rp.ConnectedRemotePeer.handle_message_received = rec
    from skepticoin.datatypes import Block
    real_blocks = [Block.deserialize(raw_) for (_h, _i, raw_) in env.recorded_blocks()][:3]
    try:
        for _ in range(nstreams):
            net = simnet.Net(rng)
            node = net.add_node("S", ("10.0.0.1", 2412), CoinState.zero(), NullDisk())
            wire = simnet.Wire(net.clock)
            gen_id = node.lp.chain_manager.coinstate.current_chain_hash
            frames = [wire.hello(nonce=rng.randrange(1 << 32))]
            if rng.random() < 0.35:
                # an announcement of blocks followed by some of the blocks themselves (recorded blocks of the real network): the
                # node crosses delivered blocks off the announcement it holds -- the same bytes arrive again on the next
                # connections of this node and must be extracted as what they say
                frames.append(wire.frame(ms.InventoryMessage([ms.InventoryItem(ms.DATA_BLOCK, b_.hash()) for b_ in real_blocks]),
                                         in_response_to=rng.choice([0, 5])))
                for b_ in real_blocks[:rng.choice([1, 2])]:
                    frames.append(wire.block(b_))
                lane.c["streams_with_announcement_and_blocks"] = lane.c.get("streams_with_announcement_and_blocks", 0) + 1
            for _k in range(rng.randint(1, 5)):
                kind = rng.randrange(6)
                m = [ms.GetPeersMessage(), ms.GetBlocksMessage([gen_id]), ms.GetBlocksMessage([objgen.h32(rng)]),
                     ms.InventoryMessage([]), ms.GetDataMessage(ms.DATA_BLOCK, rng.choice([gen_id, objgen.h32(rng)])),
                     ms.PeersMessage([ms.Peer(0, objgen.Gen.ip(None, rng), 2412)])][kind]
                frames.append(wire.frame(m, in_response_to=rng.choice([0, 5])))
            corrupt = rng.choice(["none", "none", "magic", "length", "payload"])
            at = rng.randrange(1, len(frames))
            if corrupt == "magic":
                frames[at] = b"MAJ1" + frames[at][4:]
            elif corrupt == "length":
                frames[at] = frames[at][:4] + struct.pack(">I", ref.MAX_MESSAGE_SIZE + 1) + frames[at][8:]
            elif corrupt == "payload":
                frames[at] = frames[at][:8 + ref.MSG_HEADER_LEN] + b"\x7f\x7f" + frames[at][8 + ref.MSG_HEADER_LEN + 2:]
            stream = b"".join(frames)
            exp_ids, exp_refuse = expected(stream, ms)
            exp_bodies = [p_[ref.MSG_HEADER_LEN:] for p_ in ref.parse_frames(stream)[0]][:len(exp_ids)]
            for rep in range(6):
                raw = net.raw_connect(node, src=("10.4.4.%d" % (rep + 1), 43000 + rep))
                del log[:]
                raw.push(stream)
                mode = rng.choice(["bytewise", "random", "whole", "pairs"])
                # in half of the cases the node's timers fire between reads, with its clock standing still, ticking, or jumping
                # ahead by minutes or hours (a slow peer; an NTP step; resume from suspend) -- the node meanwhile greets the peer,
                # asks it for blocks and runs into its own time-outs.  What was read so far stays read
                timers = rep % 2 == 1
                sizes = []
                guard = 0
                while raw.peer.in_flight and not raw.peer.closed and raw.peer in node.lp.selector.map and guard < 20000:
                    size = {"bytewise": 1, "whole": 1024, "pairs": 2}.get(mode) or rng.choice([1, 2, 3, 4, 5, 7, 8, 9, 50, 53, 57, 1024])
                    sizes.append(size)
                    net.do_read(node, raw.peer, size)
                    guard += 1
                    if timers and rng.random() < (0.08 if mode in ("bytewise", "pairs") else 0.5):
                        net.clock.t += rng.choice([0, 1, 59, 61, 61, 600, 7200])
                        net.do_step(node)
                        lane.c["timer_steps_between_reads"] = lane.c.get("timer_steps_between_reads", 0) + 1
                        wg = 0
                        while raw.peer in node.lp.selector.map and any(a[0] == "write" and a[2] is raw.peer for a in net.enabled()) and wg < 200:
                            net.do_write(node, raw.peer)
                            wg += 1
                        raw.take_received()
                lane.c["socket_lane_fragmentations"] += 1
                lane.c["fragmentations"] += 1
                lane.distinct += 1
                got = [x[0] for x in log]
                w = {"stream": stream.hex(), "cuts": [], "corrupt": corrupt, "lane": "socket", "sizes": sizes[:50], "timers_between_reads": timers}
                if got == exp_ids:
                    for k_, (x, eb) in enumerate(zip(log, exp_bodies)):
                        lane.c["delivered_bodies_compared"] = lane.c.get("delivered_bodies_compared", 0) + 1
                        if x[2] != eb:
                            lane.v("socket-lane:delivered-message-is-not-what-the-bytes-say", "message #%d (%s) of the stream, on connection "
                                   "#%d of this node: the message handed to the node encodes to %d bytes, the frame carried %d (read sizes "
                                   "%s)" % (k_, x[1], rep + 1, len(x[2]), len(eb), mode), w)
                            break
                closed = raw.peer.closed or raw.peer not in node.lp.selector.map
                if got != exp_ids:
                    lane.v("socket-lane:delivered-sequence-differs", "through the socket path ids %s were delivered, reference "
                           "parser says %s (read sizes %s, corruption %s)" % (got, exp_ids, mode, corrupt), w)
                if exp_refuse and not closed:
                    lane.v("socket-lane:bad-frame-not-refused", "connection still open after a %s frame (read sizes %s)" % (corrupt, mode), w)
                if not exp_refuse and closed:
                    lane.v("socket-lane:well-formed-stream-refused", "connection closed on a well-formed stream (read sizes %s)" % mode, w)
                if node.escaped:
                    lane.v("socket-lane:exception-escaped", node.escaped[0][:200], w)
                    node.escaped.clear()
    finally:
        rp.ConnectedRemotePeer.handle_message_received = orig


def many_frames_lane(lane, rng, n):
    """one large frame followed by more than a thousand minimal ones, through the real read path, with the transport handing
    over AS MUCH AS THE NODE ASKS FOR in each read (so the read size is the node's own choice, not the harness's): every
    well-formed message must be delivered, however the bytes happened to be available when the node read"""
    from skv import simnet
    from skepticoin.coinstate import CoinState
    import skepticoin.networking.remote_peer as rp
    import skepticoin.datatypes as dt
    import skepticoin.signing as sg
    ms = lane.ms
    log = []
    orig = rp.ConnectedRemotePeer.handle_message_received

    def rec(self, header, message):
        log.append(header.id)
        return orig(self, header, message)
    rp.ConnectedRemotePeer.handle_message_received = rec
    try:
        for k in range(n):
            net = simnet.Net(rng)
            node = net.add_node("S", ("10.0.0.1", 2412), CoinState.zero(), NullDisk())
            wire = simnet.Wire(net.clock)
            nout = rng.choice([900, 1400, 2000])
            cb = dt.Transaction([dt.Input(dt.OutputReference(b"\x00" * 32, 0), sg.CoinbaseData(9, b"big"))],
                                [dt.Output(1, sg.SECP256k1PublicKey(bytes([1 + i % 200]) * 64)) for i in range(nout)])
            blk = dt.Block(dt.BlockHeader(dt.BlockSummary(9, b"\x11" * 32, b"\x22" * 32, 1615757105, b"\xff" * 32, k),
                                          dt.PowEvidence(b"\x00" * 32, b"\x00" * 32, b"\x00" * 32)), [cb])
            big = wire.block(blk)
            nsmall = rng.choice([1100, 1500])
            frames = [wire.hello(nonce=rng.randrange(1 << 32)), big] + [wire.frame(ms.GetPeersMessage()) for _ in range(nsmall)]
            stream = b"".join(frames)
            exp_ids, exp_refuse = expected(stream, ms)
            head_len = len(frames[0])
            schedules = {
                "everything at once": [len(stream)],
                "most of the large frame, then the rest with all the small ones": [head_len + len(big) - rng.choice([200, 2000]), len(stream)],
                "half of the large frame, then the rest": [head_len + len(big) // 2, len(stream)],
                "greeting and the frame header first": [head_len + 8, head_len + len(big) - 100, len(stream)],
            }
            for name, cuts in schedules.items():
                raw = net.raw_connect(node, src=("10.4.5.%d" % (len(log) % 200 + 1), 43100 + k))
                del log[:]
                prev = 0
                for cut in cuts:
                    raw.push(stream[prev:cut])
                    prev = cut
                    guard = 0
                    while raw.peer.in_flight and not raw.peer.closed and raw.peer in node.lp.selector.map and guard < 5000:
                        net.do_read(node, raw.peer, 1 << 30)        # the transport has it all: the node gets what it asks for
                        guard += 1
                        # the selector reports a socket readable and writable in one event: the answers queued by this
                        # read leave before the next read (otherwise the SEND side's backlog, not the parser, is driven)
                        if raw.peer in node.lp.selector.map and any(a[0] == "write" and a[2] is raw.peer for a in net.enabled()):
                            net.do_write(node, raw.peer)
                            raw.take_received()
                    # answers are taken off the wire
                    wguard = 0
                    while raw.peer in node.lp.selector.map and any(a[0] == "write" and a[2] is raw.peer for a in net.enabled()) and wguard < 20000:
                        net.do_write(node, raw.peer)
                        wguard += 1
                    raw.take_received()
                lane.c["many_frames_schedules"] = lane.c.get("many_frames_schedules", 0) + 1
                lane.c["fragmentations"] += 1
                lane.distinct += 1
                w = {"stream": "", "cuts": cuts, "corrupt": "none", "lane": "many-frames", "schedule": name,
                     "large_frame_bytes": len(big), "small_frames": nsmall}
                closed = raw.peer.closed or raw.peer not in node.lp.selector.map
                if log != exp_ids:
                    lane.v("socket-lane:delivered-sequence-differs", "%d of %d well-formed messages were delivered when the bytes became "
                           "available as: %s" % (len(log), len(exp_ids), name), w)
                if closed and not exp_refuse:
                    lane.v("socket-lane:well-formed-stream-refused", "connection closed on a well-formed stream (%s)" % name, w)
                if node.escaped:
                    lane.v("socket-lane:exception-escaped", node.escaped[0][:200], w)
                    node.escaped.clear()
    finally:
        rp.ConnectedRemotePeer.handle_message_received = orig


def real_socket_lane():
    """auxiliary: the repository's own two integration tests (real TCP on loopback, real threads) with a per-connection
    receive-order monitor attached"""
    from skv import realsock
    rep = realsock.run_network_tests()
    res = {"evaluations": 0, "distinct": 0, "violations": [], "counters": {"real_socket_lane_runs": 0}, "samples": []}
    if rep is None:
        res["counters"]["real_socket_lane_not_run_cleanly"] = 1
        return res
    res["counters"].update({"real_socket_lane_runs": 1, "real_socket_messages": rep["messages"],
                            "real_socket_connections": rep["connections"], "real_socket_recv_calls": rep["recv_calls"],
                            "real_socket_recv_sizes": rep["recv_sizes"]})
    res["evaluations"] = rep["messages"]
    for v in rep["order_violations"][:3]:
        res["violations"].append({"key": "real-socket-lane:message-ids-not-consecutive", "msg": v, "witness": {"lane": "real-sockets"}})
    res["samples"].append({"lane": "real-sockets", "messages": rep["messages"], "connections": rep["connections"]})
    return res


def big_frames(lane, g, rng, n):
    """the largest message honest nodes exchange: a data message carrying a block of exactly the maximum block size (and of
    sizes just below it), between two small messages -- well-formed, so it must be delivered under every fragmentation"""
    import skepticoin.networking.messages as ms
    import skepticoin.datatypes as dt
    import skepticoin.signing as sg
    for k in range(n):
        size = ref.MAX_BLOCK_SIZE - rng.choice([0, 0, 1, 4, 5, 6, 100])
        blk = None
        for nout in range(2745, 2700, -1):
            for d in range(0, 200):
                cb = dt.Transaction([dt.Input(dt.OutputReference(b"\x00" * 32, 0), sg.CoinbaseData(7, b"\x5a" * d))],
                                    [dt.Output(1, sg.SECP256k1PublicKey(bytes([1 + i % 200]) * 64)) for i in range(nout)])
                b = dt.Block(dt.BlockHeader(dt.BlockSummary(7, b"\x11" * 32, b"\x22" * 32, 1615757105, b"\xff" * 32, k),
                                            dt.PowEvidence(b"\x00" * 32, b"\x00" * 32, b"\x00" * 32)), [cb])
                ln = len(b.serialize())
                if ln == size:
                    blk = b
                    break
                if ln > size:
                    break
            if blk is not None:
                break
        if blk is None:
            continue
        parts, ids, names = [], [], []
        for j, m in enumerate([ms.GetPeersMessage(), ms.DataMessage(ms.DATA_BLOCK, blk), ms.GetBlocksMessage([objgen.h32(rng)])]):
            h = ms.MessageHeader(objgen.pick_u32(rng), 3000 + j, 0, 7)
            parts.append(ref.frame(h.serialize() + m.serialize()))
            ids.append(3000 + j)
            names.append(type(m).__name__)
        stream = b"".join(parts)
        info = {"stream": stream, "corrupt": "none", "at": 0, "ids": ids, "names": names}
        exp_ids, exp_refuse = expected(stream, lane.ms)
        N = len(stream)
        lane.c["streams"] += 1
        lane.c["largest_legitimate_messages"] = lane.c.get("largest_legitimate_messages", 0) + 1
        lane.check(info, exp_ids, exp_refuse, ())
        lane.check(info, exp_ids, exp_refuse, tuple(range(1024, N, 1024)))
        for _ in range(4):
            kk = rng.choice([1, 3, 20, 200])
            lane.check(info, exp_ids, exp_refuse, tuple(sorted(rng.sample(range(1, N), kk))))
        lane.distinct += 6


def run_shard(spec):
    env.boot(fake_scrypt=False, horizon_off=False)
    if spec.get("lane") == "real-sockets" or ("replay" in spec and spec["replay"].get("lane") == "real-sockets"):
        return real_socket_lane()
    if "replay" in spec and spec["replay"].get("lane") == "many-frames":
        lane = Lane({"seed": 0, "shard": 0})
        many_frames_lane(lane, random.Random(1), 1)
        return lane.result()
    lane = Lane(spec)
    g = objgen.Gen()
    if "replay" in spec:
        w = spec["replay"]
        info = {"stream": bytes.fromhex(w["stream"]), "corrupt": w.get("corrupt", "?"), "names": []}
        exp_ids, exp_refuse = expected(info["stream"], lane.ms)
        lane.check(info, exp_ids, exp_refuse, tuple(w["cuts"]))
        return lane.result()
    rng = random.Random("c11/%d/%d" % (spec["seed"], spec["shard"]))
    quick = spec["tier"] == "quick"
    # exhaustive 2-/3-way cuts of short streams
    nshort = 4 if quick else 40
    done = 0
    while done < nshort:
        info = build_stream(g, rng, small=True)
        if len(info["stream"]) > (330 if quick else 400):
            continue
        lane.run_stream(info, rng, exhaustive=True, nrandom=200)
        done += 1
    # longer streams: random k-way cuts
    for _ in range(60 if quick else 1500):
        info = build_stream(g, rng, small=False)
        lane.run_stream(info, rng, exhaustive=False, nrandom=60 if len(info["stream"]) < 4000 else 12)
    socket_lane(lane, rng, 25 if quick else 600)
    if spec["shard"] % 4 == 0:
        big_frames(lane, g, rng, 1 if quick else 5)
    if spec["shard"] % 4 == 2:
        many_frames_lane(lane, rng, 1 if quick else 4)
    return lane.result()


def finalize(m, tier):
    c = m["counters"]
    return {
        "rule": "streams of 1-5 framed messages with unique ids (all message types), optionally corrupted (magic bit, "
                "over-limit length, length = limit, unknown type, incomplete tail); every 2-way and 3-way cut of each short "
                "stream (exhaustive per stream), byte-at-a-time, unfragmented, random k-way cuts of longer ones. distinct = "
                "distinct (stream, cut set) pairs by construction; non-trivial = every fragmentation other than the "
                "unfragmented baseline",
        "floors": [("fragmentations", c.get("fragmentations", 0), 200000), ("three_way", c.get("three_way", 0), 100000),
                   ("refusals_observed", c.get("refusals_observed", 0), 1000), ("streams", c.get("streams", 0), 200),
                   ("messages_delivered", c.get("messages_delivered", 0), 100000),
                   ("largest_legitimate_messages", c.get("largest_legitimate_messages", 0), 3),
                   ("many_frames_schedules", c.get("many_frames_schedules", 0), 12),
                   ("timer_steps_between_reads", c.get("timer_steps_between_reads", 0), 300)],
        "extra": {"exhaustive_bound": "all 2- and 3-way cuts of every short stream (<= 330/400 bytes)"},
    }
