"""C01 - no unauthorised or double spending in any fully validated block.

Boundary recorder + oracle on CoinState.add_block: accepted => the reference model, replaying the
parent's ancestors itself, finds every ordinary input existing, unspent, unrepeated, not created in
the same block and carrying a verifying signature over the complete blanked transaction; raised =>
the receiver state is bit-for-bit what it was and still accepts a following valid block."""
import random

from skv import env, ref, cstream

PROPERTY = "C01"
LEVEL = "exploration"
NSHARD = 16
SHARD_TIMEOUT = {"quick": 900, "thorough": 3600}
SPEND_CODES = {"missing-input", "badsig", "dup-ref-tx", "dup-ref-block", "nullref", "nonsig", "tx-noin"}


def shards(tier, seed):
    return [{"shard": i, "tier": tier, "seed": seed} for i in range(NSHARD)]



def _replay_route_story(spec):
    from skv.props import c09
    env.boot()
    mon = c09.route_histories(random.Random(1), 8, 14, c09.all_classes(), "replay-route", story_share=0.8)
    return {"evaluations": mon.c.get("deliveries", 0), "distinct": mon.c.get("download_route_stories", 0),
            "violations": [{"key": "node-route:" + v["key"], "msg": v["msg"], "witness": v["witness"]} for v in mon.viol[:6]],
            "counters": {"route_lane_stories": mon.c.get("download_route_stories", 0)}, "digests": []}

def run_shard(spec):
    if "replay" in spec and isinstance(spec["replay"], dict) and spec["replay"].get("kind") == "download-route-story":
        # (the story is re-run with this check's classes on the current tree; the recorded chain is for the reader)
        return _replay_route_story(spec)
    env.boot()
    st = cstream.Stream(SPEND_CODES, "accepted-despite")
    if "replay" in spec:
        st.replay(spec["replay"], random.Random(0))
        return st.result()
    rng = random.Random("c01/%d/%d" % (spec["seed"], spec["shard"]))
    quick = spec["tier"] == "quick"
    for j in range(4 if quick else 60):
        world = st.run_world(rng, cstream.C01_CLASSES, nblocks=rng.choice([8, 14, 22, 30]), ncand=45 if quick else 60)
        st.two_thread_lane(world, rng, 3 if quick else 6)
    for _ in range(1 if quick else 10):       # every candidate the first block above the checkpoint horizon
        st.run_world(rng, cstream.C01_CLASSES, nblocks=rng.choice([8, 14]), ncand=30 if quick else 50, horizon_at_head=True)
    # well-filled blocks (12-21 ordinary transactions) in which ONE transaction breaks a rule
    for _ in range(1 if quick else 12):
        st.run_world(rng, cstream.C01_CROWDED, nblocks=rng.choice([30, 40]), ncand=16 if quick else 28)
    if spec["shard"] % 4 == 3:
        node_lane(st, rng, 3 if quick else 40)
    return st.result()


def node_lane(st, rng, nhist):
    """'full validation' is also the path relayed blocks take: the spend classes are delivered over the wire to a real node
    with the real store (per-delivery oracle of C09: state, chain table, write buffer, pool, relays), then the node is
    'restarted' -- the chain state is rebuilt from the store by the repository's own loader -- and must not contain any
    block that was refused"""
    import io
    import sys
    from skv.props import c09
    import skepticoin.scripts.utils as su
    import skepticoin.blockstore as bs
    from skepticoin.blockstore import BlockStore
    classes = dict(cstream.C01_CLASSES)
    for j in range(nhist):
        mon = c09.Monitor()
        h = c09.History(mon, rng, "c01-%d" % j)
        refused = []
        orig_deliver = h.deliver

        def deliver(rblk, cls, must, may, _h=h, _od=orig_deliver):
            before = mon.c["rejected"]
            _od(rblk, cls, must, may)
            if mon.c["rejected"] > before:
                refused.append((rblk.id(), cls))
        h.deliver = deliver
        path = h.path
        # History.run removes the database file at the end: keep a copy for the restart
        import shutil
        import os as _os
        _rm = _os.remove
        try:
            _os.remove = lambda p_: shutil.copy(p_, p_ + ".kept") or _rm(p_) if p_ == path else _rm(p_)
            h.run(rng.choice([25, 40]), classes)
        finally:
            _os.remove = _rm
        st.c["node_lane_deliveries"] = st.c.get("node_lane_deliveries", 0) + mon.c["deliveries"]
        st.c["node_lane_refused"] = st.c.get("node_lane_refused", 0) + len(refused)
        for v in mon.viol:
            st.v("relay-path:" + v["key"], v["msg"], v["witness"])
        kept = path + ".kept"
        if _os.path.exists(kept):
            out = sys.stdout
            sys.stdout = io.StringIO()
            try:
                store = BlockStore(kept)
                old = bs.DefaultBlockStore.instance
                bs.DefaultBlockStore.instance = store
                try:
                    rebuilt = su.read_chain_from_disk()
                finally:
                    bs.DefaultBlockStore.instance = old
                    store.close()
            finally:
                sys.stdout = out
            _os.remove(kept)
            st.c["node_lane_restarts"] = st.c.get("node_lane_restarts", 0) + 1
            for bid, cls in refused:
                if bid in h.world.chain.blocks:
                    continue            # (a child that first arrived before its parent and was accepted when it came again)
                if bid in rebuilt.block_by_hash:
                    st.v("refused-block-in-chain-state-after-restart", "class %s: a block refused on the relay path is part of the chain "
                         "state rebuilt from the block store" % cls, {"lane": "node", "class": cls})
                    break


def finalize(m, tier):
    c = m["counters"]
    floors = [("attempts", c.get("attempts", 0), 500),
              ("candidates_first_above_horizon", c.get("candidates_first_above_horizon", 0), 200), ("accepted_with_ordinary_tx", c.get("accepted_with_ordinary_tx", 0), 50),
              ("followup_valid_accepted", c.get("followup_valid_accepted", 0), 50),
              ("parents_losing_tip", c.get("parents_losing_tip", 0), 50), ("parents_old", c.get("parents_old", 0), 50),
              ("node_lane_refused", c.get("node_lane_refused", 0), 60), ("node_lane_restarts", c.get("node_lane_restarts", 0), 6),
              ("two_thread_switch_points", c.get("two_thread_switch_points", 0), 3000)]
    for cls in cstream.C01_CLASSES:
        floors.append(("class " + cls, c.get("by_class", {}).get(cls, 0), 8))
    floors.append(("well-filled blocks (12+ transactions)", sum(v for k, v in c.get("by_class", {}).items() if k.startswith("crowded:")), 40))
    if c.get("ref_valid_but_rejected", 0):
        m["inconclusive"].append("%d blocks the reference finds valid were rejected by add_block (oracle/real "
                                 "disagreement outside this property)" % c["ref_valid_but_rejected"])
    return {
        "rule": "block trees of 8-30 mined blocks with forks/reorganisations and transactions; candidates of 12 adversarial "
                "spend classes + valid ones on head / losing tips / old blocks, each re-mined so that the reference model "
                "confirms only the intended rule is broken; distinct = distinct (candidate bytes, clock) by digest; "
                "non-trivial = every candidate that reached add_block (class mismatches are dropped and counted)",
        "floors": floors, "extra": {},
    }
