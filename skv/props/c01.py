"""C01 - no unauthorised or double spending in any fully validated block.

Boundary recorder + oracle on CoinState.add_block: accepted => the reference model, replaying the
parent's ancestors itself, finds every ordinary input existing, unspent, unrepeated, not created in
the same block and carrying a verifying signature over the complete blanked transaction; raised =>
the receiver state is bit-for-bit what it was and still accepts a following valid block."""
import random

from skv import env, ref, cstream

PROPERTY = "C01"
LEVEL = "exploration"
NSHARD = 16
SHARD_TIMEOUT = {"quick": 900, "thorough": 3600}
SPEND_CODES = {"missing-input", "badsig", "dup-ref-tx", "dup-ref-block", "nullref", "nonsig", "tx-noin"}


def shards(tier, seed):
    return [{"shard": i, "tier": tier, "seed": seed} for i in range(NSHARD)]


def run_shard(spec):
    env.boot()
    st = cstream.Stream(SPEND_CODES, "accepted-despite")
    if "replay" in spec:
        st.replay(spec["replay"], random.Random(0))
        return st.result()
    rng = random.Random("c01/%d/%d" % (spec["seed"], spec["shard"]))
    quick = spec["tier"] == "quick"
    for _ in range(4 if quick else 60):
        st.run_world(rng, cstream.C01_CLASSES, nblocks=rng.choice([8, 14, 22, 30]), ncand=45 if quick else 60)
    return st.result()


def finalize(m, tier):
    c = m["counters"]
    floors = [("attempts", c.get("attempts", 0), 500), ("accepted_with_ordinary_tx", c.get("accepted_with_ordinary_tx", 0), 50),
              ("followup_valid_accepted", c.get("followup_valid_accepted", 0), 50),
              ("parents_losing_tip", c.get("parents_losing_tip", 0), 50), ("parents_old", c.get("parents_old", 0), 50)]
    for cls in cstream.C01_CLASSES:
        floors.append(("class " + cls, c.get("by_class", {}).get(cls, 0), 8))
    if c.get("ref_valid_but_rejected", 0):
        m["inconclusive"].append("%d blocks the reference finds valid were rejected by add_block (oracle/real "
                                 "disagreement outside this property)" % c["ref_valid_but_rejected"])
    return {
        "rule": "block trees of 8-30 mined blocks with forks/reorganisations and transactions; candidates of 12 adversarial "
                "spend classes + valid ones on head / losing tips / old blocks, each re-mined so that the reference model "
                "confirms only the intended rule is broken; distinct = distinct (candidate bytes, clock) by digest; "
                "non-trivial = every candidate that reached add_block (class mismatches are dropped and counted)",
        "floors": floors, "extra": {},
    }
