"""C20 - malformed input from a peer is contained to that connection.

Node as in C09 with one hostile and two honest greeted peers (one of them in the middle of a block
download).  Hostile byte streams are built from real protocol traffic whose valid content the node
already has (or that is invalid) and then corrupted; therefore any change of chain state, pool, store
tables or write buffer is illegitimate.  After every stream: no exception escaped the entry points,
fingerprints unchanged, honest connections still registered and answering probes correctly."""
import random
import signal
import struct

from skv import env, ref, gen, bridge, nodekit, simnet, cstream, objgen
from skv.runner import digest
from skv.props import c09, c05

PROPERTY = "C20"
LEVEL = "exploration"
NSHARD = 16
SHARD_TIMEOUT = {"quick": 900, "thorough": 3600}


def shards(tier, seed):
    return [{"shard": i, "tier": tier, "seed": seed} for i in range(NSHARD)]


class Hang(Exception):
    pass


def _alarm(signum, frame):
    raise Hang()


class Monitor:
    def __init__(self):
        self.viol = []
        self.c = {"setups": 0, "streams": 0, "by_kind": {}, "hostile_disconnected": 0, "hostile_survived": 0,
                  "fingerprints_compared": 0, "honest_probes": 0, "honest_probe_answers_checked": 0,
                  "downloads_completed_after_hostile_phase": 0, "hangs": 0, "out_of_domain_bulk_block": 0,
                  "streams_before_greeting": 0, "fragmented_streams": 0, "bytes_sent": 0, "frames_well_formed_but_invalid": 0}
        self.digests = set()
        self.samples = []
        self.inconclusive = []

    def v(self, key, msg, w):
        if sum(1 for x in self.viol if x["key"] == key) < 3:
            self.viol.append({"key": key, "msg": msg, "witness": w})


class Setup:
    def __init__(self, mon, rng, idx):
        self.mon, self.rng = mon, rng
        self.world = world = gen.World(rng)
        world.bad_key_prob = 0.05
        world.grow(rng.choice([6, 10, 14]), rng, tx_prob=0.6)
        self.sn = sn = nodekit.SingleNode(world, rng, "c20-%d" % idx, npeers=2)
        self.honest = list(sn.peers)
        self.g = objgen.Gen()
        # in a third of the setups the node has just found a block ITSELF (through the real miner front end): the state the
        # miner handed over is as much "the node's chain state" as one built from peers' blocks
        self.mined_own = None
        if rng.random() < 0.35:
            try:
                self.mined_own = nodekit.mine_with_real_miner(sn, world, rng)
            except Exception:
                self.mined_own = None
            if self.mined_own is not None:
                mon.c["setups_after_own_mined_block"] = mon.c.get("setups_after_own_mined_block", 0) + 1
                for r in self.honest:
                    r.take_received()
        # pool content
        head = world.cs.current_chain_hash
        used = set()
        self.pooled = []
        for _ in range(rng.randint(1, 3)):
            t = world.make_rtx(head, rng, exclude=used)
            if t is not None and sn.cm.add_transaction_to_pool(bridge.rtx_to_real(t)):
                used.update(t.refs())
                self.pooled.append(t)
        # honest peer #1 is in the middle of a download: it announced two blocks the node does not have yet
        # (a chain of 1-3 blocks; in half of the setups the first of them have already ARRIVED as bulk-download replies when
        # the hostile phase starts: the node then holds blocks it has, by design, not validated in state yet)
        self.future_blocks = []
        self.tmp = tmp = world.fork()
        fh = head
        for _ in range(rng.choice([1, 2, 3])):
            parent = tmp.chain.blocks[fh]
            rb = tmp.mine(tmp.draft(fh, [], parent.ts + 10, tmp.keys[0][1]))
            if tmp.accept(rb, bridge.rblock_to_real(rb)) is None:
                break
            self.future_blocks.append(rb)
            fh = rb.id()
        rb1 = self.future_blocks[0]
        ms = sn.wire.ms
        sn.net.clock.t = max(sn.net.clock.t, self.future_blocks[-1].ts + 50)
        sn.net.do_step(sn.node)
        sn.settle()
        sent = simnet.Wire.parse(self.honest[1].take_received())[0]
        gb = [m for m in sent if m["msg"]["type"] == "get_blocks"]
        irt = gb[-1]["header"]["id"] if gb else 0
        self.honest[1].push(sn.wire.frame(ms.InventoryMessage([ms.InventoryItem(ms.DATA_BLOCK, rb.id()) for rb in self.future_blocks]),
                                          in_response_to=irt))
        sn.settle()
        out = simnet.Wire.parse(self.honest[1].take_received())[0]
        self.getdata = [m for m in out if m["msg"]["type"] == "get_data" and m["msg"]["hash"] == rb1.id()]
        self.getdata_by_hash = {m["msg"]["hash"]: m["header"]["id"] for m in out if m["msg"]["type"] == "get_data"}
        self.delivered_early = 0
        if len(self.future_blocks) > 1 and rng.random() < 0.6 and all(rb.id() in self.getdata_by_hash for rb in self.future_blocks):
            for rb in self.future_blocks[:rng.randint(1, len(self.future_blocks) - 1)]:
                self.honest[1].push(sn.wire.block(bridge.rblock_to_real(rb), in_response_to=self.getdata_by_hash[rb.id()]))
                sn.settle()
                if rb.id() in sn.cm.coinstate.block_by_hash:
                    self.delivered_early += 1
            if self.delivered_early:
                mon.c["setups_holding_unvalidated_bulk_blocks"] = mon.c.get("setups_holding_unvalidated_bulk_blocks", 0) + 1
        self.baseline_cs = sn.cm.coinstate
        self.baseline_buffer = list(sn.store.write_buffer)
        world.now = sn.net.clock.t          # (the clock may have been moved on: rule codes are judged at the node's time)
        self.corpus = self.build_corpus()

    def build_corpus(self):
        """well-formed frames whose valid content the node already has, or that is invalid"""
        world, rng, sn = self.world, self.rng, self.sn
        ms = sn.wire.ms
        wire = sn.wire
        frames = []
        order = world.chain.order
        known = [world.real[b] for b in order[1:]]
        frames.append(("hello", wire.hello(nonce=777)))
        frames.append(("get-blocks", wire.frame(ms.GetBlocksMessage([rng.choice(order), order[0]]))))
        frames.append(("get-blocks-unknown", wire.frame(ms.GetBlocksMessage([objgen.rb(rng, 32)]))))
        frames.append(("inventory-known", wire.frame(ms.InventoryMessage([ms.InventoryItem(ms.DATA_BLOCK, b) for b in order[:4]]), in_response_to=3)))
        frames.append(("inventory-empty", wire.frame(ms.InventoryMessage([]), in_response_to=3)))
        frames.append(("inventory-oversize", wire.frame(ms.InventoryMessage([ms.InventoryItem(ms.DATA_BLOCK, order[0])] * 501))))
        frames.append(("get-data-known", wire.frame(ms.GetDataMessage(ms.DATA_BLOCK, rng.choice(order)))))
        frames.append(("get-data-unknown", wire.frame(ms.GetDataMessage(ms.DATA_BLOCK, objgen.rb(rng, 32)))))
        frames.append(("get-data-transaction", wire.frame(ms.GetDataMessage(ms.DATA_TRANSACTION, objgen.rb(rng, 32)))))
        frames.append(("get-data-header", wire.frame(ms.GetDataMessage(ms.DATA_HEADER, rng.choice(order)))))
        for blk in rng.sample(known, min(3, len(known))):
            frames.append(("data-known-block", wire.block(blk)))
            frames.append(("data-header", wire.frame(ms.DataMessage(ms.DATA_HEADER, blk.header))))
        for t in self.pooled:
            frames.append(("data-pooled-transaction", wire.transaction(bridge.rtx_to_real(t))))
        # copies of blocks an honest peer has announced but not delivered yet, with the HEADER intact and one bit of the body
        # altered (they decode; the commitment in the header does not match) -- the genuine blocks arrive from the honest peer
        # after the hostile phase and must be taken then
        for rb in getattr(self, "future_blocks", [])[getattr(self, "delivered_early", 0):]:
            fr = bytearray(wire.block(bridge.rblock_to_real(rb)))
            fr[-rng.randint(1, 60)] ^= 1 << rng.randrange(8)
            frames.append(("data-invalid-block:announced-block-with-altered-body", bytes(fr)))
            frames.append(("data-invalid-block:announced-block-with-altered-body", bytes(fr)))
            self.mon.c["corpus_frames_announced_block_with_altered_body"] = self.mon.c.get("corpus_frames_announced_block_with_altered_body", 0) + 1
        frames.append(("get-peers", wire.frame(ms.GetPeersMessage())))
        frames.append(("peers", wire.frame(ms.PeersMessage([ms.Peer(0, self.g.ip(rng), 2412) for _ in range(3)]))))
        # structurally invalid blocks / transactions of every by-itself class (and rule-breaking ones), unsolicited
        classes = c09.all_classes()
        head = world.cs.current_chain_hash
        for name in sorted(classes):
            if name.startswith("valid") or name in ("reward-exactly-at-bound", "reward-below-bound", "exact-spend-fee-zero",
                                                    "reward-split-outputs", "oversize"):
                continue
            try:
                built = classes[name](world, head, rng)
            except Exception:
                built = None
            if not built:
                continue
            rblk, must, may = built
            if not must or not ref.block_codes(world.chain, rblk, world.now):
                continue
            frames.append(("data-invalid-block:" + name, wire.block(bridge.rblock_to_real(rblk))))
        from skv.props import c13
        for name in sorted(c13.SUBMISSIONS):
            if name in ("valid", "conflicting-with-pooled"):
                continue
            try:
                t = c13.SUBMISSIONS[name](world, head, self.pooled, rng)
            except Exception:
                t = None
            if t is None:
                continue
            led = world.ledger(head)
            if name != "duplicate-of-pooled" and not (ref.tx_codes_by_itself(t) | ref.tx_codes_in_ledger(t, led)):
                continue
            frames.append(("data-invalid-transaction:" + name, wire.transaction(bridge.rtx_to_real(t))))
        return frames

    def hostile_stream(self):
        """(kind, bytes, greeted?)"""
        rng = self.rng
        name, fr = rng.choice(self.corpus)
        kind = rng.choice(["as-is", "bit-flip", "byte-flip", "truncate", "splice", "reorder", "before-greeting",
                           "undecodable-payload", "unknown-type", "bad-magic", "over-limit-length", "random-bytes",
                           "huge-list-length", "multi-flip", "garbage-after-frame", "valid-content-before-greeting",
                           "request-then-close", "request-then-reset", "peer-book-story", "early-block-story"])
        greeted = kind not in ("before-greeting", "valid-content-before-greeting")
        if kind == "peer-book-story":
            return "peers", kind, b"", True         # (built in run(), once the connection's address is known)
        if kind == "early-block-story":
            built = self.early_block() if rng.random() < 0.5 else None
            if built is None:
                kind = "as-is"
            else:
                return built[0], kind, built[1], True
        if kind == "valid-content-before-greeting":
            # out of protocol order: perfectly valid NEW content, but sent before the greeting -> must change nothing
            world, sn = self.world, self.sn
            head = sn.cm.coinstate.current_chain_hash
            if head not in world.chain.blocks:
                world = self.tmp            # (the head is one of the bulk-download blocks delivered before the hostile phase)
            if head not in world.chain.blocks:
                self.mon.inconclusive.append("the node's head is a block the harness did not give it")
                return name, "as-is", fr, True
            if rng.random() < 0.5:
                used = {r for t in self.pooled for r in t.refs()}
                t = world.make_rtx(head, rng, exclude=used, signer="ref")
                if t is not None:
                    return "valid-new-transaction", kind, sn.wire.transaction(bridge.rtx_to_real(t)), False
            parent = world.chain.blocks[head]
            rb = world.mine(world.draft(head, [], parent.ts + 5, world.keys[0][1]))
            return "valid-new-block", kind, sn.wire.block(bridge.rblock_to_real(rb)), False
        if kind in ("request-then-close", "request-then-reset"):
            # well-formed requests whose answers the node will try to SEND to a connection that is already gone
            ms = self.sn.wire.ms
            order = self.world.chain.order
            fs = [self.sn.wire.frame(ms.GetDataMessage(ms.DATA_BLOCK, rng.choice(order))) for _ in range(rng.randint(1, 6))]
            fs.append(self.sn.wire.frame(ms.GetBlocksMessage([order[0]])))
            rng.shuffle(fs)
            return "requests", kind, b"".join(fs), True
        if kind == "as-is" or kind == "before-greeting":
            data = fr
            if name.startswith("data-invalid"):
                self.mon.c["frames_well_formed_but_invalid"] += 1
        elif kind == "bit-flip":
            b = bytearray(fr)
            p = rng.randrange(len(b))
            b[p] ^= 1 << rng.randrange(8)
            data = bytes(b)
        elif kind == "byte-flip":
            b = bytearray(fr)
            p = rng.randrange(len(b))
            b[p] = rng.choice([0, 1, 2, 0x7f, 0x80, 0xff])
            data = bytes(b)
        elif kind == "multi-flip":
            b = bytearray(fr)
            for _ in range(rng.randint(2, 6)):
                b[rng.randrange(8, len(b))] ^= 1 << rng.randrange(8)
            data = bytes(b)
        elif kind == "truncate":
            data = fr[:rng.randrange(1, len(fr))] + rng.choice([b"", self.corpus[0][1]])
        elif kind == "splice":
            other = rng.choice(self.corpus)[1]
            data = fr[:rng.randrange(len(fr))] + other[rng.randrange(len(other)):]
        elif kind == "reorder":
            fs = [rng.choice(self.corpus)[1] for _ in range(rng.randint(2, 4))]
            data = b"".join(fs)
        elif kind == "undecodable-payload":
            payload = fr[8:]
            cut = ref.MSG_HEADER_LEN + 2 + rng.randrange(0, max(1, len(payload) - ref.MSG_HEADER_LEN - 2))
            data = ref.frame(payload[:cut])
        elif kind == "unknown-type":
            payload = bytearray(fr[8:])
            if rng.random() < 0.5:
                payload[ref.MSG_HEADER_LEN:ref.MSG_HEADER_LEN + 2] = struct.pack(">H", rng.choice([7, 8, 255, 65535]))
            elif len(payload) > ref.MSG_HEADER_LEN + 5:
                payload[ref.MSG_HEADER_LEN + 3:ref.MSG_HEADER_LEN + 5] = struct.pack(">H", rng.choice([3, 9, 65535]))   # data type
            data = ref.frame(bytes(payload))
        elif kind == "bad-magic":
            data = rng.choice([b"MAJ1", b"\x00\x00\x00\x00", b"majI"]) + fr[4:]
        elif kind == "over-limit-length":
            data = fr[:4] + struct.pack(">I", rng.choice([ref.MAX_MESSAGE_SIZE + 1, (1 << 32) - 1])) + fr[8:]
        elif kind == "huge-list-length":
            hdr = fr[8:8 + ref.MSG_HEADER_LEN]
            body = rng.choice([b"\x00\x02\x00", b"\x00\x01\x00", b"\x00\x06\x00"]) + b"\xff" * rng.choice([1, 5, 9]) + b"\x7f" + objgen.rb(rng, 40)
            data = ref.frame(hdr + body)
        elif kind == "garbage-after-frame":
            data = fr + objgen.rb(rng, rng.choice([1, 7, 64]))
        else:
            data = objgen.rb(rng, rng.choice([1, 3, 4, 8, 9, 60, 500]))
        return name, kind, data, greeted

    def early_block(self):
        """a rule-breaking block (of any class) stamped just inside / at / just beyond the node's tolerance for timestamps ahead
        of its clock; afterwards the node's clock moves on past the stamp and its timers fire.  The block breaks its rule at
        every clock value, so it must never change anything.  (name, frame) or None"""
        world, sn, rng = self.world, self.sn, self.rng
        head = sn.cm.coinstate.current_chain_hash
        if head not in world.chain.blocks:
            return None
        classes = c09.all_classes()
        names = [n for n in sorted(classes) if not n.startswith("valid") and n not in (
            "reward-exactly-at-bound", "reward-below-bound", "exact-spend-fee-zero", "reward-split-outputs", "oversize")]
        for _try in range(4):
            name = rng.choice(names)
            try:
                built = classes[name](world, head, rng)
                if not built:
                    continue
                rb = built[0]
                now = sn.net.clock.t
                rb.ts = max(world.chain.blocks[rb.prev].ts + 1, now + rng.choice([29, 30, 31, 31, 35, 45, 59, 60, 61]))
                rb._enc = rb._id = None
                rb = world.mine(rb)
            except Exception:
                continue
            if not ref.block_codes(world.chain, rb, rb.ts + 1000):
                continue        # (valid once the clock has caught up: not a rule-breaking block)
            self.mon.c["early_block_stories"] = self.mon.c.get("early_block_stories", 0) + 1
            return "data-invalid-block-stamped-ahead:" + name, sn.wire.block(bridge.rblock_to_real(rb))
        return None

    def clock_moves_on(self):
        """the node's clock advances past what was 'the future' a moment ago and its timers fire; corpus frames that were
        rule-breaking only because of their stamp are dropped from the corpus"""
        sn, rng, world = self.sn, self.rng, self.world
        for _ in range(rng.choice([1, 2])):
            sn.net.clock.t += rng.choice([31, 40, 65, 90])
            sn.net.do_step(sn.node)
            sn.settle()
        world.now = sn.net.clock.t
        kept = []
        for name, fr in self.corpus:
            if name.startswith("data-invalid-block") and ("future" in name or "stamped-ahead" in name):
                try:
                    payloads, _r, _rest = ref.parse_frames(fr)
                    _hdr, body = ref.parse_msg_header(payloads[0])
                    rb = ref.dec_block(body[5:], strict=False)[0]
                    if rb.prev in world.chain.blocks and not ref.block_codes(world.chain, rb, world.now):
                        continue
                except Exception:
                    pass
            kept.append((name, fr))
        self.corpus = kept

    def peer_book_story(self, host):
        """out-of-order and oversized peer-book traffic on ONE connection: a second greeting naming another listening port, and
        announcements of hundreds of addresses -- nonsense ones, the node's own, the honest peers', and (anywhere in the list,
        also repeated) addresses that really accept connections, among them the sender's own (host, port of the second
        greeting).  Returns (bytes, listeners)"""
        rng, sn = self.rng, self.sn
        ms, wire = sn.wire.ms, sn.wire
        from ipaddress import IPv6Address

        def peer(h, p):
            return ms.Peer(0, IPv6Address("::FFFF:" + h), p)
        px = rng.choice([2412, 2413, 5000 + rng.randrange(1000)])
        reach = [(host, px)] + [("10.66.%d.%d" % (rng.randrange(7, 9), rng.randrange(1, 250)), rng.choice([2412, 7000 + rng.randrange(99)]))
                                for _ in range(rng.choice([0, 1, 3]))]
        listeners = [sn.net.raw_listen(a) for a in reach if a not in sn.net.by_addr]
        n = rng.choice([3, 99, 100, 101, 130, 250, 400, 999, 1000])
        peers = []
        for _ in range(n):
            r = rng.random()
            if r < 0.9:
                peers.append(peer("%d.%d.%d.%d" % (rng.randrange(1, 223), rng.randrange(256), rng.randrange(256), rng.randrange(1, 255)),
                                  rng.choice([2412, 2412, rng.randrange(1, 65536)])))
            elif r < 0.95:
                peers.append(ms.Peer(0, self.g.ip(rng), 2412))
            else:
                peers.append(peer(sn.node.addr[0], sn.node.addr[1]))
        for a in reach:
            for _ in range(rng.choice([1, 1, 2])):
                peers.insert(rng.choice([0, min(len(peers), 100), min(len(peers), 101), len(peers), rng.randrange(len(peers) + 1)]), peer(*a))
        for h in self.honest:
            if rng.random() < 0.5:
                peers.insert(rng.randrange(len(peers) + 1), peer(h.peer.remote_addr[0], rng.choice([2412, h.peer.remote_addr[1]])))
        peers = peers[:1000]
        second_hello = wire.hello(nonce=rng.randrange(1 << 32), my_port=px)
        announce = wire.frame(ms.PeersMessage(peers), in_response_to=rng.choice([0, 0, 5]))
        order = rng.choice(["announce-then-greeting", "greeting-then-announce", "announce-greeting-announce", "announce-only"])
        data = {"announce-then-greeting": announce + second_hello, "greeting-then-announce": second_hello + announce,
                "announce-greeting-announce": announce + second_hello + announce, "announce-only": announce}[order]
        self.mon.c["peer_book_stories"] = self.mon.c.get("peer_book_stories", 0) + 1
        self.mon.c["peer_book_addresses_announced"] = self.mon.c.get("peer_book_addresses_announced", 0) + len(peers)
        return data, listeners

    def fingerprint(self):
        sn = self.sn
        return (gen.fingerprint(sn.cm.coinstate), tuple(t.hash() for t in sn.pool()), sn.table_counts(),
                len(sn.store.write_buffer), sn.cm.coinstate is not None)

    def only_valid_transactions_admitted(self, before, after):
        """True when the only change is that the pool grew by transactions the reference finds valid at the head and
        compatible with the pool (then self.pooled is updated to the new baseline)"""
        if before[0] != after[0] or before[2:] != after[2:]:
            return False
        sn, world = self.sn, self.world
        old_ids = set(before[1])
        pool = sn.pool()
        new = [t for t in pool if t.hash() not in old_ids]
        if not new or len(pool) != len(before[1]) + len(new) or [t.hash() for t in pool[:len(before[1])]] != list(before[1]):
            return False
        led = world.ledger(sn.cm.coinstate.current_chain_hash)
        used = {r for t in self.pooled for r in t.refs()}
        for t in new:
            rt = bridge.real_to_rtx(t)
            if ref.tx_codes_by_itself(rt) | ref.tx_codes_in_ledger(rt, led) or set(rt.refs()) & used:
                return False
            used.update(rt.refs())
        self.pooled += [bridge.real_to_rtx(t) for t in new]
        return True

    def heal(self):
        """back to the situation the setup started the hostile phase in"""
        sn = self.sn
        sn.store.write_buffer[:] = list(self.baseline_buffer)
        if self.delivered_early:
            sn.cm.set_coinstate(self.world.cs)                          # (what the node had validated itself)
            sn.cm.set_coinstate(self.baseline_cs, validated=False)      # plus the bulk blocks it holds unvalidated
        else:
            sn.cm.set_coinstate(self.baseline_cs)

    def contains_structurally_valid_block(self, data):
        """does the stream carry a block that breaks no by-itself rule (reference's judgement)?  Such a block is not
        'structurally invalid': if it breaks a chain rule while the node holds bulk-download blocks it has not validated
        yet, the node's documented reaction is to fall back to its last validated state"""
        class NoChain:
            blocks = {}
        try:
            payloads, _r, _rest = ref.parse_frames(data)
        except Exception:
            return False
        for p in payloads:
            try:
                hdr, body = ref.parse_msg_header(p)
                if body[:2] != b"\x00\x04" or body[3:5] != b"\x00\x00":
                    continue
                rb = ref.dec_block(body[5:], strict=False)[0]
                if not (ref.block_codes(NoChain, rb, self.sn.net.clock.t) - {"parent-unknown"}):
                    return True
            except Exception:
                continue
        return False

    def contains_valid_new_block(self, data):
        """does the stream carry a block that breaks NO rule at all on a parent the node holds (reference's judgement)?  The
        corruption then happens to have produced valid content (typically: the one bit that made the base frame's block
        invalid was flipped back) -- accepting it is what the node should do"""
        try:
            payloads, _r, _rest = ref.parse_frames(data)
        except Exception:
            return False
        worlds = [self.world] + ([self.tmp] if getattr(self, "tmp", None) is not None else [])
        for p in payloads:
            try:
                hdr, body = ref.parse_msg_header(p)
                if body[:2] != b"\x00\x04" or body[3:5] != b"\x00\x00":
                    continue
                rb = ref.dec_block(body[5:], strict=False)[0]
            except Exception:
                continue
            for wd in worlds:
                try:
                    if rb.prev in wd.chain.blocks and rb.id() not in wd.chain.blocks \
                            and not ref.block_codes(wd.chain, rb, self.sn.net.clock.t):
                        return True
                except Exception:
                    continue
        return False

    def contains_bulk_block(self, data):
        try:
            payloads, _r, _rest = ref.parse_frames(data)
            for p in payloads:
                hdr, body = ref.parse_msg_header(p)
                if body[:2] == b"\x00\x04" and body[3:5] == b"\x00\x00" and hdr["in_response_to"] != 0:
                    return True
        except Exception:
            pass
        return False

    def probe(self, w):
        """honest peers must still be connected and answer correctly"""
        mon, sn, world = self.mon, self.sn, self.world
        ms = sn.wire.ms
        for r in self.honest:
            mon.c["honest_probes"] += 1
            if r.peer.closed or r.peer not in sn.lp.selector.map or not sn.is_active(r):
                mon.v("honest-connection-closed-or-deregistered", "an honest peer's connection is closed, deregistered or no "
                      "longer active after hostile input on another connection", w)
                continue
            r.take_received()
            bid = self.rng.choice(world.chain.order)
            r.push(sn.wire.frame(ms.GetDataMessage(ms.DATA_BLOCK, bid)))
            r.push(sn.wire.frame(ms.GetBlocksMessage([world.gid])))
            sn.settle()
            msgs = simnet.Wire.parse(r.take_received())[0]
            mon.c["honest_probe_answers_checked"] += 1
            data = [m for m in msgs if m["msg"]["type"] == "data" and m["msg"].get("kind") == "block"]
            if not data or data[-1]["msg"]["block"].enc() != world.chain.blocks[bid].enc():
                mon.v("honest-peer-not-served-correctly", "GetData from an honest peer is not answered with the requested block", w)
            inv = [m for m in msgs if m["msg"]["type"] == "inventory"]
            cs = sn.cm.coinstate
            exp = [cs.by_height_at_head()[h].hash() for h in range(1, cs.head().height + 1)][:500]
            if not inv or [h for _t, h in inv[-1]["msg"]["items"]] != exp:
                mon.v("honest-peer-not-served-correctly", "GetBlocks from an honest peer is not answered with the active chain", w)

    def run(self, nstreams):
        mon, c, sn, rng = self.mon, self.mon.c, self.sn, self.rng
        hostile = None
        hostile_greeted = False
        conn_bytes = b""
        signal.signal(signal.SIGALRM, _alarm)
        for n in range(nstreams):
            name, kind, data, greeted = self.hostile_stream()
            # ungreeted streams always get a fresh connection (an earlier "before greeting" stream may itself have been a
            # greeting frame, after which the connection is a greeted one)
            if hostile is None or hostile.peer.closed or hostile.peer not in sn.lp.selector.map or hostile_greeted != greeted \
                    or not greeted:
                if hostile is not None and not hostile.closed:
                    hostile.close()
                    sn.settle()
                hostile = sn.net.raw_connect(sn.node, src=("10.66.6.%d" % (n % 200 + 1), 46000 + n % 1000))
                conn_bytes = b""            # everything sent on this connection after the greeting
                if greeted:
                    simnet.greet(sn.net, sn.node, hostile, sn.wire, nonce=6660 + n)
                hostile_greeted = greeted
            if not greeted:
                c["streams_before_greeting"] += 1
            listeners = []
            if kind == "peer-book-story":
                data, listeners = self.peer_book_story(hostile.peer.remote_addr[0])
            before = self.fingerprint()
            story = {"hostile_address": list(hostile.peer.remote_addr), "listening": [list(li.addr) for li in listeners]} if listeners else None
            c["streams"] += 1
            c["by_kind"][kind] = c["by_kind"].get(kind, 0) + 1
            c["bytes_sent"] += len(data)
            mon.digests.add(digest(data, greeted))
            w = {"chain": gen.blocks_hex(self.world, self.world.chain.order[1:]), "stream": data.hex(), "greeted": greeted,
                 "kind": kind, "base_frame": name, "pool": [t.enc().hex() for t in self.pooled]}
            if story:
                w["peer_book_story"] = story
            w["clock"] = sn.net.clock.t
            frag = rng.random() < 0.5
            c["fragmented_streams"] += frag
            conn_bytes += data
            if conn_bytes != data:
                w["stream_with_earlier_bytes_on_this_connection"] = conn_bytes.hex()
            hostile.push(data)
            if kind == "request-then-close":
                hostile.close()
                c["closed_before_answers_could_be_sent"] = c.get("closed_before_answers_could_be_sent", 0) + 1
            elif kind == "request-then-reset":
                # part of the requests is read, then the connection is reset under the node's hands
                sn.net.next_recv_size = rng.choice([8, 40, 100])
                acts = [a for a in sn.net.enabled() if a[0] == "read"]
                if acts and rng.random() < 0.7:
                    sn.net.run_action(acts[0])
                sn.net.next_recv_size = 1024
                hostile.reset()
            signal.alarm(12)
            try:
                sn.settle(fragment=frag)
                sn.net.do_step(sn.node)
                sn.settle()
                if kind == "early-block-story":
                    self.clock_moves_on()
                if kind == "peer-book-story":
                    # the node works through its peer book: several manager steps, its connection attempts answered (refused
                    # by the nonsense addresses, accepted by the listening ones, which may greet back, stay silent or hang up)
                    for _round in range(4):
                        sn.net.do_step(sn.node)
                        sn.settle()
                        for li in listeners:
                            for conn in li.conns:
                                if not conn.closed and not getattr(conn, "answered", False) and rng.random() < 0.6:
                                    conn.answered = True
                                    conn.take_received()
                                    conn.push(sn.wire.hello(nonce=rng.randrange(1 << 32)))
                                    c["peer_book_connections_made_by_the_node"] = c.get("peer_book_connections_made_by_the_node", 0) + 1
                        sn.settle()
                    for li in listeners:
                        for conn in li.conns:
                            if not conn.closed and rng.random() < 0.7:
                                conn.close()
                        sn.net.by_addr.pop(li.addr, None)
                    sn.settle()
                    sn.net.do_step(sn.node)
                    sn.settle()
            except Hang:
                c["hangs"] += 1
                if sn.cm.lock.locked() or sn.store.lock.locked():
                    # not a matter of speed: the single-threaded loop is blocked on a lock that an earlier handler left held
                    mon.v("lock-left-held-after-hostile-input", "the node's event loop is blocked forever on the %s lock, left held "
                          "while handling a hostile %s stream built from %s" % (
                              "chain manager" if sn.cm.lock.locked() else "block store", kind, name), w)
                    self.dead = True
                else:
                    mon.inconclusive.append("delivery of a %s stream did not finish within 30 s" % kind)
                break
            finally:
                signal.alarm(0)
            for r in [hostile] + self.honest:
                pass
            esc = sn.escaped()
            if esc:
                mon.v("exception-escaped-event-loop:" + esc[0].split(":")[0], "hostile %s stream (%s): %s" % (kind, name, esc[0][:300]), w)
            if sn.cm.lock.locked() or sn.store.lock.locked():
                # between events of the single-threaded loop no lock may be held: the next pool / state / store operation
                # (from any peer, or the miner thread) would block forever
                mon.v("lock-left-held-after-hostile-input", "after a hostile %s stream built from %s the %s lock is still held: the "
                      "node's event loop stops at its next pool or state operation" % (
                          kind, name, "chain manager" if sn.cm.lock.locked() else "block store"), w)
                self.dead = True
                break
            after = self.fingerprint()
            c["fingerprints_compared"] += 1
            if after != before:
                if self.contains_bulk_block(conn_bytes):
                    # [domain] a block sent as a bulk-download reply is taken without in-state validation by design and
                    # stays "unvalidated" (a later rejection rolls it back): restore the baseline so that the following
                    # verdicts are not contaminated by it
                    c["out_of_domain_bulk_block"] += 1
                    self.heal()
                    have = {t.hash() for t in sn.pool()}
                    for t in self.pooled:        # the unvalidated block may have evicted pooled transactions
                        if t.id() not in have:
                            sn.cm.add_transaction_to_pool(bridge.rtx_to_real(t))
                elif greeted and self.delivered_early and self.contains_structurally_valid_block(conn_bytes):
                    # [domain] not a structurally invalid block: a rule-breaking one, arriving while the node holds blocks it
                    # took from a bulk download without validating them -- falling back to the last validated state is the
                    # node's documented reaction to that (C09's subject, not malformed input)
                    c["out_of_domain_rule_breaking_block_while_unvalidated"] = c.get("out_of_domain_rule_breaking_block_while_unvalidated", 0) + 1
                    self.heal()
                    have = {t.hash() for t in sn.pool()}
                    for t in self.pooled:
                        if t.id() not in have:
                            sn.cm.add_transaction_to_pool(bridge.rtx_to_real(t))
                elif greeted and self.contains_valid_new_block(conn_bytes):
                    # [domain] the corrupted bytes happen to BE a fully valid new block (the single bit that made the base
                    # frame's block invalid was flipped back): accepting it is what the node should do
                    c["out_of_domain_valid_block"] = c.get("out_of_domain_valid_block", 0) + 1
                    self.heal()
                    have = {t.hash() for t in sn.pool()}
                    for t in self.pooled:
                        if t.id() not in have:
                            sn.cm.add_transaction_to_pool(bridge.rtx_to_real(t))
                elif greeted and self.only_valid_transactions_admitted(before, after):
                    # [domain] the corrupted bytes happen to BE a valid transaction (e.g. the single bit that made the base
                    # frame invalid was flipped back): admitting it is what the node should do
                    c["out_of_domain_valid_transaction"] = c.get("out_of_domain_valid_transaction", 0) + 1
                elif kind == "valid-content-before-greeting":
                    what = [n2 for n2, (x, y) in zip(("chain state", "pool", "store tables", "write buffer", "state"), zip(before, after)) if x != y]
                    mon.v("content-accepted-before-greeting", "a %s sent before the greeting changed the node's %s" % (name, what), w)
                    self.heal()
                    sn.cm.transaction_pool[:] = [t for t in sn.cm.transaction_pool if t.hash() in {x.id() for x in self.pooled}]
                else:
                    what = [n2 for n2, (x, y) in zip(("chain state", "pool", "store tables", "write buffer", "state"), zip(before, after)) if x != y]
                    mon.v("hostile-input-changed:" + "+".join(what), "hostile %s stream built from %s changed %s" % (kind, name, what), w)
            if hostile.peer.closed or hostile.peer not in sn.lp.selector.map:
                c["hostile_disconnected"] += 1
            else:
                c["hostile_survived"] += 1
            if n % 5 == 4 or n == nstreams - 1:
                self.probe(w)
            if len(mon.samples) < 3:
                mon.samples.append({"kind": kind, "base_frame": name, "bytes": len(data), "head": data[:24].hex(),
                                    "hostile_disconnected": hostile.peer.closed})
        c["sends_failed_on_a_closed_connection"] = c.get("sends_failed_on_a_closed_connection", 0) + sn.net.send_faults
        c["reads_failed_on_a_reset_connection"] = c.get("reads_failed_on_a_reset_connection", 0) + sn.net.recv_faults
        if getattr(self, "dead", False):
            return          # the node cannot make progress any more: nothing further can be asked of it
        # the interrupted download of honest peer #1 completes afterwards
        if self.getdata and not self.honest[1].peer.closed:
            for rb in self.future_blocks:
                if rb.id() in sn.cm.coinstate.block_by_hash or rb.id() not in self.getdata_by_hash:
                    continue
                self.honest[1].push(sn.wire.block(bridge.rblock_to_real(rb), in_response_to=self.getdata_by_hash[rb.id()]))
                sn.settle()
            if all(rb.id() in sn.cm.coinstate.block_by_hash for rb in self.future_blocks):
                c["downloads_completed_after_hostile_phase"] += 1
            else:
                mon.v("honest-download-broken-by-hostile-input", "blocks requested from an honest peer before the hostile phase "
                      "(%d of %d delivered before it) are not all accepted when the rest arrives afterwards" % (
                          self.delivered_early, len(self.future_blocks)), {"kind": "download"})
        sn.close()


# ---------------------------------------------------------------------------------------------------------------------
# Non-interference lane: what an honest connection sees must not depend on a failing connection next to it
# ---------------------------------------------------------------------------------------------------------------------
HOSTILE_ENDINGS = ["bad-magic", "garbage", "over-limit-length", "undecodable-payload", "truncated-then-close", "close"]


def _norm(msgs):
    """messages the node sent to a peer, without the per-message header fields (ids, timestamps)"""
    out = []
    for m in msgs:
        d = m["msg"]
        t = d["type"]
        if t == "get_data":
            out.append(("get_data", d.get("kind"), d["hash"].hex()))
        elif t == "get_blocks":
            out.append(("get_blocks", tuple(h.hex() for h in d["hashes"])))
        elif t == "inventory":
            out.append(("inventory", tuple(h.hex() for _t, h in d["items"])))
        elif t == "data":
            out.append(("data", d.get("kind"), (d["block"].id().hex() if d.get("kind") == "block" else "")))
        else:
            out.append((t,))
    return out


class Shared:
    """one node, honest peers Y and Z, optionally a hostile X; X announces the blocks Y announces, is asked for them,
    and fails instead of delivering"""

    def __init__(self, world, future, rng, tag):
        self.world, self.future = world, future
        self.sn = sn = nodekit.SingleNode(world, rng, tag, npeers=2)
        self.fb = {rb.id(): rb for rb in future}
        sn.net.clock.t = max(sn.net.clock.t, max(rb.ts for rb in future) + 50)
        self.seen = {0: [], 1: []}
        self.x = None

    def collect(self, i):
        msgs = simnet.Wire.parse(self.sn.peers[i].take_received())[0]
        self.seen[i] += msgs
        return msgs

    def event(self, ev, rng):
        sn = self.sn
        ms = sn.wire.ms
        kind = ev[0]
        if kind == "x-connect":
            self.x = sn.net.raw_connect(sn.node, src=("10.66.7.1", 47000))
            simnet.greet(sn.net, sn.node, self.x, sn.wire, nonce=99)
        elif kind == "x-announce":
            self.x.push(sn.wire.frame(ms.InventoryMessage([ms.InventoryItem(ms.DATA_BLOCK, h) for h in ev[1]])))
        elif kind == "x-fail":
            how = ev[1]
            fr = sn.wire.frame(ms.GetBlocksMessage([self.world.gid]))
            if how == "bad-magic":
                self.x.push(b"MAJ1" + fr[4:])
            elif how == "garbage":
                self.x.push(bytes(range(7, 90)))
            elif how == "over-limit-length":
                self.x.push(fr[:4] + struct.pack(">I", ref.MAX_MESSAGE_SIZE + 1) + fr[8:])
            elif how == "undecodable-payload":
                self.x.push(ref.frame(fr[8:8 + ref.MSG_HEADER_LEN + 3]))
            elif how == "truncated-then-close":
                self.x.push(fr[:11])
                sn.settle()
                self.x.close()
            else:
                self.x.close()
        elif kind in ("y-announce", "z-announce"):
            i = 0 if kind[0] == "y" else 1
            sn.peers[i].push(sn.wire.frame(ms.InventoryMessage([ms.InventoryItem(ms.DATA_BLOCK, h) for h in ev[1]])))
        elif kind in ("y-serve", "z-serve"):
            # the honest peer answers what it has been asked so far: blocks for GetData, an empty inventory for GetBlocks
            i = 0 if kind[0] == "y" else 1
            limit = ev[1]
            served = 0
            for m in self.collect(i):
                d = m["msg"]
                if d["type"] == "get_data" and d["hash"] in self.fb and served < limit:
                    served += 1
                    sn.peers[i].push(sn.wire.block(bridge.rblock_to_real(self.fb[d["hash"]]), in_response_to=m["header"]["id"]))
                elif d["type"] == "get_blocks":
                    sn.peers[i].push(sn.wire.frame(ms.InventoryMessage([]), in_response_to=m["header"]["id"]))
        if kind.startswith("x-") and self.x is None:
            return
        sn.settle(fragment=rng.random() < 0.3)

    def finish(self):
        sn = self.sn
        for i in (0, 1):
            self.collect(i)
        res = {"y": _norm(self.seen[0]), "z": _norm(self.seen[1]), "state": gen.fingerprint(sn.cm.coinstate),
               "held": [h.hex() for h in self.fb if h in sn.cm.coinstate.block_by_hash],
               "escaped": sn.escaped(), "y_alive": sn.is_active(sn.peers[0]), "z_alive": sn.is_active(sn.peers[1]),
               "x_gone": self.x is None or self.x.peer.closed or self.x.peer not in sn.lp.selector.map}
        sn.close()
        return res


def make_script(rng, future):
    ids = [rb.id() for rb in future]
    x_part = [("x-connect",), ("x-announce", ids if rng.random() < 0.6 else ids[:rng.randint(1, len(ids))])]
    y_part = [("y-announce", ids)]
    if rng.random() < 0.4:
        y_part.append(("z-announce", ids[:rng.randint(1, len(ids))]))
    # the honest events are merged with the hostile ones in a random order (keeping each side's own order)
    fail = ("x-fail", rng.choice(HOSTILE_ENDINGS))
    tail = [("y-serve", rng.choice([1, 2, 99])), ("z-serve", 99), ("y-serve", 99), ("z-serve", 99), ("y-serve", 99)]
    xs = x_part + [fail]
    ys = y_part + tail
    script = []
    i = j = 0
    while i < len(xs) or j < len(ys):
        if j >= len(ys) or (i < len(xs) and rng.random() < 0.5):
            script.append(xs[i])
            i += 1
        else:
            script.append(ys[j])
            j += 1
    # whatever the merge, the honest peers keep serving after the failure
    script += [("y-serve", 99), ("z-serve", 99), ("y-serve", 99)]
    return script


def _ser(script):
    return [[e[0]] + ([[h.hex() for h in e[1]]] if len(e) > 1 and isinstance(e[1], list) else list(e[1:])) for e in script]


def _deser(script):
    return [tuple([e[0]] + ([[bytes.fromhex(h) for h in e[1]]] if len(e) > 1 and isinstance(e[1], list) else e[1:])) for e in script]


def noninterference_case(mon, world, future, script, w, seed):
    runs = {}
    for with_x in (False, True):
        random.seed(seed)          # the node picks the peer it asks for blocks, and its message ids, from the global generator
        sh = Shared(world, future, random.Random(seed), "c20-ni")
        frng = random.Random(seed)          # same fragmentation decisions in both runs
        for ev in script:
            if not with_x and ev[0] in ("x-announce", "x-fail"):     # the baseline: the same peer connects, greets and stays silent
                frng.random()
                continue
            sh.event(ev, frng)
        runs[with_x] = sh.finish()
    a, b = runs[False], runs[True]
    c = mon.c
    c["noninterference_cases"] = c.get("noninterference_cases", 0) + 1
    c["noninterference_messages_compared"] = c.get("noninterference_messages_compared", 0) + len(a["y"]) + len(a["z"])
    c["hostile_gone_in_noninterference"] = c.get("hostile_gone_in_noninterference", 0) + b["x_gone"]
    if len(a["held"]) == len(future):
        c["noninterference_baseline_downloads_complete"] = c.get("noninterference_baseline_downloads_complete", 0) + 1
    if b["escaped"]:
        mon.v("exception-escaped-event-loop:" + b["escaped"][0].split(":")[0], b["escaped"][0][:300], w)
    if a["escaped"]:
        mon.inconclusive.append("exception in the run WITHOUT a hostile peer: " + a["escaped"][0][:200])
        return
    if not (b["y_alive"] and b["z_alive"]) and a["y_alive"] and a["z_alive"]:
        mon.v("honest-connection-closed-or-deregistered", "an honest connection is gone after the failure of another connection", w)
    for who in ("y", "z"):
        if a[who] != b[who]:
            k = next((n for n, (p, q) in enumerate(zip(a[who], b[who])) if p != q), min(len(a[who]), len(b[who])))
            exp = a[who][k] if k < len(a[who]) else None
            got = b[who][k] if k < len(b[who]) else None
            mon.v("honest-connection-traffic-depends-on-failing-connection",
                  "what the node sends to honest peer %s differs when another peer announces the same blocks and then "
                  "fails (%s): message #%d is %s, with that peer staying silent it is %s" % (
                      who.upper(), [e[1] for e in script if e[0] == "x-fail"][0], k, str(got)[:120], str(exp)[:120]), w)
            break
    if a["held"] != b["held"] or a["state"] != b["state"]:
        mon.v("honest-download-broken-by-hostile-input", "with a failing peer next to it the download from the honest peers ends "
              "with %d of %d blocks, with that peer staying silent with %d" % (len(b["held"]), len(future), len(a["held"])), w)


def noninterference_lane(mon, rng, ncases):
    for j in range(ncases):
        world = gen.World(rng)
        world.grow(rng.choice([3, 6, 9]), rng, tx_prob=0.4)
        base = world.fork()
        head = world.cs.current_chain_hash
        future = []
        for _ in range(rng.randint(1, 5)):
            parent = world.chain.blocks[head]
            rb = world.mine(world.draft(head, [], parent.ts + rng.choice([1, 10, 60]), world.keys[0][1]))
            if world.accept(rb, bridge.rblock_to_real(rb)) is None:
                break
            future.append(rb)
            head = rb.id()
        if not future:
            continue
        for _k in range(3):
            script = make_script(rng, future)
            w = {"kind": "noninterference", "chain": gen.blocks_hex(base, base.chain.order[1:]),
                 "future": [rb.enc().hex() for rb in future], "script": _ser(script), "seed": j}
            mon.digests.add(digest(repr(_ser(script)).encode(), True))
            noninterference_case(mon, base, future, script, w, j)


def replay_noninterference(mon, w):
    rng = random.Random(0)
    world = gen.World(rng)
    for hx in w.get("chain", []):
        rb = ref.parse_block(bytes.fromhex(hx))
        world.accept(rb, bridge.rblock_to_real(rb), validate=False)
    future = [ref.parse_block(bytes.fromhex(hx)) for hx in w["future"]]
    noninterference_case(mon, world, future, _deser(w["script"]), w, w.get("seed", 0))


def replay(mon, w):
    if w.get("kind") == "noninterference":
        return replay_noninterference(mon, w)
    rng = random.Random(0)
    world = gen.World(rng)
    for hx in w.get("chain", []):
        rb = ref.parse_block(bytes.fromhex(hx))
        world.accept(rb, bridge.rblock_to_real(rb), validate=False)
    st = Setup.__new__(Setup)
    st.mon, st.rng, st.world = mon, rng, world
    st.sn = sn = nodekit.SingleNode(world, rng, "c20-replay", npeers=2)
    st.honest = list(sn.peers)
    st.pooled = []
    for hx in w.get("pool", []):
        t = ref.dec_tx(bytes.fromhex(hx), strict=False)[0]
        if sn.cm.add_transaction_to_pool(bridge.rtx_to_real(t)):
            st.pooled.append(t)
    story = w.get("peer_book_story")
    hostile = sn.net.raw_connect(sn.node, src=tuple(story["hostile_address"]) if story else ("10.66.6.6", 46000))
    if w.get("greeted", True):
        simnet.greet(sn.net, sn.node, hostile, sn.wire, nonce=6660)
    listeners = [sn.net.raw_listen(tuple(a)) for a in story["listening"]] if story else []
    if "clock" in w:
        sn.net.clock.t = max(sn.net.clock.t, w["clock"])
    before = st.fingerprint()
    stream_hex = w.get("stream_with_earlier_bytes_on_this_connection") or w["stream"]
    w = dict(w, stream=stream_hex)
    hostile.push(bytes.fromhex(w["stream"]))
    sn.settle()
    sn.net.do_step(sn.node)
    sn.settle()
    if w.get("kind") == "early-block-story":
        for adv in (31, 40, 65):
            sn.net.clock.t += adv
            sn.net.do_step(sn.node)
            sn.settle()
    if story:
        for answer in (False, True, True, False):
            sn.net.do_step(sn.node)
            sn.settle()
            for li in listeners:
                for conn in li.conns:
                    if answer and not conn.closed and not getattr(conn, "answered", False):
                        conn.answered = True
                        conn.push(sn.wire.hello(nonce=rng.randrange(1 << 32)))
            sn.settle()
        for li in listeners:
            for conn in li.conns:
                conn.close()
        sn.settle()
        sn.net.do_step(sn.node)
        sn.settle()
    esc = sn.escaped()
    if esc:
        mon.v("exception-escaped-event-loop:" + esc[0].split(":")[0], esc[0][:300], w)
    after = st.fingerprint()
    st.tmp = None
    if after != before and not st.contains_bulk_block(bytes.fromhex(w["stream"])) and not (
            w.get("greeted", True) and st.contains_valid_new_block(bytes.fromhex(w["stream"]))) and not (
            w.get("greeted", True) and st.only_valid_transactions_admitted(before, after)):
        mon.v("hostile-input-changed:state", "replayed stream changed the node's state", w)
    st.probe(w)
    sn.close()


def run_shard(spec):
    env.boot()
    mon = Monitor()
    if "replay" in spec:
        replay(mon, spec["replay"])
    else:
        rng = random.Random("c20/%d/%d" % (spec["seed"], spec["shard"]))
        quick = spec["tier"] == "quick"
        for j in range(4 if quick else 80):
            st = Setup(mon, rng, j)
            mon.c["setups"] += 1
            st.run(300 if quick else 450)
        noninterference_lane(mon, rng, 6 if quick else 120)
    return {"evaluations": mon.c["streams"], "digests": sorted(mon.digests), "violations": mon.viol, "counters": mon.c,
            "samples": mon.samples, "inconclusive": mon.inconclusive}


def finalize(m, tier):
    c = m["counters"]
    floors = [("streams", c.get("streams", 0), 10000), ("honest_probe_answers_checked", c.get("honest_probe_answers_checked", 0), 2000),
              ("hostile_disconnected", c.get("hostile_disconnected", 0), 3000), ("hostile_survived", c.get("hostile_survived", 0), 500),
              ("downloads_completed_after_hostile_phase", c.get("downloads_completed_after_hostile_phase", 0), 30),
              ("frames_well_formed_but_invalid", c.get("frames_well_formed_but_invalid", 0), 200),
              ("streams_before_greeting", c.get("streams_before_greeting", 0), 300),
              ("noninterference_cases", c.get("noninterference_cases", 0), 200),
              ("setups_after_own_mined_block", c.get("setups_after_own_mined_block", 0), 8),
              ("setups_holding_unvalidated_bulk_blocks", c.get("setups_holding_unvalidated_bulk_blocks", 0), 10),
              ("sends_failed_on_a_closed_connection", c.get("sends_failed_on_a_closed_connection", 0), 100),
              ("reads_failed_on_a_reset_connection", c.get("reads_failed_on_a_reset_connection", 0), 100),
              ("noninterference_baseline_downloads_complete", c.get("noninterference_baseline_downloads_complete", 0), 100),
              ("hostile_gone_in_noninterference", c.get("hostile_gone_in_noninterference", 0), 150),
              ("peer_book_stories", c.get("peer_book_stories", 0), 200), ("early_block_stories", c.get("early_block_stories", 0), 100),
              ("peer_book_connections_made_by_the_node", c.get("peer_book_connections_made_by_the_node", 0), 200)]
    for k in ("bit-flip", "truncate", "splice", "reorder", "undecodable-payload", "unknown-type", "bad-magic", "over-limit-length",
              "random-bytes", "huge-list-length"):
        floors.append(("kind " + k, c.get("by_kind", {}).get(k, 0), 200))
    return {
        "rule": "hostile streams = real frames of every message type (content the node already has, or invalid blocks / "
                "transactions of every class) corrupted by bit/byte flips, truncation, splicing, reordering, sending before "
                "the greeting, undecodable payloads, unknown message/data types, wrong magic, over-limit length, huge list "
                "lengths, random bytes; half of them under random fragmentation; distinct = distinct (stream bytes, greeted) "
                "by digest",
        "floors": floors, "extra": {},
    }
