"""C10 - synchronisation converges and relay terminates (bounded-progress restatement).

2-3 real nodes on the in-memory network, each holding an ancestor-closed part of one generated block
tree, connected in a chosen topology.  Phase 1: a seeded scheduler picks among the enabled actions
(deliver a chunk on some link, flush some send buffer, accept, run some node's managers, advance the
virtual clock).  Drain: rounds of (clock +61 s, every node's managers, deliver everything in flight)
until nothing moves, at most R rounds.  Then: every head has the greatest initial height, every node
holds its head's chain; one extra block is relayed when heads differ; a transaction broadcast by one
node reaches every pool; each node relays each id at most once; traffic dies out without timers."""
import random as pyrandom
import random

from skv import env, ref, gen, bridge, simnet
from skv.runner import digest

PROPERTY = "C10"
LEVEL = "exploration"
NSHARD = 16
SHARD_TIMEOUT = {"quick": 900, "thorough": 5400}
R_BASE = 100


def shards(tier, seed):
    out = [{"shard": i, "tier": tier, "seed": seed, "lane": "small-batch" if i % 4 else "real-batch"} for i in range(NSHARD)]
    if tier == "thorough":
        out.append({"shard": 99, "tier": tier, "seed": seed, "lane": "real-batch-520"})
    return out


class NullDisk:
    def save_block(self, block):
        pass

    def flush_blocks(self):
        pass

    def write_peers(self, peer):
        pass

    def load_peers(self):
        return {}

    def save_transaction_for_debugging(self, t):
        pass


class Monitor:
    def __init__(self):
        self.viol = []
        self.c = {"runs": 0, "converged": 0, "rounds_to_quiescence_total": 0, "max_rounds_to_quiescence": 0,
                  "by_topology": {}, "by_schedule": {}, "fork_depth_beyond_dense_locator": 0, "fork_depth_inside_dense_locator": 0,
                  "multi_batch_syncs": 0, "equal_height_rivals": 0, "one_node_empty": 0, "blocks_transferred": 0,
                  "phase1_actions": 0, "transactions_broadcast": 0, "pools_checked": 0, "extra_block_relays": 0,
                  "relay_calls_recorded": 0, "reorganisations_by_sync": 0, "three_node_runs": 0, "bytes_moved": 0}
        self.digests = set()
        self.samples = []
        self.rounds_hist = {}

    def v(self, key, msg, w):
        if sum(1 for x in self.viol if x["key"] == key) < 3:
            self.viol.append({"key": key, "msg": msg, "witness": w})


def closed_state(world, tips):
    """real CoinState holding exactly the ancestors of the given tips (arrival order = generation order)"""
    from skepticoin.coinstate import CoinState
    keep = set()
    for t in tips:
        keep.update(world.chain.ancestors(t))
    cs = CoinState.zero()
    for b in world.chain.order[1:]:
        if b in keep:
            cs = cs.add_block_no_validation(world.real[b])
    return cs, keep


TOPOLOGIES = {
    2: {"one-way": [(0, 1)], "one-way-reverse": [(1, 0)], "two-way": [(0, 1), (1, 0)]},
    3: {"line": [(0, 1), (1, 2)], "line-reverse": [(2, 1), (1, 0)], "star": [(0, 1), (0, 2)], "star-in": [(1, 0), (2, 0)], "both-into-middle": [(0, 1), (2, 1)],
        "triangle": [(0, 1), (1, 2), (2, 0)], "full": [(0, 1), (1, 0), (1, 2), (2, 1), (0, 2), (2, 0)]},
}


def make_forest(rng, trunk, forks, tx_prob=0.3):
    """world with a trunk and several forks hanging off it: returns (world, [tip ids per fork], fork point height)"""
    world = gen.World(rng, nkeys=4)
    pid = world.gid
    for _ in range(trunk):
        parent = world.chain.blocks[pid]
        rtxs = []
        if rng.random() < tx_prob:
            t = world.make_rtx(pid, rng, signer="ref")
            if t is not None:
                rtxs.append(t)
        rb, real = world.assemble(pid, rtxs, parent.ts + 60, rng.choice(world.keys)[1], route="ref")
        pid = world.accept(rb, real, validate=False)
    base = pid
    tips = []
    for ln in forks:
        pid = base
        for _ in range(ln):
            parent = world.chain.blocks[pid]
            rtxs = []
            if rng.random() < tx_prob:
                t = world.make_rtx(pid, rng, signer="ref")
                if t is not None:
                    rtxs.append(t)
            rb, real = world.assemble(pid, rtxs, parent.ts + rng.choice([30, 60, 61]), rng.choice(world.keys)[1], route="ref")
            pid = world.accept(rb, real, validate=False)
        tips.append(pid)
    return world, tips


class Run:
    def __init__(self, mon, world, tips_per_node, edges, rng, batch, schedule, w, same_host=False, skew=None, unreachable=()):
        import skepticoin.networking.remote_peer as rp
        self.mon, self.world, self.rng, self.w = mon, world, rng, w
        rp.GET_BLOCKS_INVENTORY_SIZE = batch
        self.batch = batch
        self.schedule = schedule
        self.net = simnet.Net(rng)
        if rng.random() < 0.25:         # send buffers that take a few hundred bytes per writable event
            self.net.send_window = rng.choice([300, 700, 5000])
            mon.c["runs_with_small_send_buffers"] = mon.c.get("runs_with_small_send_buffers", 0) + 1
            w["send_window"] = self.net.send_window
        pyrandom.seed(rng.getrandbits(64))      # ChainManager.step and message contexts use the global generator
        self.nodes = []
        self.relays = []       # (node name, kind, id)
        self.keep = []
        for i, tips in enumerate(tips_per_node):
            cs, keep = closed_state(world, tips)
            # same_host: all nodes on one host, told apart by port only (a localhost network, peers behind one NAT)
            addr = ("10.0.0.1", 2412 + i) if same_host else ("10.0.0.%d" % (i + 1), 2412)
            node = self.net.add_node("n%d" % i, addr, cs, NullDisk(), nonce=5000 + i)
            self.nodes.append(node)
            self.keep.append(keep)
            self.wrap(node)
        for i in unreachable:           # (a node behind NAT: it connects out, nobody can connect to it)
            self.net.refuse.add(self.nodes[i].addr)
        # honest nodes' clocks differ (nothing in the protocol synchronises them): in a third of the runs every node reads the
        # virtual time plus its own offset -- seconds to hours, fast or slow
        if skew is not None or rng.random() < 0.35:
            for i, node in enumerate(self.nodes):
                self.net.clock.skew[node.name] = skew[i] if skew is not None else rng.choice([0, 0, 25, -25, 3600, -3600, 7200, 6 * 3600])
            w["clock_offsets"] = dict(self.net.clock.skew)
            mon.c["runs_with_differing_clocks"] = mon.c.get("runs_with_differing_clocks", 0) + 1
        for (a, b) in edges:
            na, nb = self.nodes[a], self.nodes[b]
            key = (nb.addr[0], nb.addr[1], "OUTGOING")
            na.lp.network_manager.disconnected_peers[key] = rp.DisconnectedRemotePeer(nb.addr[0], nb.addr[1], "OUTGOING", None, 0)
        self.h_star = max(n.lp.chain_manager.coinstate.head().height for n in self.nodes)
        self.initial_heads = [n.lp.chain_manager.coinstate.current_chain_hash for n in self.nodes]

    def wrap(self, node):
        nm = node.lp.network_manager
        orig = nm.broadcast_message

        def bm(message):
            d = message.data
            kind = "block" if message.data_type == b"\x00\x00" else "transaction"
            self.relays.append((node.name, kind, d.hash()))
            return orig(message)
        nm.broadcast_message = bm

    def heads(self):
        return [n.lp.chain_manager.coinstate.head().height for n in self.nodes]

    def phase1(self, nactions):
        net, rng = self.net, self.rng
        style = self.schedule
        slow = rng.choice(self.nodes)
        for _ in range(nactions):
            acts = net.enabled(timers=True)
            if style == "timers-first":
                tim = [a for a in acts if a[0] == "step"]
                if tim and rng.random() < 0.6:
                    acts = tim
            elif style == "starve-one-node":
                fast = [a for a in acts if a[1] is not slow]
                if fast and rng.random() < 0.9:
                    acts = fast
            elif style == "io-first":
                io = [a for a in acts if a[0] != "step"]
                if io and rng.random() < 0.85:
                    acts = io
            act = rng.choice(acts)
            if act[0] == "step":
                net.clock.t += rng.choice([0, 1, 5, 30, 61, 120])
            net.run_action(act, recv_size=rng.choice([1, 3, 17, 100, 700, 1024]), send_size=rng.choice([5, 64, 1000, 1 << 20, 1 << 20]))
            self.mon.c["phase1_actions"] += 1

    def drain(self, blocks_to_move):
        """bounded progress: rounds until nothing moves and all heads reached h*; returns rounds used or None"""
        net = self.net
        R = R_BASE + 4 * (blocks_to_move // max(1, self.batch) + 1)
        for rnd in range(1, R + 1):
            stored = [len(n.lp.chain_manager.coinstate.block_by_hash) for n in self.nodes]
            net.clock.t += 61
            for n in self.nodes:
                net.do_step(n)
            net.settle(None, fragment=self.rng.random() < 0.5, max_actions=2_000_000)
            moved = stored != [len(n.lp.chain_manager.coinstate.block_by_hash) for n in self.nodes]
            # quiescent: nothing in flight, no block arrived during this round, every head at the greatest initial height
            if all(h >= self.h_star for h in self.heads()) and not net.enabled() and not moved and self.links_up():
                return rnd
        return None

    def links_up(self):
        """every connection has completed its greeting in both directions and no first connection attempt is still due
        (the statement is about connected nodes; a half-greeted link does not carry relays yet)"""
        for n in self.nodes:
            nm = n.lp.network_manager
            for p in nm.connected_peers.values():
                if not (p.hello_sent and p.hello_received):
                    return False
            for p in nm.disconnected_peers.values():
                if p.direction == "OUTGOING" and p.last_connection_attempt is None and (p.host, p.port) not in nm.my_addresses:
                    return False
        return True

    def idle(self):
        """no block download in progress anywhere"""
        for n in self.nodes:
            for p in n.lp.network_manager.connected_peers.values():
                if p.inventory_messages:
                    return False
        return True

    def check_escaped(self, phase):
        for n in self.nodes:
            if n.escaped:
                self.mon.v("exception-escaped-entry-point", "%s during %s: %s" % (n.name, phase, n.escaped[0][:300]), self.w)
                n.escaped.clear()

    def verdict_sync(self, rounds):
        mon, c = self.mon, self.mon.c
        if rounds is None:
            hs = self.heads()
            mon.v("no-convergence-within-bounded-rounds", "after the drain bound, head heights are %s; greatest initial height %d" % (
                hs, self.h_star), self.w)
            return False
        c["converged"] += 1
        c["rounds_to_quiescence_total"] += rounds
        c["max_rounds_to_quiescence"] = max(c["max_rounds_to_quiescence"], rounds)
        mon.rounds_hist[rounds] = mon.rounds_hist.get(rounds, 0) + 1
        for i, n in enumerate(self.nodes):
            cs = n.lp.chain_manager.coinstate
            if cs.head().height < self.h_star:
                mon.v("head-below-greatest-initial-height", "%s head height %d < %d" % (n.name, cs.head().height, self.h_star), self.w)
            cur = cs.current_chain_hash
            steps = 0
            while cur != ref.ZERO32:
                if cur not in cs.block_by_hash:
                    mon.v("ancestor-of-head-missing", "%s lacks an ancestor of its head at depth %d" % (n.name, steps), self.w)
                    break
                blk = cs.block_by_hash[cur]
                if blk.serialize() != self.world.chain.blocks[cur].enc():
                    mon.v("stored-block-differs-from-original", "%s holds altered bytes for a block" % n.name, self.w)
                    break
                cur = blk.previous_block_hash
                steps += 1
            c["blocks_transferred"] += len(cs.block_by_hash) - len(self.keep[i])
            if cs.current_chain_hash != self.initial_heads[i] and self.initial_heads[i] not in set(
                    self.world.chain.ancestors(cs.current_chain_hash)):
                c["reorganisations_by_sync"] += 1
        return True

    def relay_verdict(self):
        mon = self.mon
        mon.c["relay_calls_recorded"] += len(self.relays)
        seen = {}
        for (name, kind, i) in self.relays:
            seen[(name, kind, i)] = seen.get((name, kind, i), 0) + 1
        for (name, kind, i), n in seen.items():
            if n > 1:
                mon.v("id-relayed-more-than-once:" + kind, "%s relayed the same %s %d times" % (name, kind, n), self.w)

    def phase2(self):
        """one extra block when heads differ, then a transaction broadcast as scripts/send.py does"""
        mon, c, world, net, rng = self.mon, self.mon.c, self.world, self.net, self.rng
        heads = {n.lp.chain_manager.coinstate.current_chain_hash for n in self.nodes}
        wire = simnet.Wire(net.clock)
        if len(heads) > 1 or rng.random() < 0.3:
            best = max(self.nodes, key=lambda n: n.lp.chain_manager.coinstate.head().height)
            hid = best.lp.chain_manager.coinstate.current_chain_hash
            parent = world.chain.blocks[hid]
            rb, real = world.assemble(hid, [], parent.ts + 60, world.keys[0][1], route="ref")
            world.accept(rb, real, validate=False)
            raw = net.raw_connect(best, src=("10.9.9.9", 47000))
            simnet.greet(net, best, raw, wire, nonce=4242)
            raw.push(wire.block(real))
            net.settle(None, fragment=rng.random() < 0.5)
            c["extra_block_relays"] += 1
            self.h_star = rb.height
            rounds = self.drain(2)
            self.check_escaped("extra block relay")
            if rounds is None or len({n.lp.chain_manager.coinstate.current_chain_hash for n in self.nodes}) != 1:
                mon.v("extra-block-did-not-reach-every-node", "after one more block was relayed, heads are %s (expected all at %d)" % (
                    self.heads(), rb.height), self.w)
                return
        head = self.nodes[0].lp.chain_manager.coinstate.current_chain_hash
        early = getattr(self, "early_tx", None)
        if early is not None:
            t0, tall = early
            led = world.ledger(head)
            holders = [n for n in self.nodes if n is not tall and t0.id() in [x.hash() for x in n.lp.chain_manager.get_state()[1]]]
            if holders:
                # [domain] a node in between had already caught up when the early broadcast arrived: it took the transaction and
                # relayed it then (to neighbours that refused it).  "Relays a given transaction at most once" forbids it to relay
                # the second broadcast, so nothing is expected of the nodes behind it
                c["early_transactions_already_held_by_a_node_in_between"] = c.get("early_transactions_already_held_by_a_node_in_between", 0) + 1
            elif not (ref.tx_codes_by_itself(t0) | ref.tx_codes_in_ledger(t0, led)) and tall.lp.network_manager.get_active_peers():
                # still valid at the head all nodes share now: broadcast it again -- whoever refused it earlier must take it now
                nb = len(self.relays)
                tall.lp.network_manager.broadcast_transaction(bridge.rtx_to_real(t0))
                del self.relays[nb:nb + 1]
                c["early_transactions_broadcast_again"] = c.get("early_transactions_broadcast_again", 0) + 1
                net.settle(None, fragment=rng.random() < 0.5, max_actions=4000)
                self.check_escaped("relay of a transaction that was refused before convergence")
                for n in self.nodes:
                    pool = [x.hash() for x in n.lp.chain_manager.get_state()[1]]
                    if t0.id() not in pool and (n is not tall):
                        mon.v("broadcast-transaction-missing-from-a-pool", "%s: a valid transaction that was first broadcast before the "
                              "nodes had converged (and refused then) is broadcast again once they share a head, and is still not in "
                              "its pool" % n.name, self.w)
                        break
        exclude = set(early[0].refs()) if early is not None else set()
        t = world.make_rtx(head, rng, signer="ref", exclude=exclude)
        if t is None:
            return
        real_t = bridge.rtx_to_real(t)
        origin = rng.choice(self.nodes)
        n_before = len(self.relays)
        origin.lp.network_manager.broadcast_transaction(real_t)      # as scripts/send.py does
        origin_call = self.relays.pop(n_before) if len(self.relays) > n_before else None
        c["transactions_broadcast"] += 1
        moved = net.settle(None, fragment=rng.random() < 0.5, max_actions=4000)      # no timer steps
        if net.enabled():
            mon.v("relay-traffic-does-not-die-out", "after %d deliveries without timer steps traffic is still in flight" % moved, self.w)
        self.check_escaped("transaction relay")
        connected = [n for n in self.nodes if n.lp.network_manager.get_active_peers()]
        for n in self.nodes:
            c["pools_checked"] += 1
            pool = [x.hash() for x in n.lp.chain_manager.get_state()[1]]
            if n is origin and len(origin.lp.network_manager.get_active_peers()) == 0:
                continue
            if t.id() not in pool:
                mon.v("broadcast-transaction-missing-from-a-pool", "%s (origin %s): valid transaction broadcast once the nodes "
                      "share a head is not in its pool when traffic has stopped" % (n.name, origin.name), self.w)
            if pool.count(t.id()) > 1:
                mon.v("transaction-pooled-twice", n.name, self.w)
        # an invalid transaction (output changed after signing) must not be relayed by anybody
        t2 = world.make_rtx(head, rng, signer="ref", exclude=set(t.refs()))
        if t2 is not None and t2.outputs[0][0] > 1:
            bad = ref.RTx(t2.inputs, [(t2.outputs[0][0] - 1, t2.outputs[0][1])] + list(t2.outputs[1:]))
            n_before = len(self.relays)
            origin.lp.network_manager.broadcast_transaction(bridge.rtx_to_real(bad))
            if len(self.relays) > n_before:
                self.relays.pop(n_before)
            c["invalid_transactions_broadcast"] = c.get("invalid_transactions_broadcast", 0) + 1
            moved = net.settle(None, fragment=rng.random() < 0.5, max_actions=4000)
            if net.enabled():
                mon.v("relay-traffic-does-not-die-out", "an invalid transaction is still being passed around after %d deliveries "
                      "without timer steps" % moved, self.w)
            if any(i == bad.id() for (_n, _k, i) in self.relays):
                mon.v("invalid-transaction-relayed", "a transaction with a wrong signature was relayed %d times" % sum(
                    1 for (_n, _k, i) in self.relays if i == bad.id()), self.w)
                self.relays = [r for r in self.relays if r[2] != bad.id()]
            self.check_escaped("invalid transaction relay")


def scenario(rng, quick, lane):
    """(world, tips_per_node, description)"""
    nnodes = rng.choice([2, 2, 3])
    kind = rng.choice(["deep-fork", "shallow-fork", "equal-rivals", "one-empty", "ahead-linear", "three-forks"])
    trunk = rng.choice([0, 1, 3, 8, 12])
    if kind == "deep-fork":
        forks = [rng.randint(11, 30 if quick else 60), rng.randint(11, 30 if quick else 60)]
        if forks[0] == forks[1]:
            forks[1] += 1
    elif kind == "shallow-fork":
        forks = [rng.randint(1, 9), rng.randint(1, 9)]
        if forks[0] == forks[1]:
            forks[1] += 1
    elif kind == "equal-rivals":
        k = rng.randint(1, 12)
        forks = [k, k]
    elif kind == "one-empty":
        forks = [rng.randint(3, 25)]
    elif kind == "ahead-linear":
        forks = [rng.randint(5, 25)]
    else:
        forks = [rng.randint(1, 14), rng.randint(2, 20), rng.randint(3, 26)]
    world, tips = make_forest(rng, trunk, forks)
    base = world.chain.order[trunk] if trunk else world.gid
    per_node = []
    if kind == "one-empty":
        per_node = [[world.gid], [tips[0]]] + ([[base]] if nnodes == 3 else [])
    elif kind == "ahead-linear":
        mid = world.chain.ancestors(tips[0])[max(1, trunk)]
        per_node = [[mid], [tips[0]]] + ([[base]] if nnodes == 3 else [])
    else:
        for i in range(nnodes):
            own = [tips[i % len(tips)]]
            if rng.random() < 0.25:         # also knows part of the rival fork as a side branch
                other = tips[(i + 1) % len(tips)]
                anc = world.chain.ancestors(other)
                own.append(anc[rng.randrange(len(anc))])
            per_node.append(own)
    rng.shuffle(per_node)
    return world, per_node, {"kind": kind, "trunk": trunk, "forks": forks, "nodes": nnodes}


def late_learner(mon, rng, quick):
    """a line A - B - C: A and B share a head, C is ahead.  A asks B first and hears "nothing new"; B learns the longer chain from C
    only afterwards (blocks fetched by polling are not relayed), so A gets it only by asking B AGAIN.  B's clock may be hours off"""
    trunk, ahead = rng.choice([1, 3, 8]), rng.randint(2, 12)
    world, tips = make_forest(rng, trunk, [ahead])
    base = world.chain.ancestors(tips[0])[max(1, trunk)] if trunk else world.gid
    per_node = [[base], [base], [tips[0]]]
    desc = {"kind": "late-learner", "trunk": trunk, "forks": [ahead], "nodes": 3}
    skew = [0, rng.choice([0, 25, 3 * 3600, 6 * 3600, 6 * 3600, -3600]), rng.choice([0, 0, 3600])]
    mon.c["late_learner_runs"] = mon.c.get("late_learner_runs", 0) + 1
    # (A and C may be reachable only through B: both behind NAT, connecting out to B)
    nat = rng.random() < 0.6
    one_run(mon, rng, world, per_node, desc, rng.choice([2, 5, 500]), quick, topo="both-into-middle" if nat else rng.choice(["line", "line-reverse"]),
            skew=skew, unreachable=(0, 2) if nat else ())


def one_run(mon, rng, world, per_node, desc, batch, quick, topo=None, skew=None, unreachable=()):
    nn = len(per_node)
    topo = topo or rng.choice(sorted(TOPOLOGIES[nn]))
    schedule = rng.choice(["uniform", "timers-first", "starve-one-node", "io-first"])
    w = {"desc": desc, "topology": topo, "schedule": schedule, "batch": batch,
         "blocks": gen.blocks_hex(world, world.chain.order[1:]),
         "tips_per_node": [[t.hex() for t in tips] for tips in per_node]}
    same_host = rng.random() < 0.35
    w["same_host"] = same_host
    if unreachable:
        w["unreachable_nodes"] = list(unreachable)
        same_host = w["same_host"] = False
    run = Run(mon, world, per_node, TOPOLOGIES[nn][topo], rng, batch, schedule, w, same_host=same_host, skew=skew, unreachable=unreachable)
    c = mon.c
    c["runs"] += 1
    if same_host:
        c["runs_with_all_nodes_on_one_host"] = c.get("runs_with_all_nodes_on_one_host", 0) + 1
    c["by_topology"][topo] = c["by_topology"].get(topo, 0) + 1
    c["by_schedule"][schedule] = c["by_schedule"].get(schedule, 0) + 1
    if nn == 3:
        c["three_node_runs"] += 1
    heights = run.heads()
    if desc["kind"] == "deep-fork":
        c["fork_depth_beyond_dense_locator"] += 1
    if desc["kind"] == "shallow-fork":
        c["fork_depth_inside_dense_locator"] += 1
    if desc["kind"] == "equal-rivals":
        c["equal_height_rivals"] += 1
    if desc["kind"] == "one-empty":
        c["one_node_empty"] += 1
    if max(heights) - min(heights) > batch or max(desc["forks"]) > batch:
        c["multi_batch_syncs"] += 1
    # in a third of the runs the tallest node broadcasts a transaction BEFORE the others have caught up (they must refuse
    # it: it spends an output of a block they lack); the same transaction is broadcast again once all share a head
    run.early_tx = None
    if rng.random() < 0.5:
        # (first let the links come up -- greetings only, in small steps -- so that the broadcast reaches the neighbours)
        for _ in range(400):
            if run.links_up() and any(n.lp.network_manager.get_active_peers() for n in run.nodes):
                break
            acts = run.net.enabled(timers=True)
            hello = [a for a in acts if a[0] in ("accept", "step")] or acts
            run.net.run_action(rng.choice(hello if rng.random() < 0.5 else acts))
        tall = max(run.nodes, key=lambda n: n.lp.chain_manager.coinstate.head().height)
        hid = tall.lp.chain_manager.coinstate.current_chain_hash
        cbid = world.chain.blocks[hid].txs[0].id()
        own = [x for x in world.owned(hid, ()) if x[0][0] == cbid and x[1] > 1]
        if own:
            t0 = world.make_rtx(hid, rng, spend=own[:1], signer="ref")
            if t0 is not None:
                nb = len(run.relays)
                tall.lp.network_manager.broadcast_transaction(bridge.rtx_to_real(t0))
                tall.lp.chain_manager.add_transaction_to_pool(bridge.rtx_to_real(t0))
                del run.relays[nb:nb + 1]
                run.early_tx = (t0, tall)
                c["transactions_broadcast_before_convergence"] = c.get("transactions_broadcast_before_convergence", 0) + 1
                run.net.settle(None, max_actions=300)
                lacking = [n for n in run.nodes if n is not tall and hid not in n.lp.chain_manager.coinstate.block_by_hash]
                if lacking and tall.lp.network_manager.get_active_peers():
                    c["early_transactions_offered_to_a_node_lacking_the_spent_block"] = c.get(
                        "early_transactions_offered_to_a_node_lacking_the_spent_block", 0) + 1
    run.phase1(rng.choice([0, 20, 100, 400]) if quick else rng.choice([0, 50, 300, 1500]))
    run.check_escaped("random phase")
    rounds = run.drain(sum(desc["forks"]) + desc["trunk"])
    run.check_escaped("drain")
    ok = run.verdict_sync(rounds)
    if ok:
        run.phase2()
    run.relay_verdict()
    mon.digests.add(run.net.interleaving_id())
    c["bytes_moved"] += sum(s.sent_total for s in run.net.all_sockets)
    if len(mon.samples) < 2:
        mon.samples.append({"scenario": desc, "topology": topo, "schedule": schedule, "batch": batch,
                            "initial_heights": heights, "rounds_to_quiescence": rounds, "actions": run.net.n_actions,
                            "interleaving": run.net.interleaving_id()})


def systematic(mon, rng, depth, shard, nshard):
    """systematic schedules: on two small two-node scenarios, EVERY choice sequence of length `depth` over the enabled
    actions (accept / read / write / timer step) is executed from scratch as the start of the run, then the run is drained"""
    import itertools
    shapes = [(2, [6, 4]), (0, [3]), (3, [12, 14])]
    for (trunk, forks) in shapes:
        world, tips = make_forest(rng, trunk, forks, tx_prob=0.2)
        per_node = [[tips[0]], [tips[-1] if len(tips) > 1 else world.gid]]
        idx = 0
        for prefix in itertools.product(range(4), repeat=depth):
            idx += 1
            if idx % nshard != shard:
                continue
            w = {"desc": {"kind": "systematic", "trunk": trunk, "forks": forks, "nodes": 2}, "topology": "two-way", "schedule": "systematic",
                 "batch": 3, "prefix": list(prefix), "blocks": gen.blocks_hex(world, world.chain.order[1:]),
                 "tips_per_node": [[t.hex() for t in tips_] for tips_ in per_node]}
            run = Run(mon, world, per_node, TOPOLOGIES[2]["two-way"], random.Random(7), 3, "systematic", w)
            for choice in prefix:
                acts = run.net.enabled(timers=True)
                act = acts[choice % len(acts)]
                if act[0] == "step":
                    run.net.clock.t += 61
                run.net.run_action(act)
            rounds = run.drain(sum(forks) + trunk)
            run.check_escaped("systematic schedule")
            run.verdict_sync(rounds)
            run.relay_verdict()
            mon.c["runs"] += 1
            mon.c["systematic_runs"] = mon.c.get("systematic_runs", 0) + 1
            mon.digests.add(run.net.interleaving_id())


def big_block_runs(mon, rng, n, quick):
    """chains that contain a VALID block at (or up to 5 bytes below) the maximum block size: the largest message honest
    nodes ever have to exchange"""
    for _ in range(n):
        world, tips = make_forest(rng, 2, [2, 1], tx_prob=0.2)
        pid = tips[0]
        parent = world.chain.blocks[pid]
        size = ref.MAX_BLOCK_SIZE - rng.choice([0, 0, 1, 3, 5, 6, 40])
        rb, real = world.sized_block(pid, parent.ts + 60, world.keys[0][1], size)
        pid = world.accept(rb, real, validate=False)
        parent = world.chain.blocks[pid]
        rb, real = world.assemble(pid, [], parent.ts + 60, world.keys[1][1], route="ref")
        tip = world.accept(rb, real, validate=False)
        if tip is None or pid is None:
            continue
        for per_node in ([[tip], [tips[1]]], [[world.gid], [tip]]):
            mon.c["runs_with_maximum_size_block"] = mon.c.get("runs_with_maximum_size_block", 0) + 1
            one_run(mon, rng, world, per_node, {"kind": "max-size-block", "trunk": 2, "forks": [4, 1], "nodes": 2, "block_bytes": size},
                    500, quick)


def run_shard(spec):
    env.boot()
    mon = Monitor()
    if "replay" in spec:
        w = spec["replay"]
        rng = random.Random(0)
        world = gen.World(rng, nkeys=4)
        for hx in w["blocks"]:
            rb = ref.parse_block(bytes.fromhex(hx))
            world.accept(rb, bridge.rblock_to_real(rb), validate=False)
        per_node = [[bytes.fromhex(t) for t in tips] for tips in w["tips_per_node"]]
        for k in range(20):          # the schedule is re-sampled: 20 schedules on the recorded scenario
            nn = len(per_node)
            r2 = random.Random(k)
            offs = w.get("clock_offsets")
            # (Run draws its own send window; the recorded one is set below)
            run = Run(mon, world, per_node, TOPOLOGIES[nn][w["topology"]], r2, w["batch"], w["schedule"], w,
                      same_host=w.get("same_host", False), skew=[offs.get("n%d" % i, 0) for i in range(nn)] if offs else None,
                      unreachable=tuple(w.get("unreachable_nodes", ())))
            run.phase1(200)
            rounds = run.drain(len(w["blocks"]))
            if run.verdict_sync(rounds):
                run.phase2()
            run.relay_verdict()
            mon.c["runs"] += 1
    else:
        rng = random.Random("c10/%d/%d" % (spec["seed"], spec["shard"]))
        quick = spec["tier"] == "quick"
        if spec["lane"] == "real-batch-520":
            world, tips = make_forest(rng, 3, [520, 4], tx_prob=0.05)
            for j in range(6):
                per_node = [[tips[1]], [tips[0]]] if j % 2 else [[world.gid], [tips[0]], [tips[1]]]
                one_run(mon, rng, world, per_node, {"kind": "real-batch-520", "trunk": 3, "forks": [520, 4], "nodes": len(per_node)},
                        500, quick)
        else:
            nsc = 5 if quick else 110
            for j in range(nsc):
                world, per_node, desc = scenario(rng, quick, spec["lane"])
                for k in range(5 if quick else 8):
                    batch = rng.choice([3, 4, 5, 7]) if spec["lane"] == "small-batch" else 500
                    pn = list(per_node)
                    rng.shuffle(pn)
                    one_run(mon, rng, world, pn, desc, batch, quick)
            for j in range(3 if quick else 40):
                late_learner(mon, rng, quick)
            systematic(mon, rng, 4 if quick else 6, spec["shard"], NSHARD)
            if spec["shard"] % 4 == 0:
                big_block_runs(mon, rng, 1 if quick else 6, quick)
    res = {"evaluations": mon.c["runs"], "digests": sorted(mon.digests), "violations": mon.viol, "counters": mon.c,
           "samples": mon.samples}
    res["counters"]["rounds_histogram"] = {str(k): v for k, v in sorted(mon.rounds_hist.items())}
    return res


def finalize(m, tier):
    c = m["counters"]
    return {
        "rule": "scenario = (block tree, which ancestor-closed part each of 2-3 nodes holds, topology, inventory batch size, "
                "scheduler style); each run draws a fresh seeded schedule; distinct = distinct interleavings by digest of the "
                "complete action sequence; non-trivial = every run (all have at least one node behind or on a rival fork). "
                "Liveness is decided only as bounded progress: quiescence with all heads at the greatest initial height within "
                "R = %d + 4*ceil(blocks/batch) drain rounds" % R_BASE,
        "floors": [("runs", c.get("runs", 0), 250), ("converged", c.get("converged", 0), 250),
                   ("fork_depth_beyond_dense_locator", c.get("fork_depth_beyond_dense_locator", 0), 30),
                   ("multi_batch_syncs", c.get("multi_batch_syncs", 0), 100), ("three_node_runs", c.get("three_node_runs", 0), 50),
                   ("transactions_broadcast", c.get("transactions_broadcast", 0), 150),
                   ("extra_block_relays", c.get("extra_block_relays", 0), 50),
                   ("reorganisations_by_sync", c.get("reorganisations_by_sync", 0), 50),
                   ("relay_calls_recorded", c.get("relay_calls_recorded", 0), 300),
                   ("runs_with_all_nodes_on_one_host", c.get("runs_with_all_nodes_on_one_host", 0), 60),
                   ("runs_with_maximum_size_block", c.get("runs_with_maximum_size_block", 0), 4),
                   ("early_transactions_broadcast_again", c.get("early_transactions_broadcast_again", 0), 30),
                   ("early_transactions_offered_to_a_node_lacking_the_spent_block",
                    c.get("early_transactions_offered_to_a_node_lacking_the_spent_block", 0), 5),
                   ("systematic_runs", c.get("systematic_runs", 0), 3 * 4 ** 4)],
        "extra": {"bounded_restatement_R_base": R_BASE},
    }
