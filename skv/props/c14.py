"""C14 - wallet spends: exact, valid, non-overlapping, or nothing changes.

ensure-style wrapper around the real create_spend_transaction with a snapshot of the wallet's
used-output record; oracle from the reference ledger at the head.  Sequences of calls on one wallet
mix affordable and unaffordable requests and optionally confirm pending spends in a new block."""
import random

from skv import env, ref, gen, bridge
from skv.runner import digest

PROPERTY = "C14"
LEVEL = "exploration"
NSHARD = 16
SHARD_TIMEOUT = {"quick": 900, "thorough": 3600}


def shards(tier, seed):
    return [{"shard": i, "tier": tier, "seed": seed} for i in range(NSHARD)]


class Monitor:
    def __init__(self):
        self.viol = []
        self.c = {"calls": 0, "returned": 0, "raised": 0, "raised_affordable": 0, "exact_no_change": 0, "with_change": 0,
                  "multi_input": 0, "amount_at_total": 0, "amount_above_total": 0, "sequences": 0,
                  "calls_after_a_failed_attempt": 0, "confirmations_between_calls": 0, "real_validator_runs": 0,
                  "wallets_with_foreign_outputs_in_ledger": 0, "returned_with_fee": 0}
        self.digests = set()
        self.samples = []

    def v(self, key, msg, w):
        if sum(1 for x in self.viol if x["key"] == key) < 3:
            self.viol.append({"key": key, "msg": msg, "witness": w})

    def call(self, wmod, cons, wallet, world, amount, fee, recipient, change_key, history, w):
        from skepticoin.signing import SECP256k1PublicKey
        c = self.c
        cs = world.cs
        head = cs.current_chain_hash
        led = world.ledger(head)
        # the harness keeps its OWN record of what this wallet object has used (inputs of the transactions it returned);
        # the wallet's record must agree with it
        before_wallet = {(r.hash, r.index) for r in wallet.spent_transaction_outputs}
        before = set(history.setdefault("record", set()))
        if before_wallet != before:
            self.v("used-output-record-differs-from-what-this-wallet-returned", "before the call the wallet's record of used outputs "
                   "has %d entries, the transactions this wallet object returned used %d (%d recorded but never used by it)" % (
                       len(before_wallet), len(before), len(before_wallet - before)), dict(w, amount=amount, fee=fee))
            before = before | before_wallet if history.get("tolerate_record") else before
        owned = {r: vk for r, vk in led.items() if vk[1] in wallet.keypairs}
        spendable = sum(v for r, (v, k) in owned.items() if r not in before)
        c["calls"] += 1
        if amount + fee == spendable:
            c["amount_at_total"] += 1
        if amount + fee > spendable:
            c["amount_above_total"] += 1
        if history["failed_before"]:
            c["calls_after_a_failed_attempt"] += 1
        self.digests.add(digest(sorted(owned.items()), sorted(before), amount, fee))
        ww = dict(w, amount=amount, fee=fee, spendable=spendable, used_before=len(before), call_index=history["n"])
        history["n"] += 1
        try:
            tx = wmod.create_spend_transaction(wallet, cs, amount, fee, SECP256k1PublicKey(recipient),
                                               SECP256k1PublicKey(change_key))
        except Exception as e:
            c["raised"] += 1
            after = {(r.hash, r.index) for r in wallet.spent_transaction_outputs}
            before = before_wallet
            if spendable >= amount + fee:
                c["raised_affordable"] += 1
                key = "affordable-spend-refused-after-failed-attempt" if history["failed_before"] and history["marked_by_failure"] \
                    else "affordable-spend-refused"
                self.v(key, "unused owned outputs total %d >= amount %d + fee %d, but the wallet raised %r" % (
                    spendable, amount, fee, e), ww)
            if after != before:
                history["marked_by_failure"] = True
                self.v("failed-attempt-changes-used-output-record", "the call raised (%s) and the record of used outputs "
                       "grew from %d to %d entries" % (str(e)[:40], len(before), len(after)), ww)
            history["failed_before"] = True
            return None
        c["returned"] += 1
        rtx = bridge.real_to_rtx(tx)
        after = {(r.hash, r.index) for r in wallet.spent_transaction_outputs}
        codes = ref.tx_codes_by_itself(rtx) | ref.tx_codes_in_ledger(rtx, led)
        if codes:
            self.v("returned-transaction-invalid:" + "+".join(sorted(codes)), "amount %d fee %d: reference finds %s" % (
                amount, fee, sorted(codes)), ww)
        try:
            c["real_validator_runs"] += 1
            cons.validate_non_coinbase_transaction_by_itself(tx)
            cons.validate_non_coinbase_transaction_in_coinstate(tx, head, cs)
        except Exception as e:
            self.v("returned-transaction-fails-node-validation", repr(e)[:200], ww)
        refs = rtx.refs()
        if len(refs) > 1:
            c["multi_input"] += 1
        if len(set(refs)) != len(refs):
            self.v("input-repeated", "the transaction repeats an input", ww)
        tot_in = 0
        for r in refs:
            if r not in owned:
                self.v("spends-output-not-owned-by-wallet", "input %s.. is not an unspent output of a wallet key" % r[0].hex()[:10], ww)
            else:
                tot_in += owned[r][0]
            if r in before:
                self.v("reuses-output-of-earlier-spend", "input was already used by an earlier spend from this wallet", ww)
            if r in history["spent_by_returned"]:
                self.v("reuses-output-of-earlier-spend", "input appears in an earlier returned transaction", ww)
        history["spent_by_returned"].update(refs)
        history["record"].update(refs)
        if not rtx.outputs or rtx.outputs[0] != (amount, recipient):
            self.v("recipient-not-paid-exactly", "first output %s, requested (%d, recipient)" % (
                (rtx.outputs[0][0], rtx.outputs[0][1].hex()[:8]) if rtx.outputs else None, amount), ww)
        change = tot_in - amount - fee
        if fee:
            c["returned_with_fee"] += 1
        if change == 0:
            c["exact_no_change"] += 1
            if len(rtx.outputs) != 1:
                self.v("change-output-when-none-due", "inputs %d = amount %d + fee %d but %d outputs" % (
                    tot_in, amount, fee, len(rtx.outputs)), ww)
        elif change > 0:
            c["with_change"] += 1
            if len(rtx.outputs) != 2 or rtx.outputs[1] != (change, change_key):
                self.v("change-not-exact", "inputs %d, amount %d, fee %d: change must be %d to the change address; outputs %s" % (
                    tot_in, amount, fee, change, [(v, k.hex()[:6]) for v, k in rtx.outputs]), ww)
        else:
            self.v("inputs-below-amount-plus-fee", "inputs %d < amount %d + fee %d" % (tot_in, amount, fee), ww)
        if not set(refs) <= after:
            self.v("used-outputs-not-recorded", "inputs of the returned transaction are not in the wallet's used record", ww)
        if len(self.samples) < 2:
            self.samples.append({"amount": amount, "fee": fee, "spendable": spendable, "inputs": len(refs),
                                 "outputs": [v for v, _k in rtx.outputs]})
        return rtx

    def while_another_thread_hands_out_a_key(self, wmod, wallet, rng):
        """the wallet object is shared with the miner watcher thread, which hands out (and on shutdown gives back) keys: this
        request is served while that happens -- the requesting thread is held at one source location of the wallet module, the
        other thread's hand-out completes, the request goes on.  Returns a stand-in for the wallet module whose
        create_spend_transaction does that; the call is judged exactly like every other call"""
        import copy
        pre = self.pre

        class Shim:
            pass
        shim = Shim()
        mon = self

        def create_spend_transaction(w_, cs, amount, fee, recipient, change):
            pre.resume()
            try:
                return held(w_, cs, amount, fee, recipient, change)
            finally:
                pre.pause()

        def held(w_, cs, amount, fee, recipient, change):
            probe = copy.deepcopy(w_)
            total = pre.count(lambda: wmod.create_spend_transaction(probe, cs, amount, fee, recipient, change))
            ks = pre.points_by_location(rng, 1)
            if not ks:
                return wmod.create_spend_transaction(w_, cs, amount, fee, recipient, change)

            def other():
                key = w_.get_annotated_public_key("reserved for potentially mined block")
                if rng.random() < 0.3:
                    w_.restore_annotated_public_key(key, "reserved for potentially mined block")
                return key
            a, b, ran = pre.run(lambda: wmod.create_spend_transaction(w_, cs, amount, fee, recipient, change), other, ks[0])
            if ran:
                mon.c["calls_while_another_thread_hands_out_a_key"] = mon.c.get("calls_while_another_thread_hands_out_a_key", 0) + 1
                mon.c["two_thread_locations_seen"] = len(pre.loc_uses)
            from skv import preempt
            if isinstance(a, preempt.Raised):
                raise a.e
            return a
        shim.create_spend_transaction = create_spend_transaction
        return shim

    def run_sequence(self, rng, idx):
        import skepticoin.wallet as wmod
        import skepticoin.consensus as cons
        world = gen.World(rng, nkeys=10)
        world.odd_reward_prob = rng.choice([0.0, 0.3])
        world.grow(rng.choice([3, 6, 10, 16]), rng, tx_prob=0.7, bias="linear" if rng.random() < 0.5 else "mixed")
        nk = rng.randint(1, 8)
        mine = rng.sample(world.keys, nk)
        wallet = wmod.Wallet({pk: sk for sk, pk in mine}, [pk for _s, pk in mine[:nk // 2]], {pk: "a" for _s, pk in mine[nk // 2:]})
        foreign = [pk for _s, pk in world.keys if pk not in wallet.keypairs] or [b"\x09" * 64]
        c = self.c
        c["sequences"] += 1
        history = {"n": 0, "failed_before": False, "marked_by_failure": False, "spent_by_returned": set()}
        pending = []
        w = {"blocks": gen.blocks_hex(world, world.chain.order[1:]), "wallet_keys": [pk.hex() for pk in wallet.keypairs],
             "wallet_unused": [pk.hex() for pk in wallet.unused_public_keys], "calls": []}
        led0 = world.ledger(world.cs.current_chain_hash)
        if any(k not in wallet.keypairs for _v, k in led0.values()):
            c["wallets_with_foreign_outputs_in_ledger"] += 1
        for _ in range(rng.randint(1, 10)):
            head = world.cs.current_chain_hash
            led = world.ledger(head)
            used = {(r.hash, r.index) for r in wallet.spent_transaction_outputs}
            vals = sorted(v for r, (v, k) in led.items() if k in wallet.keypairs and r not in used)
            total = sum(vals)
            mode = rng.choice(["below", "at-total", "above", "single-output", "prefix-sum", "tiny", "random", "above-by-one"])
            fee = rng.choice([0, 0, 1, 1000, 12345])
            if mode == "at-total" and total > fee:
                amount = total - fee
            elif mode == "above":
                amount = total + rng.choice([1, 2, 10 ** 9])
            elif mode == "above-by-one":
                amount = max(1, total - fee + 1)
            elif mode == "single-output" and vals:
                amount = max(1, rng.choice(vals) - fee + rng.choice([-1, 0, 0, 1]))
            elif mode == "prefix-sum" and vals:
                k = rng.randint(1, len(vals))
                amount = max(1, sum(rng.sample(vals, k)) - fee + rng.choice([0, 0, -1, 1]))
            elif mode == "tiny":
                amount = 1
            elif mode == "below" and total > 2:
                amount = rng.randrange(1, max(2, total - fee))
            else:
                amount = rng.randrange(1, max(2, 2 * total + 2))
            amount = max(1, amount)
            recipient = rng.choice(foreign)
            change_key = rng.choice(list(wallet.keypairs))
            w["calls"].append([amount, fee, recipient.hex(), change_key.hex()])
            threaded = getattr(self, "pre", None) is not None and rng.random() < 0.3
            if threaded:
                w["calls"][-1].append("other-thread-hands-out-a-key")
            rtx = self.call(self.while_another_thread_hands_out_a_key(wmod, wallet, rng) if threaded else wmod, cons, wallet, world,
                            amount, fee, recipient, change_key, history, w)
            if rtx is not None:
                pending.append(rtx)
            if rng.random() < 0.15:
                # the wallet is closed and opened again (another process, or a second wallet object over the same key file):
                # the record of used outputs is not part of the file, so the new object starts with an empty one
                import io
                buf = io.StringIO()
                wallet.dump(buf)
                buf.seek(0)
                wallet = wmod.Wallet.load(buf)
                history["record"] = set()
                history["spent_by_returned"] = set()
                history["failed_before"] = history["marked_by_failure"] = False
                c["wallet_reopened"] = c.get("wallet_reopened", 0) + 1
                w["calls"].append(["reopen"])
            if rng.random() < 0.12 and len(world.chain.order) > 2:
                # reorganisation: a competing branch off the head's parent (without the wallet's transactions) overtakes;
                # outputs whose spends were confirmed on the abandoned branch are unspent again at the new head, yet they
                # were used by earlier spends of this wallet and must not be picked again
                hd = world.cs.current_chain_hash
                cur = world.chain.blocks[hd].prev
                if cur != ref.ZERO32:
                    hh = world.chain.blocks[hd].height
                    try:
                        while world.chain.blocks[cur].height <= hh:
                            rb, real = world.assemble(cur, [], world.chain.blocks[cur].ts + 70, rng.choice(foreign), route="ref")
                            cur = world.accept(rb, real, now=rb.ts)
                        w["blocks"] = gen.blocks_hex(world, world.chain.order[1:])
                        if world.cs.current_chain_hash == cur:
                            c["reorganisations_between_calls"] = c.get("reorganisations_between_calls", 0) + 1
                            pending = [t for t in pending]
                    except Exception:
                        pass
            if pending and rng.random() < 0.3:
                # confirm the pending spends in a new block on the head
                parent = world.chain.blocks[head]
                ok, taken = [], set()
                for t in pending:       # (after a re-open two pending spends may use the same output: only one can be confirmed)
                    if not ref.tx_codes_in_ledger(t, led) and not (set(t.refs()) & taken):
                        ok.append(t)
                        taken.update(t.refs())
                try:
                    rb, real = world.assemble(head, ok, parent.ts + 60, rng.choice(foreign + list(wallet.keypairs)))
                    world.accept(rb, real, now=rb.ts)
                    w["blocks"] = gen.blocks_hex(world, world.chain.order[1:])
                    c["confirmations_between_calls"] += 1
                    pending = []
                except Exception:
                    pass


def small_scope(mon, rng, length, shard, nshard):
    """EVERY sequence of `length` requests on a small wallet (key 0 owns two outputs of one reward each, keys 1 and 2 one
    each, one foreign key owns one): amounts from a grid around the output values x fee 0/5, plus 'confirm pending'"""
    import itertools
    import skepticoin.wallet as wmod
    import skepticoin.consensus as cons
    base = gen.World(rng, nkeys=5)
    base.reuse_pending = False
    pid = base.gid
    for k in (0, 0, 1, 2, 3):
        rb, real = base.assemble(pid, [], base.chain.blocks[pid].ts + 60, base.keys[k][1], route="ref")
        pid = base.accept(rb, real, validate=False)
    u = ref.subsidy(1)
    amounts = [1, u // 2, u, u + 1, 2 * u, 2 * u + 1, 3 * u, 4 * u, 4 * u + 1]
    events = [(a_, f_) for a_ in amounts for f_ in (0, 5)] + ["confirm", "reorg"]
    idx = 0
    for seq in itertools.product(range(len(events)), repeat=length):
        idx += 1
        if idx % nshard != shard:
            continue
        world = base.fork()
        mine = world.keys[:3]
        wallet = wmod.Wallet({pk: sk for sk, pk in mine}, [pk for _s, pk in mine], {})
        history = {"n": 0, "failed_before": False, "marked_by_failure": False, "spent_by_returned": set()}
        pending = []
        w = {"blocks": gen.blocks_hex(world, world.chain.order[1:]), "wallet_keys": [pk.hex() for pk in wallet.keypairs], "calls": [],
             "lane": "small-scope"}
        mon.c["small_scope_sequences"] = mon.c.get("small_scope_sequences", 0) + 1
        for e in seq:
            ev = events[e]
            if ev == "reorg":
                hd = world.cs.current_chain_hash
                cur = world.chain.blocks[hd].prev
                if cur != ref.ZERO32:
                    hh = world.chain.blocks[hd].height
                    while world.chain.blocks[cur].height <= hh:
                        rb, real = world.assemble(cur, [], world.chain.blocks[cur].ts + 70, world.keys[4][1], route="ref")
                        cur = world.accept(rb, real, validate=False)
                    w["blocks"] = gen.blocks_hex(world, world.chain.order[1:])
                    mon.c["reorganisations_between_calls"] = mon.c.get("reorganisations_between_calls", 0) + 1
                continue
            if ev == "confirm":
                if pending:
                    head = world.cs.current_chain_hash
                    led = world.ledger(head)
                    ok = [t for t in pending if not ref.tx_codes_in_ledger(t, led)]
                    rb, real = world.assemble(head, ok, world.chain.blocks[head].ts + 60, world.keys[4][1], route="ref")
                    world.accept(rb, real, validate=False)
                    w["blocks"] = gen.blocks_hex(world, world.chain.order[1:])
                    pending = []
                continue
            amount, fee = ev
            w["calls"].append([amount, fee, world.keys[4][1].hex(), world.keys[0][1].hex()])
            rtx = mon.call(wmod, cons, wallet, world, amount, fee, world.keys[4][1], world.keys[0][1], history, w)
            if rtx is not None:
                pending.append(rtx)


def replay(mon, w):
    import skepticoin.wallet as wmod
    import skepticoin.consensus as cons
    rng = random.Random(0)
    world = gen.World(rng, nkeys=10)
    for hx in w["blocks"]:
        rb = ref.parse_block(bytes.fromhex(hx))
        world.accept(rb, bridge.rblock_to_real(rb), validate=False)
    keys = [bytes.fromhex(x) for x in w["wallet_keys"]]
    unused = [bytes.fromhex(x) for x in w.get("wallet_unused", [])]
    wallet = wmod.Wallet({pk: world.sk_by_pk[pk] for pk in keys}, list(unused), {pk: "a" for pk in keys if pk not in unused})
    history = {"n": 0, "failed_before": False, "marked_by_failure": False, "spent_by_returned": set()}
    if any(len(c_) > 4 for c_ in w["calls"]):
        import skepticoin.balances as bal
        from skv import preempt
        mon.pre = preempt.Preempter([wmod, bal])
        mon.pre.pause()
    for call in w["calls"]:
        if call[0] == "reopen":
            import io
            buf = io.StringIO()
            wallet.dump(buf)
            buf.seek(0)
            wallet = wmod.Wallet.load(buf)
            history["record"] = set()
            history["spent_by_returned"] = set()
            continue
        (amount, fee, rec, chg) = call[:4]
        if len(call) > 4 and getattr(mon, "pre", None) is not None and mon.pre.ok:
            import copy
            for _try in range(60):      # (each try holds the request at another source location)
                w2, h2 = copy.deepcopy(wallet), copy.deepcopy(history)
                mon.call(mon.while_another_thread_hands_out_a_key(wmod, w2, rng), cons, w2, world, amount, fee, bytes.fromhex(rec),
                         bytes.fromhex(chg), h2, w)
        mon.call(wmod, cons, wallet, world, amount, fee, bytes.fromhex(rec), bytes.fromhex(chg), history, w)
    if getattr(mon, "pre", None) is not None:
        mon.pre.close()


def run_shard(spec):
    env.boot()
    mon = Monitor()
    if "replay" in spec:
        replay(mon, spec["replay"])
    else:
        rng = random.Random("c14/%d/%d" % (spec["seed"], spec["shard"]))
        import skepticoin.wallet as wmod_
        import skepticoin.balances as bal_
        from skv import preempt
        mon.pre = preempt.Preempter([wmod_, bal_])
        if not mon.pre.ok:
            mon.pre = None
        else:
            mon.pre.pause()
        try:
            for j in range(30 if spec["tier"] == "quick" else 800):
                mon.run_sequence(rng, j)
        finally:
            if mon.pre is not None:
                mon.pre.close()
                mon.pre = None
        small_scope(mon, rng, 3 if spec["tier"] == "quick" else 4, spec["shard"], NSHARD)
    return {"evaluations": mon.c["calls"], "digests": sorted(mon.digests), "violations": mon.viol, "counters": mon.c,
            "samples": mon.samples}


def finalize(m, tier):
    c = m["counters"]
    return {
        "rule": "wallets of 1-8 keys (out of 10 generator keys; the rest are foreign) on generated chains; per wallet a "
                "sequence of 1-10 spend requests with amounts below / exactly at / one above / far above the spendable total, "
                "at single-output values and subset sums (+-1), fees 0..12345, optionally confirming pending spends in a new "
                "block between calls; every sequence of 3/4 requests from a 19-request alphabet on a small wallet (exhaustive small "
                "scope); distinct = distinct (owned outputs, used record, amount, fee) by digest",
        "floors": [("calls_while_another_thread_hands_out_a_key", c.get("calls_while_another_thread_hands_out_a_key", 0), 200),
                   ("wallet_reopened", c.get("wallet_reopened", 0), 100), ("calls", c.get("calls", 0), 1000), ("returned", c.get("returned", 0), 300), ("raised", c.get("raised", 0), 200),
                   ("exact_no_change", c.get("exact_no_change", 0), 30), ("with_change", c.get("with_change", 0), 150),
                   ("multi_input", c.get("multi_input", 0), 100),
                   ("calls_after_a_failed_attempt", c.get("calls_after_a_failed_attempt", 0), 100),
                   ("confirmations_between_calls", c.get("confirmations_between_calls", 0), 30),
                   ("small_scope_sequences", c.get("small_scope_sequences", 0), 20 ** 3),
                   ("reorganisations_between_calls", c.get("reorganisations_between_calls", 0), 200)],
        "extra": {},
    }
