"""C06 - tamper evidence (fault enumeration): every single-bit flip and every truncation point of every
block of generated chains is offered to Block.deserialize and, when it decodes, to the full validation
path against the same chain (once on the state that holds the parent but not the block, once on the
state that already holds the block).  Acceptance, or decoding to the identical block from different
bytes, is a violation."""
import random
import re

from skv import env, ref, gen, bridge
from skv.runner import digest

PROPERTY = "C06"
LEVEL = "fault_enumeration"
NSHARD = 16
SHARD_TIMEOUT = {"quick": 900, "thorough": 5400}


def shards(tier, seed):
    out = [{"shard": i, "tier": tier, "seed": seed, "lane": "generated"} for i in range(NSHARD)]
    if tier == "thorough":
        out.append({"shard": 99, "tier": tier, "seed": seed, "lane": "recorded"})
    return out


class Fuzz:
    def __init__(self):
        self.viol = []
        self.c = {"blocks_fuzzed": 0, "bit_flips": 0, "truncations": 0, "undecodable": 0, "decoded": 0,
                  "rejected_by": {}, "header_flips_surviving_pow": 0, "tx_region_flips_decoded": 0,
                  "validations_on_state_without_block": 0, "validations_on_state_with_block": 0,
                  "blocks_with_transactions": 0, "blocks_multi_input": 0, "fork_blocks": 0, "bytes_covered": 0,
                  "same_id_different_content_decoded": 0}
        self.distinct = 0
        self.samples = []
        self.survivors = []

    def v(self, key, msg, w):
        if sum(1 for x in self.viol if x["key"] == key) < 3:
            self.viol.append({"key": key, "msg": msg, "witness": w})

    def offer(self, Block, raw, mutated, bid, states, now, w_base, fault, header_len):
        c = self.c
        try:
            obj = Block.deserialize(mutated)
        except Exception:
            c["undecodable"] += 1
            return
        c["decoded"] += 1
        try:
            again = obj.serialize()
        except Exception:
            again = None
        if again == raw:
            self.v("altered-bytes-decode-to-the-same-block", "fault %s: different bytes decode to the identical block" % (fault,),
                   dict(w_base, fault=fault))
        if fault[0] == "flip" and fault[1] // 8 >= header_len:
            c["tx_region_flips_decoded"] += 1
        try:
            same_id = obj.hash() == bid
        except Exception:
            same_id = False
        if same_id:
            c["same_id_different_content_decoded"] += 1
        for name, cs in states:
            c["validations_on_state_" + name] += 1
            try:
                cs.add_block(obj, now)
            except Exception as e:
                r = type(e).__name__ + ": " + re.sub(r"[0-9a-f]{6,}", "#", str(e))[:48]
                c["rejected_by"][r] = c["rejected_by"].get(r, 0) + 1
                if fault[0] == "flip" and fault[1] // 8 < header_len and "hash >= target" not in str(e) and name == "without_block":
                    c["header_flips_surviving_pow"] += 1
                    # (for the two-thread lane: copies refused only by the proof-of-work evidence comparison come first)
                    if "evidence" in str(e).lower():
                        self.survivors.insert(0, (mutated, fault))
                    elif len(self.survivors) < 6:
                        self.survivors.append((mutated, fault))
                continue
            self.v("altered-block-accepted" + (":same-id" if same_id else ":other-id"),
                   "fault %s: altered block accepted by full validation on the state %s (same id: %s)" % (
                       fault, name.replace("_", " "), same_id), dict(w_base, fault=fault))

    def two_threads(self, Block, raw, states, now, w_base, rng, npoints=24):
        """the networking thread validates an altered copy while another thread (the miner watcher adopting the block it found,
        or a second validation) works on the genuine block: thread A -- full validation of an altered copy that survives the
        context-free checks -- is held at a source location of the validation and codec modules while thread B validates the
        genuine block; the altered copy must be refused and the genuine block accepted"""
        survivors, self.survivors = self.survivors, []
        cs = dict(states).get("without_block")
        if cs is None or getattr(self, "pre", None) is None:
            return
        # what somebody altering a block would do: grind the nonce (1- and 2-bit changes) until the altered header's id is below
        # the target again, keeping the proof-of-work evidence of the genuine block -- such copies pass every context-free check
        # and are refused only because the evidence does not belong to the altered summary
        try:
            rb = ref.parse_block(raw)
            hl, off = len(rb.header_enc()), len(rb.summary_enc()) - 4
            import itertools
            ground = []
            for bits in itertools.chain(((i,) for i in range(32)), itertools.combinations(range(32), 2)):
                m = bytearray(raw)
                for b in bits:
                    m[off + b // 8] ^= 0x80 >> (b % 8)
                if ref.sha256d(bytes(m[:hl])) < rb.target:
                    ground.append((bytes(m), ("nonce-bits",) + bits))
                    if len(ground) >= 2:
                        break
            c0 = self.c
            c0["altered_copies_with_ground_nonce"] = c0.get("altered_copies_with_ground_nonce", 0) + len(ground)
            survivors = ground + survivors
        except Exception:
            pass
        if not survivors:
            return
        from skv import preempt
        pre, c = self.pre, self.c
        self.state = preempt.ModuleState(self.mods)     # (the state the modules are in NOW is what every trial starts from)
        pre.resume()
        try:
            genuine = Block.deserialize(raw)
            for mutated, fault in survivors[:2]:
                def ja(_ctx, m=mutated):
                    blk = Block.deserialize(m)
                    cs.add_block(blk, now)
                    return "accepted"
                # what the other thread does meanwhile: a whole validation of the genuine block, or one of the steps every
                # thread of the node performs on a block it holds (the miner watcher encodes the summary it hands to its miner
                # processes, peers are served the encoded block / header)
                self.b_kind = getattr(self, "b_kind", 0) + 1
                kind = ["validate", "encode-summary", "encode-block", "encode-header"][self.b_kind % 4]

                def jb(_ctx, kind=kind):
                    if kind == "encode-summary":
                        genuine.header.summary.serialize()
                    elif kind == "encode-block":
                        genuine.serialize()
                    elif kind == "encode-header":
                        genuine.header.serialize()
                    else:
                        cs.add_block(Block.deserialize(raw), now)
                    return "accepted"
                c["two_thread_other_thread_" + kind] = c.get("two_thread_other_thread_" + kind, 0) + 1
                for t in preempt.trials(pre, self.state, lambda: None, ja, jb, rng, npoints):
                    c["two_thread_trials"] = c.get("two_thread_trials", 0) + 1
                    if t["want_a"] == "accepted" or t["want_b"] != "accepted":
                        continue
                    w = dict(w_base, fault=fault, two_threads=True, switch_at_event=t["k"], of_events=t["total"])
                    for who, got in (("thread A", t["a"]), ("afterwards", t["after_a"]), ("later", t["later_a"])):
                        if got == "accepted":
                            self.v("altered-block-accepted:two-threads", "fault %s: the altered block is ACCEPTED by full validation (%s) when "
                                   "another thread validates the genuine block at the same time (switch at event %d of %d)" % (
                                       fault, who, t["k"], t["total"]), w)
                    for who, got in (("thread B", t["b"]), ("afterwards", t["after_b"]), ("later", t["later_b"])):
                        if got != "accepted":
                            self.v("genuine-block-refused:two-threads", "the genuine block is refused (%r, %s) when another thread validates an "
                                   "altered copy at the same time (switch at event %d of %d)" % (got, who, t["k"], t["total"]), w)
        finally:
            pre.pause()

    def fuzz_block(self, Block, raw, bid, states, now, w_base, header_len, rng=None, sample_bits=None):
        c = self.c
        c["blocks_fuzzed"] += 1
        c["bytes_covered"] += len(raw)
        nbits = len(raw) * 8
        bits = range(nbits) if sample_bits is None else sorted(rng.sample(range(nbits), min(sample_bits, nbits)))
        # three decode histories: (a) altered copies in byte order, nothing in between; (b) the genuine bytes decoded right
        # before every altered copy (a peer relays the block, an altered copy follows); (c) altered copies of the transaction
        # part first.  Decoding must not depend on what was decoded before.
        history = c["blocks_fuzzed"] % 3
        c["decode_history_" + "abc"[history]] = c.get("decode_history_" + "abc"[history], 0) + 1
        order = list(bits)
        if history == 2:
            order = [b for b in order if b // 8 >= header_len] + [b for b in order if b // 8 < header_len]
            try:
                Block.deserialize(raw)
            except Exception:
                pass
        for bit in order:
            m = bytearray(raw)
            m[bit // 8] ^= 0x80 >> (bit % 8)
            c["bit_flips"] += 1
            if history == 1:
                try:
                    Block.deserialize(raw)
                except Exception:
                    pass
            self.offer(Block, raw, bytes(m), bid, states, now, w_base, ("flip", bit), header_len)
        for cut in range(len(raw)):
            c["truncations"] += 1
            if cut % 2 == 0:
                # the genuine bytes are decoded right before the truncated ones (what a node sees when a peer resends a
                # block cut short): decoding must not depend on what was decoded before
                try:
                    Block.deserialize(raw)
                except Exception:
                    pass
            self.offer(Block, raw, raw[:cut], bid, states, now, w_base, ("truncate", cut), header_len)
        self.distinct += len(bits) + len(raw)


def run_generated(fz, rng, ntrees, nblocks, max_block_bytes):
    from skepticoin.datatypes import Block
    for _ in range(ntrees):
        period = rng.choice([None, None, 5])
        if period:
            env.set_retarget(period)
            params = ref.Params(period=period)
        else:
            env.set_retarget(ref.RETARGET_PERIOD)
            params = None
        world = gen.World(rng, params=params)
        world.odd_reward_prob = rng.choice([0.0, 0.4])      # valid rewards with split / zero-valued / no outputs
        before = {}
        dtc = (1, 2, 60, 120, 600) if not period else tuple(ref.RETARGET_TIMESPAN // period * f // 2 for f in (1, 2, 3))
        for _k in range(nblocks):
            prev_cs = world.cs
            ids = world.grow(1, rng, tx_prob=0.8, max_txs=rng.choice([1, 3, 6]), dt_choices=dtc)
            if ids:
                before[ids[0]] = prev_cs
        # one block whose reward has NO outputs (valid: it claims nothing), so that its encoding ends in an empty list
        try:
            prev_cs = world.cs
            hd = prev_cs.current_chain_hash
            rb0, real0 = world.assemble(hd, [], world.chain.blocks[hd].ts + dtc[0], world.keys[0][1], reward_outputs=[])
            b0 = world.accept(rb0, real0)
            if b0 is not None:
                before[b0] = prev_cs
        except Exception:
            pass
        order = world.chain.order[1:]
        chain_hex = gen.blocks_hex(world, order)
        pick = order if len(order) <= 6 else rng.sample(order, 6)
        # blocks whose encoding ENDS in an empty list (the last transaction has no outputs) are always among the fuzzed ones
        special = [b for b in order if not world.chain.blocks[b].txs[-1].outputs]
        for b in special[:2]:
            if b not in pick:
                pick = list(pick) + [b]
        fz.c["blocks_ending_in_an_empty_list"] = fz.c.get("blocks_ending_in_an_empty_list", 0) + len([b for b in pick if b in special])
        for bid in pick:
            rb = world.chain.blocks[bid]
            raw = rb.enc()
            if len(raw) > max_block_bytes:
                continue
            # non-vacuity: the unaltered block is accepted on the state that lacks it
            try:
                before[bid].add_block(Block.deserialize(raw), rb.ts)
            except Exception as e:
                fz.c["unaltered_block_rejected"] = fz.c.get("unaltered_block_rejected", 0) + 1
                continue
            if len(rb.txs) > 1:
                fz.c["blocks_with_transactions"] += 1
            if any(len(t.inputs) > 1 for t in rb.txs[1:]):
                fz.c["blocks_multi_input"] += 1
            if bid not in set(world.chain.ancestors(world.cs.current_chain_hash)):
                fz.c["fork_blocks"] += 1
            w = {"chain": chain_hex, "block": raw.hex(), "period": period or ref.RETARGET_PERIOD}
            fz.survivors = []
            fz.fuzz_block(Block, raw, bid, [("without_block", before[bid]), ("with_block", world.cs)], rb.ts, w,
                          len(rb.header_enc()))
            fz.two_threads(Block, raw, [("without_block", before[bid])], rb.ts, w, rng)
            if len(fz.samples) < 2:
                fz.samples.append({"block_bytes": len(raw), "transactions": len(rb.txs), "height": rb.height,
                                   "faults": len(raw) * 9, "retarget_period": period or ref.RETARGET_PERIOD})
    env.set_retarget(ref.RETARGET_PERIOD)


def run_recorded(fz):
    """recorded real-network blocks under the unreplaced scrypt (horizon disabled so in-state rules run)"""
    from skepticoin.datatypes import Block
    from skepticoin.coinstate import CoinState
    cs = CoinState.zero()
    states = []
    for (h, idhex, raw) in env.recorded_blocks():
        blk = Block.deserialize(raw)
        states.append((raw, bytes.fromhex(idhex), cs, blk.timestamp))
        cs = cs.add_block(blk, blk.timestamp)
    for raw, bid, before, ts in states:
        hl = len(ref.parse_block(raw).header_enc())
        fz.fuzz_block(Block, raw, bid, [("without_block", before), ("with_block", cs)], ts, {"recorded": bid.hex()}, hl)
        fz.c["recorded_real_blocks"] = fz.c.get("recorded_real_blocks", 0) + 1


def replay(fz, w):
    from skepticoin.datatypes import Block
    from skepticoin.coinstate import CoinState
    if "recorded" in w:
        return run_recorded(fz)
    if w.get("period", ref.RETARGET_PERIOD) != ref.RETARGET_PERIOD:
        env.set_retarget(w["period"])
    raw = bytes.fromhex(w["block"])
    target = ref.parse_block(raw).id()
    cs = CoinState.zero()
    before = None
    for hx in w["chain"]:
        b = Block.deserialize(bytes.fromhex(hx))
        if b.hash() == target:
            before = cs
        cs = cs.add_block_no_validation(b)
    rb = ref.parse_block(raw)
    kind, pos = w["fault"]
    if kind == "flip":
        m = bytearray(raw)
        m[pos // 8] ^= 0x80 >> (pos % 8)
        m = bytes(m)
    else:
        m = raw[:pos]
    fz.offer(Block, raw, m, target, [("without_block", before), ("with_block", cs)], rb.ts, w, (kind, pos), len(rb.header_enc()))



def _replay_route_story(spec):
    from skv.props import c09
    env.boot()
    mon = c09.route_histories(random.Random(1), 8, 14, c09.all_classes(), "replay-route", story_share=0.8)
    return {"evaluations": mon.c.get("deliveries", 0), "distinct": mon.c.get("download_route_stories", 0),
            "violations": [{"key": "node-route:" + v["key"], "msg": v["msg"], "witness": v["witness"]} for v in mon.viol[:6]],
            "counters": {"route_lane_stories": mon.c.get("download_route_stories", 0)}, "digests": []}

def run_shard(spec):
    if "replay" in spec and isinstance(spec["replay"], dict) and spec["replay"].get("kind") == "download-route-story":
        # (the story is re-run with this check's classes on the current tree; the recorded chain is for the reader)
        return _replay_route_story(spec)
    fz = Fuzz()
    if "replay" in spec:
        env.boot(fake_scrypt="recorded" not in spec["replay"])
        replay(fz, spec["replay"])
    elif spec["lane"] == "recorded":
        env.boot(fake_scrypt=False)
        run_recorded(fz)
    else:
        env.boot()
        rng = random.Random("c06/%d/%d" % (spec["seed"], spec["shard"]))
        quick = spec["tier"] == "quick"
        from skv import preempt
        import skepticoin.consensus as cons
        import skepticoin.coinstate as csm
        import skepticoin.pow as pw
        import skepticoin.datatypes as dt
        import skepticoin.signing as sg
        import skepticoin.merkletree as mt
        import skepticoin.hash as hm
        import skepticoin.serialization as ser
        import skepticoin.balances as bal
        mods = [cons, csm, pw, dt, sg, mt, hm, ser, bal]
        fz.pre = preempt.Preempter(mods)
        if fz.pre.ok:
            fz.pre.pause()
            fz.mods = mods
        else:
            fz.pre = None
        try:
            run_generated(fz, rng, ntrees=1 if quick else 16, nblocks=rng.choice([8, 12]), max_block_bytes=1600 if quick else 4000)
        finally:
            if fz.pre is not None:
                fz.pre.close()
        if spec["shard"] % 4 == 1:
            from skv.props import c09
            env.set_retarget(ref.RETARGET_PERIOD)
            route_lane(fz.v, fz.c, rng, 3 if quick else 20, c09.all_classes(), "c06r")
    return {"evaluations": fz.c["bit_flips"] + fz.c["truncations"], "distinct": fz.distinct, "violations": fz.viol,
            "counters": fz.c, "samples": fz.samples, "exhaustive": True}


def route_lane(add_violation, counters, rng, nhist, classes, tag):
    """this property on the routes by which a RUNNING NODE takes blocks (relay and download, real store): histories in which the
    node had asked a peer for blocks, blocks were announced, arrived unrequested, late, before their parent, or again with another
    body (the stories of skv/props/c09.py), built from this check's classes of rule-breaking blocks"""
    from skv.props import c09
    mon = c09.route_histories(rng, nhist, 14, classes, tag)
    counters["route_lane_deliveries"] = counters.get("route_lane_deliveries", 0) + mon.c.get("deliveries", 0)
    counters["route_lane_stories"] = counters.get("route_lane_stories", 0) + mon.c.get("download_route_stories", 0)
    for k_, v_ in mon.c.items():
        if k_.startswith("story:"):
            counters["route_" + k_] = counters.get("route_" + k_, 0) + v_
    for v in mon.viol:
        add_violation("node-route:" + v["key"], v["msg"], v["witness"])


def finalize(m, tier):
    c = m["counters"]
    if c.get("unaltered_block_rejected", 0):
        m["inconclusive"].append("%d unaltered generated blocks were rejected (vacuous)" % c["unaltered_block_rejected"])
    floors = [("blocks_fuzzed", c.get("blocks_fuzzed", 0), 40), ("bit_flips", c.get("bit_flips", 0), 200000),
              ("decoded", c.get("decoded", 0), 100000), ("tx_region_flips_decoded", c.get("tx_region_flips_decoded", 0), 50000),
              ("header_flips_surviving_pow", c.get("header_flips_surviving_pow", 0), 100),
              ("blocks_with_transactions", c.get("blocks_with_transactions", 0), 20)]
    if tier == "thorough":
        floors.append(("recorded_real_blocks", c.get("recorded_real_blocks", 0), 5))
    return {
        "rule": "every single-bit flip and every truncation point (exhaustive per block) of blocks of generated chains "
                "(coinbase-only, 1-6 transactions, multi-input, fork blocks, blocks after a retarget in a short-period "
                "lane); thorough adds the recorded real blocks under the real scrypt; distinct = (block, fault) pairs by "
                "construction; non-trivial = every fault (decoded ones counted separately)",
        "floors": floors,
        "extra": {"exhaustive_bound": "all 8*len single-bit flips and all len truncation points of each fuzzed block"},
    }
