"""C09 - relay path: only fully valid blocks enter state; rejected ones leave no trace.

One real node (LocalPeer + managers + real DiskInterface + real file-backed BlockStore) on the
in-memory transport with three greeted peers.  After every delivery of an unsolicited block message:
node state vs the reference verdict, rows of the chain table read through a second connection, the
write buffer, the pool snapshot, and every peer's outgoing bytes parsed by the reference frame parser.
Offline: exactly-once store and relay per id; conservation delivered = accepted+rejected+duplicate+orphan."""
import io
import os
import random
import sqlite3
import sys

from skv import env, ref, gen, bridge, simnet, cstream
from skv.runner import digest
from skv.props import c05

PROPERTY = "C09"
LEVEL = "exploration"
NSHARD = 16
SHARD_TIMEOUT = {"quick": 900, "thorough": 3600}


def shards(tier, seed):
    return [{"shard": i, "tier": tier, "seed": seed} for i in range(NSHARD)]


# ---- by-itself defects not covered by the C01/C02/C05 class libraries
def b_bad_merkle(world, pid, rng):
    blk = c05._draft(world, pid, rng)
    blk.merkle = rng.getrandbits(256).to_bytes(32, "big")
    return world.mine(blk), {"merkle"}, set()


def b_no_transactions(world, pid, rng):
    blk = c05._draft(world, pid, rng, with_tx=False)
    blk.txs = []
    blk.merkle = b"\x00" * 32
    return world.mine(blk), {"notx"}, set()


def b_same_transaction_twice(world, pid, rng):
    t = world.make_rtx(pid, rng)
    if t is None:
        return None
    blk = world.draft(pid, [t, t], world.chain.blocks[pid].ts + 7, rng.choice(world.keys)[1],
                      reward=ref.subsidy(world.chain.blocks[pid].height + 1))
    return world.mine(blk), {"dup-tx", "dup-ref-block"}, set()


def b_reward_data_too_long(world, pid, rng):
    blk = world.draft(pid, [], world.chain.blocks[pid].ts + 7, rng.choice(world.keys)[1], data=b"x" * rng.choice([201, 255]))
    return world.mine(blk), {"cb-datasize"}, set()


def b_oversize(world, pid, rng):
    blk = world.draft(pid, [], world.chain.blocks[pid].ts + 7, rng.choice(world.keys)[1])
    cb = blk.txs[0]
    k = rng.choice(world.keys)[1]
    blk.txs[0] = ref.RTx(cb.inputs, [(0, k)] * 2750 + [cb.outputs[0]])
    blk = world.mine(blk, fix_merkle=True)
    if len(blk.enc()) <= ref.MAX_BLOCK_SIZE:
        return None
    return blk, {"size"}, set()


def b_future(world, pid, rng):
    blk = c05._draft(world, pid, rng)
    blk.ts = world.now + 31 + rng.choice([0, 1, 5000])
    return world.mine(blk), {"future"}, set()


def b_orphan(world, pid, rng):
    return c05.h_unknown_parent(world, pid, rng)


BY_ITSELF = {"bad-merkle": b_bad_merkle, "no-transactions": b_no_transactions,
             "same-transaction-twice": b_same_transaction_twice, "reward-data-too-long": b_reward_data_too_long,
             "oversize": b_oversize, "timestamp-in-future": b_future, "orphan": b_orphan}
VALID = {"valid-spend": cstream.c_valid_spend, "valid-multi": cstream.c_valid_multi,
         "valid-real-assembly": c05.h_valid_real_assembly, "valid-ref-assembly": c05.h_valid_ref_assembly}


def all_classes():
    d = {}
    d.update({k: v for k, v in cstream.C01_CLASSES.items()})
    d.update({k: v for k, v in cstream.C02_CLASSES.items()})
    d.update({k: v for k, v in c05.HEADER_CLASSES.items() if k not in ("unknown-parent",)})
    d.update(BY_ITSELF)
    d.update(VALID)
    return d


APPLY_ERROR = {"a-never-existed", "b-spent-in-ancestor", "c-other-fork-output", "f-output-of-same-block",
               "two-reward-transactions", "i-placeholder-for-signature"}


def quiet(fn, *a, **k):
    out = sys.stdout
    sys.stdout = io.StringIO()
    try:
        return fn(*a, **k)
    finally:
        sys.stdout = out


class Monitor:
    def __init__(self):
        self.viol = []
        self.c = {"histories": 0, "deliveries": 0, "accepted": 0, "rejected": 0, "duplicates": 0, "orphans": 0,
                  "new_heads": 0, "accepted_non_head": 0, "relays_observed": 0, "store_rows_checked": 0,
                  "pool_snapshots_compared": 0, "by_class": {}, "apply_error_deliveries": 0,
                  "valid_after_rejection_stored": 0, "sender_disconnected": 0, "reorg_new_heads": 0,
                  "deliveries_with_pending_pool": 0, "class_material_missing": 0, "class_generation_mismatch": 0}
        self.digests = set()
        self.samples = []

    def v(self, key, msg, w):
        if sum(1 for x in self.viol if x["key"] == key) < 3:
            self.viol.append({"key": key, "msg": msg, "witness": w})


class History:
    def __init__(self, mon, rng, idx, world=None, npool=None):
        from skepticoin.networking.disk_interface import DiskInterface
        from skepticoin.blockstore import BlockStore, DefaultBlockStore
        import skepticoin.blockstore as bs
        self.mon, self.rng = mon, rng
        if world is None:
            world = gen.World(rng)
            world.bad_key_prob = 0.1
            world.odd_reward_prob = rng.choice([0.0, 0.25])
            world.grow(rng.choice([6, 10, 16]), rng, tx_prob=0.7)
        self.world = world
        self.path = os.path.join(os.getcwd(), "node-%s.db" % idx)
        if os.path.exists(self.path):
            os.remove(self.path)
        self.store = quiet(BlockStore, self.path)
        bs.DefaultBlockStore.instance = self.store
        import skepticoin.networking.remote_peer as rp
        import skepticoin.networking.disk_interface as di
        assert getattr(rp, "DefaultBlockStore", bs.DefaultBlockStore) is bs.DefaultBlockStore and di.DefaultBlockStore is bs.DefaultBlockStore
        # the node's store starts with what the node knows
        try:
            self.store.write_blocks_to_disk([world.real[b] for b in world.chain.order[1:]])
        except Exception:
            pass

        class Disk(DiskInterface):
            def save_transaction_for_debugging(self, transaction):     # keep /tmp clean
                pass
        self.net = simnet.Net(rng)
        self.world.now = self.net.clock.t = max(b.ts for b in world.chain.blocks.values()) + 100
        self.node = self.net.add_node("N", ("10.0.0.1", 2412), world.cs, Disk())
        self.wire = simnet.Wire(self.net.clock)
        self.peers = []
        for i in range(3):
            self.add_peer()
        self.ro = sqlite3.connect("file:%s?mode=ro" % self.path, uri=True)
        self.install_validation_window_hook()
        self.relayed = {}       # block id -> per-peer count
        self.rejected_blocks = []
        self.had_rejection = False
        self.log = []
        # pending transactions in the pool
        head = world.cs.current_chain_hash
        used = set()
        for _ in range(rng.randint(0, 3) if npool is None else npool):
            t = world.make_rtx(head, rng, exclude=used)
            if t is not None:
                used.update(t.refs())
                self.node.lp.chain_manager.add_transaction_to_pool(bridge.rtx_to_real(t))

    def install_validation_window_hook(self):
        """While the relay path validates a block, the chain state the node serves (what the miner thread or a peer's
        request would see at that instant) is sampled: a block that has not passed validation yet must not be part of it.
        This is the observation another thread could make between the two critical sections."""
        import skepticoin.networking.remote_peer as rp
        if not hasattr(rp, "_skv_orig_validate"):
            rp._skv_orig_validate = rp.validate_block_in_coinstate
        hist = self

        def hooked(block, coinstate):
            node = getattr(hist, "node", None)
            if node is not None and not getattr(hist, "in_ibd_delivery", False):
                hist.mon.c["validation_window_observations"] = hist.mon.c.get("validation_window_observations", 0) + 1
                served, _pool = node.lp.chain_manager.get_state()
                if block.hash() in served.block_by_hash:
                    hist.window_leaks.append(block.hash())
            return rp._skv_orig_validate(block, coinstate)
        rp.validate_block_in_coinstate = hooked
        self.window_leaks = []

    def add_peer(self):
        raw = self.net.raw_connect(self.node, src=("10.7.7.%d" % (len(self.peers) + 1), 40000 + len(self.peers)))
        simnet.greet(self.net, self.node, raw, self.wire, nonce=1000 + len(self.peers))
        self.peers.append(raw)
        return raw

    def active_raws(self):
        act = {p.sock for p in self.node.lp.network_manager.get_active_peers()}
        return [r for r in self.peers if r.peer in act]

    def rows(self):
        return {bytes(r[0]): r[1] for r in self.ro.execute("select block_hash, count(*) from chain group by block_hash")}

    def pool_ids(self):
        return [t.hash() for t in self.node.lp.chain_manager.get_state()[1]]

    def deliver(self, rblk, cls, must, may):
        mon, c, world, node = self.mon, self.mon.c, self.world, self.node
        now = world.now
        real = bridge.rblock_to_real(rblk)
        bid = rblk.id()
        cm = node.lp.chain_manager
        before_cs = cm.coinstate
        known = bid in before_cs.block_by_hash
        codes = set() if known else ref.block_codes(world.chain, rblk, now)
        if not known and must is not None and not (must <= codes and codes <= (must | (may or set()))):
            c["class_generation_mismatch"] += 1
            return
        c["deliveries"] += 1
        c["by_class"][cls] = c["by_class"].get(cls, 0) + 1
        mon.digests.add(digest(rblk.enc(), known))
        if cls in APPLY_ERROR:
            c["apply_error_deliveries"] += 1
        pool_before = self.pool_ids()
        pool_before_rtx = [bridge.real_to_rtx(t) for t in node.lp.chain_manager.get_state()[1]]
        if pool_before:
            c["deliveries_with_pending_pool"] += 1
        rows_before = self.rows()
        buf_before = len(self.store.write_buffer)
        head_before = before_cs.current_chain_hash
        for r in self.peers:
            r.take_received()
        act_before = self.active_raws()
        if not act_before:
            self.add_peer()
            act_before = self.active_raws()
        sender = self.rng.choice(act_before)
        self.log.append({"class": cls, "block": rblk.enc().hex(), "known": known})
        if not hasattr(self, "seen"):
            self.seen = {}
        self.seen[bid] = (rblk, cls)
        w = {"chain": gen.blocks_hex(world, world.chain.order[1:]), "deliveries": list(self.log), "now": now}
        sender.push(self.wire.block(real))
        self.net.settle(node, fragment=self.rng.random() < 0.5)
        after_cs = cm.coinstate
        in_state = bid in after_cs.block_by_hash
        rows_after = self.rows()
        c["store_rows_checked"] += 1
        expect_accept = (not known) and not codes
        # relays seen by every peer that was active before the delivery
        relay_counts = []
        for r in act_before:
            msgs, _rest = simnet.Wire.parse(r.take_received())
            n = sum(1 for m in msgs if m["msg"]["type"] == "data" and m["msg"].get("kind") == "block" and m["msg"]["id"] == bid)
            other = [m for m in msgs if m["msg"]["type"] == "data" and m["msg"].get("kind") == "block" and m["msg"]["id"] != bid]
            relay_counts.append(n)
            if other:
                mon.v("unrelated-block-relayed", "a block other than the delivered one was sent unsolicited", w)
        c["relays_observed"] += sum(relay_counts)
        if node.escaped:
            mon.v("exception-escaped-event-handler", node.escaped[0][:300], w)
            node.escaped.clear()
        if self.window_leaks:
            mon.v("unvalidated-block-visible-in-served-state", "class %s: while the delivered block was still being validated, the "
                  "chain state handed out by get_state() already contained it (another thread, e.g. the miner, would build on it)" % cls, w)
            del self.window_leaks[:]
        if known:
            c["duplicates"] += 1
            if after_cs is not before_cs and gen.fingerprint(after_cs) != gen.fingerprint(before_cs):
                mon.v("duplicate-delivery-changed-state", "class %s" % cls, w)
            if any(relay_counts):
                mon.v("duplicate-delivery-relayed", "a block the node already had was relayed again", w)
            if rows_after != rows_before:
                mon.v("duplicate-delivery-changed-store", "", w)
            return
        if "parent-unknown" in codes:
            c["orphans"] += 1
        if expect_accept:
            c["accepted"] += 1
            if not in_state:
                key = "valid-block-after-rejection-not-accepted" if self.had_rejection else "valid-block-not-accepted"
                mon.v(key, "class %s: fully valid block (h=%d) is not in the node's chain state after delivery "
                      "(earlier rejected deliveries in this history: %s)" % (cls, rblk.height, self.had_rejection), w)
                # keep the harness consistent with the node: do not add to the world
                return
            if rows_after.get(bid, 0) != 1:
                key = "accepted-block-not-stored-after-rejection" if self.had_rejection else "accepted-block-not-stored"
                mon.v(key, "class %s: accepted block h=%d has %d rows in the chain table (write buffer holds %d)" % (
                    cls, rblk.height, rows_after.get(bid, 0), len(self.store.write_buffer)), w)
            elif self.had_rejection:
                c["valid_after_rejection_stored"] += 1
            is_new_head = after_cs.current_chain_hash == bid
            exp_new_head = rblk.height > world.chain.blocks[head_before].height
            if is_new_head != exp_new_head:
                mon.v("head-after-delivery-wrong", "block h=%d: is head=%s, expected %s" % (rblk.height, is_new_head, exp_new_head), w)
            if exp_new_head:
                c["new_heads"] += 1
                if rblk.prev != head_before:
                    c["reorg_new_heads"] += 1
                still = [r for r in act_before if r in self.active_raws()]
                for r, n in zip(act_before, relay_counts):
                    if n != 1 and r in still:
                        mon.v("new-head-not-relayed-exactly-once", "new head h=%d was sent %d times to an active peer" % (
                            rblk.height, n), w)
            else:
                c["accepted_non_head"] += 1
                if any(relay_counts):
                    mon.v("non-head-block-relayed", "accepted block that did not become head was relayed", w)
            world.cs = world.cs.add_block_no_validation(real)
            world.accept(rblk, real, cs=world.cs)
            # a node may keep blocks that arrived before their parent and connect them now.  Whatever it connected must be a
            # block that was delivered, and must break no rule
            unknown = sorted((b for b in after_cs.block_by_hash if b not in world.chain.blocks),
                             key=lambda b: after_cs.block_by_hash[b].height)
            for b in unknown:
                rb2, cls2 = self.seen.get(b, (None, None))
                if rb2 is None or rb2.prev not in world.chain.blocks:
                    mon.v("node-holds-a-block-it-was-never-given", "after the delivery the chain state contains a block (h=%d) that no "
                          "peer delivered" % after_cs.block_by_hash[b].height, w)
                    self.diverged = True
                    return
                codes2 = ref.block_codes(world.chain, rb2, now)
                if codes2:
                    mon.v("rejected-block-in-chain-state:" + "+".join(sorted(codes2)), "class %s: a block that breaks %s, delivered earlier "
                          "(before its parent), is part of the node's chain state now that the parent has arrived" % (cls2, sorted(codes2)), w)
                    self.diverged = True
                    return
                real2 = bridge.rblock_to_real(rb2)
                world.cs = world.cs.add_block_no_validation(real2)
                world.accept(rb2, real2, cs=world.cs)
                c["earlier_orphans_connected_by_the_node"] = c.get("earlier_orphans_connected_by_the_node", 0) + 1
            if unknown:
                return
            # pool: exactly the previously pooled transactions still valid at the new head
            c["pool_snapshots_compared"] += 1
            led = world.ledger(after_cs.current_chain_hash)
            exp_pool = [t.id() for t in pool_before_rtx if not ref.tx_codes_in_ledger(t, led)]
            if self.pool_ids() != exp_pool:
                mon.v("pool-after-accepted-block-wrong", "pool has %d entries, %d of the %d previously pooled transactions "
                      "are still valid at the new head" % (len(self.pool_ids()), len(exp_pool), len(pool_before)), w)
        else:
            c["rejected"] += 1
            self.had_rejection = True
            if not cls.endswith("@re-delivered") and "future" not in codes:
                self.rejected_blocks.append((rblk, cls))
            if in_state:
                mon.v("rejected-block-in-chain-state:" + "+".join(sorted(codes)), "class %s: block that breaks %s is part of "
                      "the node's chain state after delivery" % (cls, sorted(codes)), w)
                self.diverged = True      # the node now holds a block the harness' world does not: end this history
            elif gen.fingerprint(after_cs) != gen.fingerprint(before_cs):
                mon.v("rejected-delivery-changed-chain-state", "class %s" % cls, w)
            if bid in rows_after:
                mon.v("rejected-block-in-store", "class %s: rejected block has a row in the chain table" % cls, w)
            if any(b.hash() == bid for b in self.store.write_buffer):
                mon.v("rejected-block-left-in-write-buffer", "class %s (%s): the rejected block is still in the store's write "
                      "buffer after the delivery" % (cls, "+".join(sorted(codes))), w)
            elif len(self.store.write_buffer) != buf_before:
                mon.v("write-buffer-changed-by-rejected-delivery", "class %s" % cls, w)
            if any(relay_counts):
                mon.v("rejected-block-relayed", "class %s: rejected block was relayed" % cls, w)
            c["pool_snapshots_compared"] += 1
            if self.pool_ids() != pool_before:
                mon.v("rejected-delivery-changed-pool", "class %s: pool had %d entries, now %d" % (
                    cls, len(pool_before), len(self.pool_ids())), w)
        if sender not in self.active_raws():
            c["sender_disconnected"] += 1
        for r in act_before:
            if r is not sender and r not in self.active_raws():
                mon.v("other-peer-disconnected-by-delivery", "class %s: a peer other than the sender lost its connection" % cls, w)

    def bulk_run_then_rejected(self, n):
        """n valid blocks arrive as bulk-download replies (taken, by design, without in-state validation and kept in the
        store's write buffer), then a rule-breaking block is RELAYED on top of them: it must be refused, leave no row in the
        store, and the node falls back to what it had validated"""
        mon, c, world, node, rng = self.mon, self.mon.c, self.world, self.node, self.rng
        cm = node.lp.chain_manager
        before_cs = cm.coinstate
        rows_before = self.rows()
        tmp = world.fork()
        head = before_cs.current_chain_hash
        if head not in tmp.chain.blocks:
            return
        blocks = []
        try:
            for _ in range(n):
                parent = tmp.chain.blocks[head]
                rb, real = tmp.assemble(head, [], parent.ts + 1, rng.choice(tmp.keys)[1], route="ref")
                if tmp.accept(rb, real, validate=False) is None:
                    return
                blocks.append((rb, real))
                head = rb.id()
            built = cstream.v_reward_plus_one(tmp, head, rng)
        except Exception:
            return
        if not blocks or built is None:
            return
        bad = built[0]
        self.net.clock.t = world.now = max(world.now, bad.ts + 10)
        act = self.active_raws() or [self.add_peer()]
        sender = rng.choice(act)
        self.in_ibd_delivery = True
        try:
            for k, (rb, real) in enumerate(blocks):
                sender.push(self.wire.block(real, in_response_to=4000 + k))
                if k % 20 == 19:
                    self.net.settle(node)
            self.net.settle(node)
        finally:
            self.in_ibd_delivery = False
        c["bulk_runs"] = c.get("bulk_runs", 0) + 1
        c["bulk_blocks_delivered"] = c.get("bulk_blocks_delivered", 0) + len(blocks)
        c["bulk_run_lengths"] = sorted(set(c.get("bulk_run_lengths", [])) | {n})
        held = sum(1 for rb, _r in blocks if rb.id() in cm.coinstate.block_by_hash)
        w = {"kind": "bulk-run", "chain": gen.blocks_hex(world, world.chain.order[1:]), "bulk": [rb.enc().hex() for rb, _r in blocks],
             "rejected": bad.enc().hex()}
        rng.choice(self.active_raws() or [self.add_peer()]).push(self.wire.block(bridge.rblock_to_real(bad)))
        self.net.settle(node)
        rows_after = self.rows()
        c["deliveries"] += 1
        c["rejected"] += 1
        self.had_rejection = True
        if bad.id() in cm.coinstate.block_by_hash:
            mon.v("rejected-block-in-chain-state:reward", "a reward-too-high block relayed on top of %d bulk-download blocks is part of "
                  "the chain state" % n, w)
        if rows_after.get(bad.id(), 0):
            mon.v("rejected-block-in-store", "class reward-plus-one after a bulk run of %d blocks (%d held): the rejected block has a "
                  "row in the chain table" % (n, held), w)
        if any(b.hash() == bad.id() for b in self.store.write_buffer):
            mon.v("rejected-block-left-in-write-buffer", "class reward-plus-one after a bulk run of %d blocks" % n, w)
        if node.escaped:
            mon.v("exception-escaped-event-handler", node.escaped[0][:300], w)
            node.escaped.clear()
        # whatever of the bulk blocks the node kept, the harness world does not know them: bring the node back to the
        # state both agree on
        if cm.coinstate is not before_cs and gen.fingerprint(cm.coinstate) != gen.fingerprint(before_cs):
            c["bulk_blocks_kept_after_rejection"] = c.get("bulk_blocks_kept_after_rejection", 0) + 1
            self.store.write_buffer.clear()
            cm.set_coinstate(before_cs)
        if set(rows_after) - set(rows_before):
            c["bulk_blocks_written_before_validation"] = c.get("bulk_blocks_written_before_validation", 0) + len(set(rows_after) - set(rows_before))
            self.diverged = True        # the store now holds blocks the harness world does not: end this history

    # ---------------------------------------------------------------------------------------------------------------
    # stories on the DOWNLOAD route: what the node had asked for, what was announced, what arrived unrequested in between
    # ---------------------------------------------------------------------------------------------------------------
    def peer_obj(self, raw):
        for p in self.node.lp.network_manager.connected_peers.values():
            if p.sock is raw.peer:
                return p
        return None

    def back_to(self, before_cs, rows_before):
        """the node back in the state both sides agree on; the per-peer download flags are cleared (the stories are meant
        to be independent of each other)"""
        cm = self.node.lp.chain_manager
        if cm.coinstate is not before_cs and gen.fingerprint(cm.coinstate) != gen.fingerprint(before_cs):
            self.store.write_buffer.clear()
            cm.set_coinstate(before_cs)
        for p in self.node.lp.network_manager.connected_peers.values():
            p.waiting_for_inventory = False
            p.inventory_messages = []
        cm.actively_fetching_blocks_from_peers = []
        for r in self.peers:
            r.take_received()
        if set(self.rows()) - set(rows_before):
            self.diverged = True

    def open_round(self):
        """the node's timers fire until it has asked one of its peers for blocks; returns (harness end of that peer, id of the
        node's request) or None"""
        node, net = self.node, self.net
        for r in self.peers:
            r.take_received()
        head = self.world.chain.blocks.get(node.lp.chain_manager.coinstate.current_chain_hash)
        for _try in range(6):
            net.clock.t = self.world.now = max(self.world.now, (head.ts if head else 0) + 400) + 61
            net.do_step(node)
            net.settle(node)
            for r in self.active_raws():
                msgs, _rest = simnet.Wire.parse(r.take_received())
                gb = [m for m in msgs if m["msg"]["type"] == "get_blocks"]
                po = self.peer_obj(r)
                if gb and po is not None and po.waiting_for_inventory:
                    return r, gb[-1]["header"]["id"]
        return None

    def download_route_story(self, classes):
        mon, c, world, node, rng = self.mon, self.mon.c, self.world, self.node, self.rng
        cm = node.lp.chain_manager
        before_cs = cm.coinstate
        rows_before = self.rows()
        head = before_cs.current_chain_hash
        if head not in world.chain.blocks or len(self.active_raws()) < 2:
            return
        kinds = ["child-before-parent-answer", "unrequested-while-round-open", "announced-then-unrequested",
                 "late-answer-after-child", "answers-lower-block-refusal", "same-header-other-body",
                 "altered-copy-while-holding-answers", "answers-refusal-same-answers-again"]
        # (in turn, from a random start: every kind of story occurs in every lane that runs eight or more of them)
        if "story_turn" not in c:
            c["story_turn"] = rng.randrange(len(kinds))
        c["story_turn"] += 1
        story = kinds[c["story_turn"] % len(kinds)]
        c["download_route_stories"] = c.get("download_route_stories", 0) + 1
        c["story:" + story] = c.get("story:" + story, 0) + 1
        ms = self.wire.ms
        names = sorted(n for n in classes if not n.startswith("valid") and n not in VALID)
        w = {"kind": "download-route-story", "story": story, "chain": gen.blocks_hex(world, world.chain.order[1:])}

        def bad_on(tmp, pid):
            for _t in range(6):
                cls = rng.choice(names)
                try:
                    built = classes[cls](tmp, pid, rng)
                except Exception:
                    built = None
                if not built:
                    continue
                rb = built[0]
                codes = ref.block_codes(tmp.chain, rb, max(world.now, rb.ts))
                if codes and "parent-unknown" not in codes and "future" not in codes:
                    return rb, cls, codes
            return None

        def valid_on(tmp, pid, dt=1):
            parent = tmp.chain.blocks[pid]
            rb, real = tmp.assemble(pid, [], parent.ts + dt, rng.choice(tmp.keys)[1], route="ref")
            if tmp.accept(rb, real, validate=False) is None:
                raise RuntimeError("generator")
            return rb, real

        def refused(rb, cls, codes, how):
            if rb.id() in cm.coinstate.block_by_hash:
                mon.v("rejected-block-in-chain-state:" + "+".join(sorted(codes)), "class %s: a block that breaks %s is part of the node's "
                      "chain state (%s)" % (cls, sorted(codes), how), dict(w, block=rb.enc().hex()))
                return False
            return True
        try:
            tmp = world.fork()
            if story == "child-before-parent-answer":
                p_rb, p_real = valid_on(tmp, head)
                got = bad_on(tmp, p_rb.id())
                if not got:
                    return
                c_rb, cls, codes = got
                self.net.clock.t = world.now = max(world.now, c_rb.ts + 10)
                a, b = rng.sample(self.active_raws(), 2)
                a.push(self.wire.block(bridge.rblock_to_real(c_rb)))
                self.net.settle(node)
                b.push(self.wire.block(p_real, in_response_to=rng.choice([7, 4001])))
                self.net.settle(node)
                refused(c_rb, cls, codes, "relayed before its parent; the parent then arrived as an answer to a request")
            elif story in ("unrequested-while-round-open", "announced-then-unrequested"):
                got = bad_on(tmp, head)
                opened = self.open_round() if got else None
                if not opened:
                    return
                rb, cls, codes = got
                raw, req_id = opened
                self.net.clock.t = world.now = max(world.now, rb.ts + 10)
                if story == "announced-then-unrequested":
                    raw.push(self.wire.frame(ms.InventoryMessage([ms.InventoryItem(ms.DATA_BLOCK, rb.id())]), in_response_to=req_id))
                    self.net.settle(node)
                    raw.take_received()
                raw.push(self.wire.block(bridge.rblock_to_real(rb)))         # (in_response_to = 0: not an answer)
                self.net.settle(node)
                refused(rb, cls, codes, "relayed unrequested by the peer the node had asked for blocks"
                        + (", after announcing it" if story == "announced-then-unrequested" else " (request still unanswered)"))
            elif story == "late-answer-after-child":
                x_rb, x_real = valid_on(tmp, head)
                y_rb, y_real = valid_on(tmp, x_rb.id())
                opened = self.open_round()
                if not opened:
                    return
                raw, req_id = opened
                self.net.clock.t = world.now = max(world.now, y_rb.ts + 10)
                raw.push(self.wire.frame(ms.InventoryMessage([ms.InventoryItem(ms.DATA_BLOCK, x_rb.id())]), in_response_to=req_id))
                self.net.settle(node)
                msgs, _rest = simnet.Wire.parse(raw.take_received())
                gd = [m for m in msgs if m["msg"]["type"] == "get_data"]
                others = [r for r in self.active_raws() if r is not raw]
                if not gd or not others:
                    return
                q = rng.choice(others)
                q.push(self.wire.block(x_real))
                self.net.settle(node)
                q.push(self.wire.block(y_real))
                self.net.settle(node)
                fp = gen.fingerprint(cm.coinstate)
                raw.push(self.wire.block(x_real, in_response_to=gd[-1]["header"]["id"]))      # the late answer
                self.net.settle(node)
                cs2 = cm.coinstate
                childless = set(cs2.block_by_hash.keys()) - {b.previous_block_hash for b in cs2.block_by_hash.values()}
                if set(cs2.heads.keys()) != childless or gen.fingerprint(cs2) != fp:
                    mon.v("duplicate-delivery-changed-state", "a block the node had asked one peer for arrived from another peer together with "
                          "its child; the first peer's late answer then changed the chain state (tips reported: %d, stored blocks without "
                          "children: %d)" % (len(cs2.heads), len(childless)), w)
                # (X and Y are valid and the node has validated them: both sides adopt them)
                if x_rb.id() in cs2.block_by_hash and y_rb.id() in cs2.block_by_hash:
                    for rb_, real_ in ((x_rb, x_real), (y_rb, y_real)):
                        world.cs = world.cs.add_block_no_validation(real_)
                        world.accept(rb_, real_, cs=world.cs)
                    before_cs = cm.coinstate
                    rows_before = self.rows()
            elif story == "answers-lower-block-refusal":
                us = []
                pid = head
                for _k in range(rng.choice([2, 4])):
                    u = valid_on(tmp, pid)
                    us.append(u)
                    pid = u[0].id()
                b2 = valid_on(tmp, head, dt=2)
                got = bad_on(tmp, pid)
                u5 = valid_on(tmp, pid, dt=3)
                if not got:
                    return
                bad, cls, codes = got
                self.net.clock.t = world.now = max(world.now, bad.ts + 10, u5[0].ts + 10)
                a, b = rng.sample(self.active_raws(), 2)
                for k, (rb_, real_) in enumerate(us):
                    a.push(self.wire.block(real_, in_response_to=4100 + k))
                self.net.settle(node)
                b.push(self.wire.block(b2[1]))
                self.net.settle(node)
                b.push(self.wire.block(bridge.rblock_to_real(bad)))
                self.net.settle(node)
                refused(bad, cls, codes, "relayed on top of blocks taken as download answers")
                a.push(self.wire.block(u5[1]))
                self.net.settle(node)
                rows = self.rows()
                held = [x for x in us + [b2, u5] if x[0].id() in cm.coinstate.block_by_hash]
                missing = [x[0].height for x in held if rows.get(x[0].id(), 0) != 1]
                if u5[0].id() in cm.coinstate.block_by_hash and missing:
                    mon.v("accepted-block-not-stored-after-rejection", "download answers, then a lower relayed block, a refused block and a "
                          "valid relayed block: blocks at heights %s are part of the chain state but have no row in the store (write buffer "
                          "holds %d)" % (missing, len(self.store.write_buffer)), w)
                if u5[0].id() in cm.coinstate.block_by_hash and not missing and len(held) == len(us) + 2:
                    for rb_, real_ in us + [b2, u5]:
                        world.cs = world.cs.add_block_no_validation(real_)
                        world.accept(rb_, real_, cs=world.cs)
                    before_cs = cm.coinstate
                    rows_before = self.rows()
            elif story == "answers-refusal-same-answers-again":
                us, pid = [], head
                for _k in range(rng.choice([1, 2, 3])):
                    u = valid_on(tmp, pid)
                    us.append(u)
                    pid = u[0].id()
                got = bad_on(tmp, pid)
                u4 = valid_on(tmp, pid, dt=3)
                if not got:
                    return
                bad, cls, codes = got
                self.net.clock.t = world.now = max(world.now, bad.ts + 10, u4[0].ts + 10)
                a, b = rng.sample(self.active_raws(), 2)
                for k, (rb_, real_) in enumerate(us):
                    a.push(self.wire.block(real_, in_response_to=4300 + k))
                self.net.settle(node)
                b.push(self.wire.block(bridge.rblock_to_real(bad)))
                self.net.settle(node)
                refused(bad, cls, codes, "relayed on top of blocks taken as download answers")
                # the node asks again and gets the same answers (from the same peer, reconnected, or from another one)
                # (the peer that sent the refused block may have been dropped for it: whoever is connected goes on)
                alive = self.active_raws() or [self.add_peer()]
                again = rng.choice(alive)
                for k, (rb_, real_) in enumerate(us):
                    again.push(self.wire.block(real_, in_response_to=4400 + k))
                self.net.settle(node)
                alive = self.active_raws() or [self.add_peer()]
                b = rng.choice(alive)
                act_before = set(id(r) for r in self.active_raws())
                b.push(self.wire.block(u4[1]))
                self.net.settle(node)
                rows = self.rows()
                if u4[0].id() not in cm.coinstate.block_by_hash:
                    mon.v("valid-block-after-rejection-not-accepted", "download answers, a refused relayed block (class %s: %s), the same "
                          "answers again (%d of %d held afterwards), then a valid relayed block on top: it is not part of the chain state" % (
                              cls, sorted(codes), sum(1 for x in us if x[0].id() in cm.coinstate.block_by_hash), len(us)), w)
                else:
                    missing = [x[0].height for x in us + [u4] if rows.get(x[0].id(), 0) != 1]
                    if missing:
                        mon.v("accepted-block-not-stored-after-rejection", "download answers, a refused relayed block, the same answers again, "
                              "then a valid relayed block: blocks at heights %s are part of the chain state but have no row in the store "
                              "(write buffer holds %d)" % (missing, len(self.store.write_buffer)), w)
                    elif all(x[0].id() in cm.coinstate.block_by_hash for x in us):
                        for rb_, real_ in us + [u4]:
                            world.cs = world.cs.add_block_no_validation(real_)
                            world.accept(rb_, real_, cs=world.cs)
                        before_cs = cm.coinstate
                        rows_before = self.rows()
                if id(b) in act_before and b not in self.active_raws():
                    mon.v("honest-sender-disconnected", "the peer that relayed a valid block was disconnected", w)
            elif story == "altered-copy-while-holding-answers":
                us, pid = [], head
                for _k in range(rng.choice([1, 3])):
                    u = valid_on(tmp, pid)
                    us.append(u)
                    pid = u[0].id()
                v_rb, v_real = valid_on(tmp, pid)
                w_rb, w_real = valid_on(world.fork(), head, dt=5)
                raw_blk = v_real.serialize()
                hl = len(v_rb.header_enc())
                altered = None
                bits = list(range((hl - 96) * 8, hl * 8))
                rng.shuffle(bits)
                for bit in bits:          # one bit of the proof-of-work evidence altered, the id still below the target
                    m = bytearray(raw_blk)
                    m[bit // 8] ^= 0x80 >> (bit % 8)
                    if ref.sha256d(bytes(m[:hl])) < v_rb.target:
                        altered = bytes(m)
                        break
                if altered is None:
                    return
                alt_id = ref.sha256d(altered[:hl])
                self.net.clock.t = world.now = max(world.now, v_rb.ts + 10, w_rb.ts + 10)
                a, b = rng.sample(self.active_raws(), 2)
                for k, (rb_, real_) in enumerate(us):
                    a.push(self.wire.block(real_, in_response_to=4200 + k))
                self.net.settle(node)
                fr = self.wire.block(v_real)
                b.push(fr[:len(fr) - len(raw_blk)] + altered)
                self.net.settle(node)
                if alt_id in cm.coinstate.block_by_hash:
                    mon.v("rejected-block-in-chain-state:evidence", "an altered copy (one evidence bit) of a valid block, relayed while the "
                          "node holds download answers it has not validated, is part of the chain state", w)
                b.push(self.wire.block(w_real))
                self.net.settle(node)
                if self.rows().get(alt_id, 0) or any(x.hash() == alt_id for x in self.store.write_buffer):
                    mon.v("rejected-block-in-store", "an altered copy (one evidence bit) of a valid block was refused while the node held "
                          "unvalidated download answers; after the next valid block it has a row in the chain table / sits in the write "
                          "buffer", w)
                    self.diverged = True
                elif w_rb.id() in cm.coinstate.block_by_hash and cm.coinstate.current_chain_hash == w_rb.id():
                    world.cs = world.cs.add_block_no_validation(w_real)
                    world.accept(w_rb, w_real, cs=world.cs)
                    before_cs = cm.coinstate
                    rows_before = self.rows()
            else:
                h_rb, h_real = valid_on(tmp, head)
                bad_built = cstream.v_reward_plus_one(tmp, h_rb.id(), rng)
                if not bad_built:
                    return
                bad = bad_built[0]
                self.net.clock.t = world.now = max(world.now, bad.ts + 10)
                a, b = rng.sample(self.active_raws(), 2)
                a.push(self.wire.block(h_real, in_response_to=9))
                self.net.settle(node)
                b.push(self.wire.block(bridge.rblock_to_real(bad)))
                self.net.settle(node)
                fr = bytearray(self.wire.block(h_real, in_response_to=9))
                fr[-rng.randint(1, 60)] ^= 1 << rng.randrange(8)          # the same header over another body
                a.push(bytes(fr))
                self.net.settle(node)
                heldb = cm.coinstate.block_by_hash.get(h_rb.id())
                if heldb is not None:
                    try:
                        same = heldb.serialize() == h_real.serialize()
                    except Exception:
                        same = False
                    if not same:
                        mon.v("rejected-block-in-chain-state:merkle", "a block delivered, dropped by a fall-back and delivered again with its "
                              "header over ANOTHER body (both times as a download answer) is held by the node with that other body", w)
            if node.escaped:
                mon.v("exception-escaped-event-handler", node.escaped[0][:300], w)
                node.escaped.clear()
        except Exception:
            c["class_material_missing"] += 1
        finally:
            self.back_to(before_cs, rows_before)

    def run(self, ndeliv, classes, story_share=None):
        rng, world, c = self.rng, self.world, self.mon.c
        names = sorted(classes)
        valid_names = sorted(VALID)
        for k in range(ndeliv):
            r = rng.random()
            if r < 0.12 and len(world.chain.order) > 1:
                bid = rng.choice(world.chain.order[1:])
                self.deliver(world.chain.blocks[bid], "duplicate", None, None)
                continue
            if r > 0.9 and self.rejected_blocks:
                # a block that was refused before is delivered again: must be refused again, with no trace
                rb, cls0 = rng.choice(self.rejected_blocks[-30:])
                c["redelivered_rejected"] = c.get("redelivered_rejected", 0) + 1
                self.deliver(rb, cls0 + "@re-delivered", None, None)
                if getattr(self, "diverged", False):
                    break
                continue
            if 0.53 <= r < 0.60 or (story_share is not None and rng.random() < story_share):
                self.download_route_story(classes)
                if getattr(self, "diverged", False):
                    break
                continue
            if 0.50 <= r < 0.53:
                self.bulk_run_then_rejected(rng.choice([1, 3, 9, 15, 31, 49, 63, 99, 99, 127, 199, 255]))
                if getattr(self, "diverged", False):
                    break
                continue
            if 0.45 <= r < 0.50:
                # a valid child arrives BEFORE its (valid) parent: ignored as an orphan; then the parent; then the child again
                # (from the same or another peer) -- which now has to be taken like any other valid block
                try:
                    pid0 = world.cs.current_chain_hash if rng.random() < 0.6 else rng.choice(sorted(world.cs.heads.keys()))
                    tmp = world.fork()
                    p_rb, p_real = tmp.assemble(pid0, [], tmp.chain.blocks[pid0].ts + rng.choice([1, 60]), rng.choice(tmp.keys)[1], route="ref")
                    if tmp.accept(p_rb, p_real) is None:
                        raise RuntimeError("no parent")
                    c_rb, _c_real = tmp.assemble(p_rb.id(), [], p_rb.ts + rng.choice([1, 60]), rng.choice(tmp.keys)[1], route="ref")
                except Exception:
                    c["class_material_missing"] += 1
                    continue
                if c_rb.ts > world.now + 30:
                    self.net.clock.t = world.now = c_rb.ts + 10
                c["children_before_parents"] = c.get("children_before_parents", 0) + 1
                self.deliver(c_rb, "valid-child-before-its-parent", None, None)
                self.deliver(p_rb, "valid-parent-after-its-child", set(), set())
                if not getattr(self, "diverged", False) and p_rb.id() in world.chain.blocks:
                    for _rep in range(rng.choice([1, 1, 2])):
                        self.deliver(c_rb, "valid-child-again-after-its-parent", None, None)
                if getattr(self, "diverged", False):
                    break
                continue
            cls = rng.choice(valid_names) if r < 0.45 else rng.choice(names)
            cs = world.cs
            tips = sorted(cs.heads.keys())
            pr = rng.random()
            pid = cs.current_chain_hash if pr < 0.5 else (rng.choice(tips) if pr < 0.8 else rng.choice(world.chain.order))
            if r < 0.45 and pr >= 0.3:
                # let a competing fork catch up and overtake: extend the best losing tip (or fork off below the head)
                hh = world.chain.blocks[cs.current_chain_hash].height
                losing = [t for t in tips if t != cs.current_chain_hash and world.chain.blocks[t].height >= hh - 1]
                if losing:
                    pid = max(losing, key=lambda t: world.chain.blocks[t].height)
                elif hh >= 2 and pr > 0.85:
                    pid = world.chain.blocks[cs.current_chain_hash].prev
            try:
                built = classes[cls](world, pid, rng)
            except Exception:
                built = None
            if built is None:
                c["class_material_missing"] += 1
                continue
            rblk, must, may = built
            # keep block timestamps within the node's clock
            if rblk.ts > world.now + 30 and "future" not in must:
                self.net.clock.t = world.now = rblk.ts + 10
            self.deliver(rblk, cls, must, may)
            if getattr(self, "diverged", False):
                break
            if len(self.active_raws()) < 3:
                self.add_peer()
        self.ro.close()
        self.store.close()
        os.remove(self.path)


STORY_KINDS = ["child-before-parent-answer", "unrequested-while-round-open", "announced-then-unrequested", "late-answer-after-child",
               "answers-lower-block-refusal", "same-header-other-body", "altered-copy-while-holding-answers",
               "answers-refusal-same-answers-again"]


def route_histories(rng, nhist, ndeliv, classes, tag, story_share=0.6):
    """for the checks of other properties: histories of a real node (relay and download route, with the real store) in which
    most events are download-route stories built from THEIR classes of rule-breaking blocks; returns the monitor"""
    mon = Monitor()
    cl = dict(VALID)
    cl.update(classes)
    for j in range(nhist):
        h = History(mon, rng, "%s-%d" % (tag, j))
        h.run(ndeliv, cl, story_share=story_share)
    # (every kind at least twice: a lane that came short runs further histories)
    extra = 0
    while min([mon.c.get("story:" + k, 0) for k in STORY_KINDS]) < 2 and extra < 6:
        extra += 1
        h = History(mon, rng, "%s-x%d" % (tag, extra))
        h.run(ndeliv, cl, story_share=0.9)
    return mon


SMALL = ["valid-on-head", "valid-sibling-of-head", "valid-on-best-losing-tip", "invalid-in-state", "cannot-be-applied",
         "duplicate-known", "re-deliver-rejected", "orphan"]


def small_scope(mon, rng, length, shard, nshard):
    """EVERY sequence of `length` deliveries from SMALL on a small base chain (exhaustive small scope)"""
    import itertools
    base = gen.World(rng)
    base.grow(4, rng, tx_prob=0.8, bias="linear")
    idx = 0
    for seq in itertools.product(range(len(SMALL)), repeat=length):
        idx += 1
        if idx % nshard != shard:
            continue
        h = History(mon, rng, "ss", world=base.fork(), npool=1)
        world = h.world
        mon.c["small_scope_sequences"] = mon.c.get("small_scope_sequences", 0) + 1
        for e in seq:
            name = SMALL[e]
            cs = world.cs
            head = cs.current_chain_hash
            try:
                if name == "valid-on-head":
                    built = cstream.c_valid_spend(world, head, rng) or c05.h_valid_ref_assembly(world, head, rng)
                elif name == "valid-sibling-of-head":
                    built = c05.h_valid_ref_assembly(world, world.chain.blocks[head].prev, rng)
                elif name == "valid-on-best-losing-tip":
                    losing = [t for t in cs.heads.keys() if t != head]
                    pid = max(losing, key=lambda t: world.chain.blocks[t].height) if losing else world.chain.blocks[head].prev
                    built = c05.h_valid_ref_assembly(world, pid, rng)
                elif name == "invalid-in-state":
                    built = cstream.v_reward_plus_one(world, head, rng)
                elif name == "cannot-be-applied":
                    built = cstream.c_missing_never_existed(world, head, rng)
                elif name == "duplicate-known":
                    bid = rng.choice(world.chain.order[1:])
                    h.deliver(world.chain.blocks[bid], "duplicate", None, None)
                    continue
                elif name == "re-deliver-rejected":
                    if not h.rejected_blocks:
                        continue
                    rb, cls0 = h.rejected_blocks[-1]
                    h.deliver(rb, cls0 + "@re-delivered", None, None)
                    continue
                else:
                    built = c05.h_unknown_parent(world, head, rng)
            except Exception:
                built = None
            if built is None:
                continue
            rblk, must, may = built
            if rblk.ts > world.now + 30:
                h.net.clock.t = world.now = rblk.ts + 10
            h.deliver(rblk, "small:" + name, must, may)
            if getattr(h, "diverged", False):
                break
            if len(h.active_raws()) < 3:
                h.add_peer()
        h.ro.close()
        h.store.close()
        os.remove(h.path)


def run_shard(spec):
    env.boot()
    mon = Monitor()
    classes = all_classes()
    if "replay" in spec:
        replay(mon, spec["replay"], classes)
    else:
        rng = random.Random("c09/%d/%d" % (spec["seed"], spec["shard"]))
        quick = spec["tier"] == "quick"
        for j in range(5 if quick else 150):
            h = History(mon, rng, j)
            mon.c["histories"] += 1
            h.run(rng.choice([30, 50, 80]) if quick else rng.choice([30, 80, 200]), classes)
            if len(mon.samples) < 1:
                mon.samples.append({"deliveries": [d["class"] for d in h.log][:40]})
        small_scope(mon, rng, 3 if quick else 5, spec["shard"], NSHARD)
    return {"evaluations": mon.c["deliveries"], "digests": sorted(mon.digests), "violations": mon.viol, "counters": mon.c,
            "samples": mon.samples}


def replay(mon, w, classes):
    rng = random.Random(0)
    h = History.__new__(History)
    # rebuild the node on the recorded chain, then replay the recorded deliveries
    from skepticoin.networking.disk_interface import DiskInterface
    from skepticoin.blockstore import BlockStore
    import skepticoin.blockstore as bs
    h.mon, h.rng = mon, rng
    h.world = world = gen.World(rng)
    for hx in w["chain"]:
        rb = ref.parse_block(bytes.fromhex(hx))
        world.accept(rb, bridge.rblock_to_real(rb), validate=False)
    delivered = [ref.dec_block(bytes.fromhex(d["block"]), strict=False)[0] for d in w["deliveries"]]
    # the recorded chain includes blocks accepted during the history: start from those not delivered
    deliv_ids = {b.id() for b in delivered}
    world2 = gen.World(rng)
    for bid in world.chain.order[1:]:
        if bid not in deliv_ids:
            world2.accept(world.chain.blocks[bid], world.real[bid], validate=False)
    h.world = world = world2
    h.path = os.path.join(os.getcwd(), "replay.db")
    h.store = quiet(BlockStore, h.path)
    bs.DefaultBlockStore.instance = h.store
    try:
        h.store.write_blocks_to_disk([world.real[b] for b in world.chain.order[1:]])
    except Exception:
        pass

    class Disk(DiskInterface):
        def save_transaction_for_debugging(self, transaction):
            pass
    h.net = simnet.Net(rng)
    world.now = h.net.clock.t = w["now"]
    h.node = h.net.add_node("N", ("10.0.0.1", 2412), world.cs, Disk())
    h.wire = simnet.Wire(h.net.clock)
    h.peers = []
    for i in range(3):
        h.add_peer()
    h.ro = sqlite3.connect("file:%s?mode=ro" % h.path, uri=True)
    h.install_validation_window_hook()
    h.relayed, h.had_rejection, h.log = {}, False, []
    h.rejected_blocks = []
    for d, rb in zip(w["deliveries"], delivered):
        h.deliver(rb, d["class"], None, None)
        if len(h.active_raws()) < 3:
            h.add_peer()


def finalize(m, tier):
    c = m["counters"]
    floors = [("deliveries", c.get("deliveries", 0), 1500), ("accepted", c.get("accepted", 0), 400),
              ("rejected", c.get("rejected", 0), 400), ("duplicates", c.get("duplicates", 0), 100),
              ("orphans", c.get("orphans", 0), 10), ("children_before_parents", c.get("children_before_parents", 0), 30),
              ("bulk_runs", c.get("bulk_runs", 0), 20), ("new_heads", c.get("new_heads", 0), 200),
              ("accepted_non_head", c.get("accepted_non_head", 0), 50), ("reorg_new_heads", c.get("reorg_new_heads", 0), 10),
              ("apply_error_deliveries", c.get("apply_error_deliveries", 0), 60),
              ("valid_after_rejection_stored", c.get("valid_after_rejection_stored", 0), 200),
              ("relays_observed", c.get("relays_observed", 0), 500),
              ("validation_window_observations", c.get("validation_window_observations", 0), 500)]
    total = c.get("accepted", 0) + c.get("rejected", 0) + c.get("duplicates", 0)
    if total != c.get("deliveries", 0):
        m["inconclusive"].append("conservation of deliveries broken in the harness: %d != %d" % (total, c.get("deliveries", 0)))
    return {
        "rule": "histories of 30-200 unsolicited block deliveries to one node with the real store attached and 3 greeted "
                "peers: valid blocks on any fork (both assembly routes), duplicates, orphans, every by-itself defect and "
                "every in-state defect of the C01/C02/C05 class libraries incl. apply-error blocks, with pending "
                "transactions pooled; earlier rejected blocks delivered again; every sequence of 3/5 deliveries from an 8-event "
                "alphabet on a small chain (exhaustive small scope); the served state is sampled inside the validation window; "
                "distinct = distinct (block bytes, already-known flag) by digest",
        "floors": floors, "extra": {},
    }
