"""C17 - merkle commitment binds the ordered id list; proofs verify.

Oracle: roots of structurally edited lists must differ from the base list's root unless the lists are
identical; both real root implementations must agree with each other and with the reference fold; a
proof must fold (with the harness's own fold) to the root and lead, along the path the position
prescribes in the pairing tree, to the entry at that position."""
import hashlib
import itertools
import random

from skv import env, ref
from skv.runner import digest

PROPERTY = "C17"
LEVEL = "exploration"


def shards(tier, seed):
    out = []
    nsh = 16
    for i in range(nsh):
        out.append({"shard": i, "nshard": nsh, "tier": tier, "seed": seed})
    return out


def fresh(rng):
    return rng.getrandbits(256).to_bytes(32, "big")


def shape(n):
    """pairing tree over positions 0..n-1 (odd element promoted): nested (lo, left, right) / ('leaf', i)"""
    level = [("leaf", i) for i in range(n)]
    while len(level) > 1:
        nxt = []
        for k in range(0, len(level), 2):
            if k + 1 < len(level):
                nxt.append(("node", level[k], level[k + 1]))
            else:
                nxt.append(level[k])
        level = nxt
    return level[0]


def first_index(s):
    while s[0] == "node":
        s = s[1]
    return s[1]


def fold(node, counter):
    """the harness's own fold over a real proof/tree object (uses only .children and .value)"""
    counter[0] += 1
    if not node.children:
        return node.value
    return ref.sha256d(b"".join(fold(c, counter) for c in node.children))


def edits(L, rng):
    """yields (name, edited list)"""
    n = len(L)
    for i in range(n):
        yield "substitute@%d" % i, L[:i] + [fresh(rng)] + L[i + 1:]
    for i, j in itertools.combinations(range(n), 2):
        M = list(L)
        M[i], M[j] = M[j], M[i]
        yield "swap@%d,%d" % (i, j), M
    if n > 1:
        for i in range(n):
            yield "remove@%d" % i, L[:i] + L[i + 1:]
    yield "append-fresh", L + [fresh(rng)]
    for i in range(n):
        yield "duplicate-in-place@%d" % i, L[:i + 1] + [L[i]] + L[i + 1:]
        yield "duplicate-to-end@%d" % i, L + [L[i]]
    yield "duplicate-last", L + [L[-1]]
    yield "duplicate-last-twice", L + [L[-1], L[-1]]
    if n > 1:
        yield "duplicate-last-pair", L + L[-2:]
        yield "rotate", L[1:] + L[:1]
        yield "reverse", L[::-1]
    yield "prepend-fresh", [fresh(rng)] + L


def run_shard(spec):
    env.boot(fake_scrypt=False, horizon_off=False)
    from skepticoin import merkletree as mt
    if "replay" in spec:
        w = spec["replay"]
        L = [bytes.fromhex(x) for x in w["list"]]
        st = State(mt)
        if w.get("lane") == "checkpoint-header":
            checkpoint_header_lane(st, random.Random(1), 20)
            return st.result()
        if w.get("lane") == "miner-route":
            miner_route_lane(st, random.Random(1), 8)
            return st.result()
        if w.get("lane") == "two-threads":
            two_thread_lane(st, random.Random(1), 12)
            return st.result()
        if w.get("lane") == "node":         # the route through the store is re-run (the witness lists are for the reader)
            node_lane(st, random.Random(1), 25)
            return st.result()
        if "edited" in w:
            st.check_pair(L, [bytes.fromhex(x) for x in w["edited"]], w.get("edit", "replay"))
        st.check_list(L)
        return st.result()
    rng = random.Random("c17/%d/%d" % (spec["seed"], spec["shard"]))
    st = State(mt)
    tier = spec["tier"]
    # exhaustive structural edits for lengths 1..10 (each shard uses its own fresh base lists)
    reps = 3 if tier == "quick" else 40
    for _ in range(reps):
        for n in range(1, 11):
            L = [fresh(rng) for _ in range(n)]
            if n >= 2 and rng.random() < 0.3:   # a base list that already repeats an entry
                L[rng.randrange(n)] = L[rng.randrange(n)]
            st.check_list(L)
            for name, M in edits(L, rng):
                st.check_pair(L, M, name)
    # random longer lists
    nlong = 30 if tier == "quick" else 600
    for _ in range(nlong):
        n = rng.choice([11, 12, 13, 15, 16, 17, 31, 32, 33, 63, 64, 65, 100, 127, 128, 129, 255, 256, 257,
                        rng.randrange(11, 2000)])
        L = [fresh(rng) for _ in range(n)]
        st.check_list(L, positions=sorted({0, 1, n - 1, n - 2, n // 2} | {rng.randrange(n) for _ in range(12)}))
        for _k in range(40):
            i, j = rng.randrange(n), rng.randrange(n)
            kind = rng.randrange(7)
            if kind == 0:
                M = L[:i] + [fresh(rng)] + L[i + 1:]; name = "substitute"
            elif kind == 1:
                M = list(L); M[i], M[j] = M[j], M[i]; name = "swap"
            elif kind == 2:
                M = L[:i] + L[i + 1:]; name = "remove"
            elif kind == 3:
                M = L + [fresh(rng)]; name = "append-fresh"
            elif kind == 4:
                M = L[:i + 1] + [L[i]] + L[i + 1:]; name = "duplicate-in-place"
            elif kind == 5:
                M = L + [L[-1]]; name = "duplicate-last"
            else:
                M = L + [L[i]]; name = "duplicate-to-end"
            st.check_pair(L, M, name + "@long")
    consensus_lane(st, rng, 150 if tier == "quick" else 4000)
    node_lane(st, rng, 25 if tier == "quick" else 400)
    checkpoint_header_lane(st, rng, 20 if tier == "quick" else 300)
    two_thread_lane(st, rng, 8 if tier == "quick" else 120)
    if spec["shard"] % 4 == 0:
        miner_route_lane(st, rng, 3 if tier == "quick" else 20)
    return st.result()


def two_thread_lane(st, rng, n):
    """the node computes commitments in two threads (networking validates received blocks while the miner builds summaries).
    Thread A computes the commitment (or tree and proof) of an EDITED list; at one statement boundary or function entry inside
    the commitment code -- every one of them in turn -- it is pre-empted and thread B computes commitment, tree and a proof of
    the BASE list from start to finish; then A goes on.  Both must get what they get alone (the reference fold's value)"""
    import sys
    import threading
    import types
    import skepticoin.hash as hm
    mt = st.mt
    mon = sys.monitoring
    tool = 3
    if mon.get_tool(tool) is not None:
        st.c_extra["two_thread_lane_tool_slot_taken"] = 1
        return
    codes = []
    for mod in (mt, hm):
        for obj in vars(mod).values():
            if isinstance(obj, types.FunctionType) and obj.__module__ == mod.__name__:
                codes.append(obj.__code__)
            elif isinstance(obj, type) and obj.__module__ == mod.__name__:
                for f in vars(obj).values():
                    if isinstance(f, types.FunctionType):
                        codes.append(f.__code__)
    ctl = {"a": None, "k": 0, "count": 0, "b": None, "inside": False, "b_out": None}

    def maybe_switch():
        if ctl["a"] != threading.get_ident() or ctl["inside"]:
            return
        ctl["count"] += 1
        if ctl["count"] == ctl["k"]:
            ctl["inside"] = True
            t = threading.Thread(target=ctl["b"])
            t.start()
            t.join()
            ctl["inside"] = False

    def on_line(code, line):
        maybe_switch()

    def on_start(code, offset):
        maybe_switch()
    mon.use_tool_id(tool, "skv-c17-switch")
    mon.register_callback(tool, mon.events.LINE, on_line)
    mon.register_callback(tool, mon.events.PY_START, on_start)
    for co in codes:
        mon.set_local_events(tool, co, mon.events.LINE | mon.events.PY_START)
    try:
        for case in range(n):
            ln = rng.choice([2, 3, 4, 5, 6, 7, 8, 9, 16, 17])
            L = [fresh(rng) for _ in range(ln)]
            all_edits = [(name, M) for name, M in edits(L, rng) if M != L]
            name, M = all_edits[case % len(all_edits)] if case % 3 else [e for e in all_edits if e[0] == "duplicate-last"][0]
            want_a, want_b = ref.merkle_root(M), ref.merkle_root(L)
            pos_a, pos_b = rng.randrange(len(M)), rng.randrange(len(L))
            what = case % 2         # 0: A computes the commitment; 1: A builds tree and proof

            def work_a(out):
                if what == 0:
                    out["root"] = mt.get_merkle_root(list(M))
                else:
                    tree = mt.get_merkle_tree(list(M))
                    out["root"] = tree.hash()
                    out["proof"] = mt.get_proof(tree, pos_a)

            def work_b():
                out = {}
                out["root"] = mt.get_merkle_root(list(L))
                tree = mt.get_merkle_tree(list(L))
                out["tree"] = tree.hash()
                out["proof"] = mt.get_proof(tree, pos_b)
                ctl["b_out"] = out

            def run_a(k):
                out = {}

                def body():
                    ctl["a"] = threading.get_ident()
                    try:
                        work_a(out)
                    except Exception as e:
                        out["raised"] = repr(e)
                    finally:
                        ctl["a"] = None
                ctl.update(k=k, count=0, b=work_b, b_out=None)
                t = threading.Thread(target=body)
                t.start()
                t.join()
                return out, ctl["count"], ctl["b_out"]
            _out, total, _b = run_a(0)
            st.c_extra["two_thread_cases"] = st.c_extra.get("two_thread_cases", 0) + 1
            points = list(range(1, total + 1))
            if len(points) > 120:
                points = sorted(rng.sample(points, 120))
            for k in points:
                out, _cnt, b = run_a(k)
                st.c_extra["two_thread_switch_points"] = st.c_extra.get("two_thread_switch_points", 0) + 1
                st.pairs += 1
                w = {"list": [x.hex() for x in L], "edited": [x.hex() for x in M], "edit": name, "lane": "two-threads",
                     "switch_at_event": k, "of_events": total, "thread_a_computes": ["commitment", "tree and proof"][what]}
                if b is None:
                    st.c_extra["two_thread_switch_not_taken"] = st.c_extra.get("two_thread_switch_not_taken", 0) + 1
                    continue
                if "raised" in out:
                    st.v("commitment-code-raises-when-two-threads-use-it", "thread A raised %s (another thread computed a "
                         "commitment in between)" % out["raised"][:120], w)
                    continue
                if out["root"] != want_a:
                    st.v("commitment-depends-on-another-threads-computation", "thread A, pre-empted at event %d of %d while another "
                         "thread computed the commitment of the base list, got %s for the edited list (%s)" % (
                             k, total, "the BASE list's commitment" if out["root"] == want_b else "a value that is not its "
                             "list's commitment", name), w)
                if b["root"] != want_b or b["tree"] != want_b:
                    st.v("commitment-depends-on-another-threads-computation", "thread B (running while A was held at event %d of %d) "
                         "got a value that is not its list's commitment" % (k, total), w)
                for who, o, lst, pos in (("A", out, M, pos_a), ("B", b, L, pos_b)):
                    if "proof" in o:
                        st.proofs += 1
                        pr = o["proof"]
                        node, sh = pr, shape(len(lst))
                        while sh[0] == "node" and len(node.children) == 2:
                            node, sh = (node.children[1], sh[2]) if pos >= first_index(sh[2]) else (node.children[0], sh[1])
                        if fold(pr, st.fold_nodes) != ref.merkle_root(lst) or node.children or node.value != lst[pos]:
                            st.v("proof-depends-on-another-threads-computation", "thread %s's proof for position %d does not "
                                 "contain the entry / reproduce the commitment when two threads compute at once" % (who, pos), w)
    finally:
        for co in codes:
            mon.set_local_events(tool, co, 0)
        mon.free_tool_id(tool)


def miner_route_lane(st, rng, nsetups):
    """the commitment on the route by which the node's own miner puts it into a header: C12's set-up (real MinerWatcher handlers,
    several miner processes, transactions entering the pool and the head moving between a request and its hit); every block the
    found-block handler builds with an id below its target must carry the commitment of ITS OWN transaction list"""
    from skv.props import c12
    mon = c12.Monitor()
    mon.other_miner_prob = 0.8        # (most hits come after another miner process has asked for work on a grown pool)
    env.boot()
    for j in range(nsetups):
        c12.run_setup(mon, rng, 7000 + j, 4)
    env.set_retarget(ref.RETARGET_PERIOD)
    st.c_extra["miner_route_found_blocks"] = st.c_extra.get("miner_route_found_blocks", 0) + mon.c.get("found_blocks", 0)
    for v in mon.viol:
        hx = v["witness"].get("candidate") if isinstance(v.get("witness"), dict) else None
        bad = "merkle" in v["key"] or v["key"] == "found-block-differs-from-the-candidate-handed-out"
        if hx and not bad:
            try:
                rb = ref.dec_block(bytes.fromhex(hx), strict=False)[0]
                bad = rb.merkle != ref.merkle_root([t.id() for t in rb.txs])
            except Exception:
                bad = False
        if bad:
            st.v("miner-route:header-commitment-is-not-that-of-the-block's-transactions", v["msg"], dict(v["witness"], lane="miner-route"))


def consensus_lane(st, rng, n):
    """the header commitment as the node computes and checks it: consensus.calc_merkle_root_hash(transactions) and the
    merkle check of validate_block_by_itself, called on pairs of transaction lists one after the other (same reward
    transaction, same length, other transactions substituted / reordered) -- the commitment is a function of the ordered
    id list alone, whatever was computed before"""
    import skepticoin.consensus as cons
    import skepticoin.datatypes as dt
    from skv import objgen
    g = objgen.Gen()
    for _ in range(n):
        k = rng.choice([2, 3, 4, 5, 8])
        cb = g.transaction(rng)
        txs = [cb] + [g.transaction(rng) for _i in range(k - 1)]
        ids = [t.hash() for t in txs]
        if len(set(ids)) != len(ids):
            continue
        r1 = cons.calc_merkle_root_hash(txs)
        st.c_extra["consensus_commitments"] = st.c_extra.get("consensus_commitments", 0) + 1
        if r1 != ref.merkle_root(ids):
            st.v("header-commitment-is-not-the-merkle-root-of-the-ids", "calc_merkle_root_hash differs from the fold of the ids (first call)",
                 {"list": [x.hex() for x in ids]})
        mode = rng.choice(["substitute", "swap", "rotate", "one-field", "one-field", "one-field"])
        ed = list(txs)
        if mode == "one-field":
            # the nearest neighbour of a list: ONE transaction (the reward transaction included) replaced by a copy that differs
            # in exactly one field -- the height or the data in a reward's input, an input's index, one bit of a referenced id, one
            # byte of a signature, an output's value or key -- and therefore has another id
            import skepticoin.signing as sg
            if rng.random() < 0.5:
                cbd = sg.CoinbaseData(rng.randrange(1, 1 << 20), objgen.rb(rng, rng.choice([0, 3, 20])))
                ed[0] = dt.Transaction([dt.Input(dt.OutputReference(b"\x00" * 32, 0), cbd)],
                                       [dt.Output(rng.randrange(1, 1 << 40), g.public_key(rng))])
                txs = list(ed)
                ids = [t.hash() for t in txs]
                r1 = cons.calc_merkle_root_hash(txs)
                pos = 0
            else:
                pos = rng.randrange(k)
            t = ed[pos]
            ins, outs = list(t.inputs), list(t.outputs)
            what = rng.choice(["height", "data", "index", "ref-bit", "signature", "value", "key"])
            if not ins:
                what = "value"
            i0 = ins[0] if ins else None
            if what in ("height", "data") and isinstance(i0.signature, sg.CoinbaseData):
                cd = i0.signature
                other = cd.signature + b"\x01" if len(cd.signature) < 200 else cd.signature[:-1] + bytes([cd.signature[-1] ^ 1])
                try:
                    ins[0] = dt.Input(i0.output_reference, sg.CoinbaseData(cd.height + 1 if cd.height < 0xFFFFFFFF else cd.height - 1,
                                                                           cd.signature) if what == "height"
                                      else sg.CoinbaseData(cd.height, other))
                except Exception:
                    continue
            elif what == "index":
                ins[0] = dt.Input(dt.OutputReference(i0.output_reference.hash, (i0.output_reference.index + 1) & 0xFFFFFFFF), i0.signature)
            elif what == "ref-bit":
                hb = bytearray(i0.output_reference.hash)
                hb[rng.randrange(32)] ^= 1 << rng.randrange(8)
                ins[0] = dt.Input(dt.OutputReference(bytes(hb), i0.output_reference.index), i0.signature)
            elif what == "signature" and isinstance(i0.signature, sg.SECP256k1Signature):
                sb = bytearray(i0.signature.signature)
                sb[rng.randrange(len(sb))] ^= 1
                ins[0] = dt.Input(i0.output_reference, sg.SECP256k1Signature(bytes(sb)))
            elif outs:
                o0 = outs[0]
                outs[0] = dt.Output(o0.value + 1, o0.public_key) if what != "key" else dt.Output(o0.value, g.public_key(rng))
            else:
                continue
            try:
                ed[pos] = dt.Transaction(ins, outs)
                ed[pos].serialize()
            except Exception:
                continue
            mode = "one-field:" + what
        elif mode == "substitute":
            ed[rng.randrange(1, k)] = g.transaction(rng)
        elif mode == "swap" and k >= 3:
            i, j = rng.sample(range(1, k), 2)
            ed[i], ed[j] = ed[j], ed[i]
        else:
            ed = [ed[0]] + ed[2:] + ed[1:2]
        ids2 = [t.hash() for t in ed]
        if ids2 == ids or len(set(ids2)) != len(ids2):
            continue
        r2 = cons.calc_merkle_root_hash(ed)
        st.pairs += 1
        st.by_edit["consensus-" + mode] = st.by_edit.get("consensus-" + mode, 0) + 1
        st.digests.add(digest(b"".join(ids), b"".join(ids2), "cons"))
        w = {"list": [x.hex() for x in ids], "edited": [x.hex() for x in ids2], "edit": "consensus-" + mode, "lane": "consensus"}
        if r2 == r1:
            st.v("different-lists-same-root:consensus-" + mode.split(":")[0], "header commitment unchanged after %s of a transaction "
                 "(same length, computed right after the original list)" % mode, w)
        if r2 != ref.merkle_root(ids2):
            st.v("header-commitment-is-not-the-merkle-root-of-the-ids", "calc_merkle_root_hash of the edited list differs from the "
                 "fold of its ids (computed right after the original list)", w)
        # and the check itself: a header carrying the original root over the edited list must be refused
        summary = dt.BlockSummary(1, b"\x00" * 32, r1, 5, b"\xff" * 32, 0)
        blk = dt.Block(dt.BlockHeader(summary, dt.PowEvidence(b"\x00" * 32, b"\x00" * 32, b"\x00" * 32)), ed)
        if blk.header.summary.merkle_root_hash == cons.calc_merkle_root_hash(blk.transactions):
            st.v("stale-commitment-accepted-for-edited-list", "merkle check passes for a block whose transactions were edited", w)


def checkpoint_header_lane(st, rng, n):
    """the commitment check is not waived for blocks whose HEADER is a trusted one: the real genesis header (a built-in
    checkpoint) and headers entered into the checkpoint table, each over an edited transaction list, must be refused by
    the block-by-itself validation and by the full entry point"""
    import skepticoin.consensus as cons
    import skepticoin.datatypes as dt
    import skepticoin.signing as sg
    from skepticoin.coinstate import CoinState
    from skv import objgen
    g = objgen.Gen()
    gb = dt.Block.deserialize(env.genesis_bytes())
    saved = (cons.KNOWN_HASHES, cons.MAX_KNOWN_HASH_HEIGHT)

    def edits(txs):
        extra = g.transaction(rng)
        out = [("append", txs + [extra]), ("duplicate-last", txs + [txs[-1]]), ("substitute-last", txs[:-1] + [extra])]
        if len(txs) > 1:
            out += [("remove-last", txs[:-1]), ("substitute-middle", txs[:1] + [extra] + txs[2:])]
        if len(txs) > 2:
            out.append(("swap", txs[:1] + [txs[2], txs[1]] + txs[3:]))
        return out

    def judge(kind, header, txs, now, table_note):
        for name, ed in edits(txs):
            if [t.hash() for t in ed] == [t.hash() for t in txs]:
                continue
            blk = dt.Block(header, ed)
            st.c_extra["checkpoint_header_edits"] = st.c_extra.get("checkpoint_header_edits", 0) + 1
            w = {"list": [t.hash().hex() for t in txs], "edited": [t.hash().hex() for t in ed], "edit": kind + "-" + name,
                 "lane": "checkpoint-header"}
            try:
                cons.validate_block_by_itself(blk, now)
                st.v("stale-commitment-accepted-for-edited-list:" + kind, "a block with %s and an edited transaction list (%s) "
                     "passes the block-by-itself validation although the list does not reproduce the header commitment" % (
                         table_note, name), w)
            except Exception:
                pass
    try:
        judge("genesis-header", gb.header, list(gb.transactions), gb.timestamp + 100, "the real genesis header")
        for k in range(n):
            h = rng.choice([1, 5, 500, 1000, 163000])
            cb = dt.Transaction([dt.Input(dt.OutputReference(b"\x00" * 32, 0), sg.CoinbaseData(h, b"x"))],
                                [dt.Output(10, g.public_key(rng))])
            txs = [cb] + [g.transaction(rng) for _ in range(rng.choice([0, 1, 2, 3]))]
            if len({t.hash() for t in txs}) != len(txs):
                continue
            summary = dt.BlockSummary(h, objgen.h32(rng), cons.calc_merkle_root_hash(txs), 1615757105 + k, b"\xff" * 32, k)
            header = dt.BlockHeader(summary, dt.PowEvidence(b"\x00" * 32, b"\x00" * 32, b"\x00" * 32))
            blk = dt.Block(header, txs)
            sample = next(iter(saved[0].values())) if saved[0] else ""
            cons.KNOWN_HASHES = {h: blk.hash().hex() if isinstance(sample, str) else blk.hash()}
            cons.MAX_KNOWN_HASH_HEIGHT = max(h, 163000)
            judge("table-header", header, txs, summary.timestamp + 100, "a header entered into the checkpoint table at height %d" % h)
    finally:
        cons.KNOWN_HASHES, cons.MAX_KNOWN_HASH_HEIGHT = saved


def node_lane(st, rng, n):
    """the commitment of blocks the node HOLDS: blocks whose header commits to their transaction list are taken through the
    routes by which a node obtains blocks (decoded from bytes; written to a file-backed block store and read back by a
    fresh store object) -- the ordered id list must be the committed one, and the header commitment must be reproduced by
    the commitment function and by the inclusion proof of every position"""
    import os
    import skepticoin.consensus as cons
    import skepticoin.datatypes as dt
    from skepticoin.blockstore import BlockStore
    from skepticoin import merkletree as mt
    from skv import objgen, nodekit
    g = objgen.Gen()
    path = os.path.join(os.getcwd(), "c17-node.db")
    for suffix in ("", "-journal"):
        if os.path.exists(path + suffix):
            os.remove(path + suffix)
    store = nodekit.quiet(BlockStore, path)
    made = {}
    pending, written, batch = [], set(), rng.choice([1, 2, 5])
    for k in range(n):
        txs = []
        for _ in range(rng.choice([2, 3, 4, 5, 8, 9])):
            ins = [dt.Input(dt.OutputReference(b"\x00" * 32, objgen.pick_u32(rng)), g.signature(rng)) for _i in range(rng.choice([1, 2]))]
            outs = [dt.Output(rng.randrange(1, 1 << 50), g.public_key(rng)) for _i in range(rng.choice([1, 2]))]
            txs.append(dt.Transaction(ins, outs))
        ids = [t.hash() for t in txs]
        if len(set(ids)) != len(ids):
            continue
        s = g.block_summary(rng)
        s.previous_block_hash = ref.GENESIS_ID
        s.height = 1 + k
        s.merkle_root_hash = cons.calc_merkle_root_hash(txs)
        blk = dt.Block(dt.BlockHeader(s, g.pow_evidence(rng)), txs)
        made[blk.hash()] = (ids, s.merkle_root_hash)
        # blocks reach the store one at a time (relayed blocks) or many in one write (bulk download)
        pending.append(blk)
        if len(pending) >= batch or k == n - 1:
            try:
                store.write_blocks_to_disk(pending)
                written.update(b_.hash() for b_ in pending)
                st.c_extra["store_writes_of_several_blocks"] = st.c_extra.get("store_writes_of_several_blocks", 0) + (len(pending) > 1)
            except Exception as e:
                st.v("node-lane:store-refuses-block", "write_blocks_to_disk raised %r" % (e,), {"list": [x.hex() for x in ids], "lane": "node"})
            pending = []
            batch = rng.choice([1, 1, 2, 5, 12])
        obtained = [("decoded-from-bytes", dt.Block.deserialize(blk.serialize()))]
        for route, b in obtained:
            _judge_held_block(st, mt, cons, route, b, ids, s.merkle_root_hash)
    store.close()
    store = nodekit.quiet(BlockStore, path)
    back = set()
    for b in store.read_blocks_from_disk():
        if b.hash() in made:
            back.add(b.hash())
            ids, root = made[b.hash()]
            _judge_held_block(st, mt, cons, "read-back-from-store", b, ids, root)
    if written - back:
        st.v("node-lane:held-block-missing-after-reload", "%d of %d blocks written to the store do not come back from it" % (
            len(written - back), len(written)), {"list": [], "lane": "node"})
    store.close()
    for suffix in ("", "-journal"):
        if os.path.exists(path + suffix):
            os.remove(path + suffix)


def _judge_held_block(st, mt, cons, route, b, ids, root):
    st.c_extra["held_blocks_checked"] = st.c_extra.get("held_blocks_checked", 0) + 1
    got = [t.hash() for t in b.transactions]
    w = {"list": [x.hex() for x in ids], "edited": [x.hex() for x in got], "edit": "node-" + route, "lane": "node"}
    if got != ids:
        st.v("held-block-lists-other-ids-than-committed:" + route, "a block %s holds %d transactions in another order or with other "
             "ids than the list its header commits to" % (route, len(got)), w)
    if cons.calc_merkle_root_hash(b.transactions) != b.header.summary.merkle_root_hash or b.header.summary.merkle_root_hash != root:
        st.v("held-block-does-not-reproduce-its-commitment:" + route, "the commitment computed from the transactions of a block %s "
             "differs from the commitment in its header" % route, w)
    tree = mt.get_merkle_tree(got)
    for i in range(len(got)):
        st.c_extra["held_block_proofs"] = st.c_extra.get("held_block_proofs", 0) + 1
        if mt.get_proof(tree, i).hash() != root:
            st.v("held-block-proof-does-not-reproduce-commitment:" + route, "inclusion proof for position %d of a block %s does not "
                 "reproduce the header commitment" % (i, route), w)
            break


class State:
    def __init__(self, mt):
        self.mt = mt
        self.viol = []
        self.pairs = 0
        self.identical = 0
        self.lists = 0
        self.proofs = 0
        self.fold_nodes = [0]
        self.digests = set()
        self.by_edit = {}
        self.c_extra = {}
        self.samples = []

    def v(self, key, msg, w):
        if len(self.viol) < 20:
            self.viol.append({"key": key, "msg": msg, "witness": w})

    def root(self, L):
        # the caller's list object is handed over, kept, and handed over again: computing a commitment must neither change
        # the list it is computed from nor give another value the second time
        arg = list(L)
        r = self.mt.get_merkle_root(arg)
        self.c_extra["argument_lists_rechecked"] = self.c_extra.get("argument_lists_rechecked", 0) + 1
        if arg != list(L):
            self.v("commitment-function-changes-the-list-it-is-given", "after get_merkle_root the caller's list of %d ids has %d "
                   "entries%s" % (len(L), len(arg), "" if len(arg) != len(L) else " in another order"), {"list": [x.hex() for x in L]})
            return r
        if self.mt.get_merkle_root(arg) != r:
            self.v("commitment-depends-on-earlier-calls", "get_merkle_root gives another value when called again on the same list "
                   "(len %d)" % len(L), {"list": [x.hex() for x in L]})
        return r

    def check_pair(self, L, M, name):
        kind = name.split("@")[0]
        if L == M:
            self.identical += 1
            return
        self.pairs += 1
        self.by_edit[kind] = self.by_edit.get(kind, 0) + 1
        self.digests.add(digest(b"".join(L), b"".join(M)))
        rl, rm = self.root(L), self.root(M)
        if rl == rm:
            self.v("different-lists-same-root:" + kind, "edit %s leaves the commitment unchanged (len %d -> %d)" % (
                name, len(L), len(M)), {"list": [x.hex() for x in L], "edited": [x.hex() for x in M], "edit": name})
        if rm != ref.merkle_root(M):
            self.v("root-differs-from-reference", "get_merkle_root differs from the reference fold (len %d)" % len(M),
                   {"list": [x.hex() for x in M]})
        if len(self.samples) < 2:
            self.samples.append({"edit": name, "len": len(L), "root": rl.hex(), "edited_root": rm.hex()})

    def check_list(self, L, positions=None):
        mt = self.mt
        self.lists += 1
        r = self.root(L)
        arg = list(L)
        tree = mt.get_merkle_tree(arg)
        w = {"list": [x.hex() for x in L]}
        if arg != list(L):
            self.v("commitment-function-changes-the-list-it-is-given", "after get_merkle_tree the caller's list of %d ids has %d "
                   "entries" % (len(L), len(arg)), w)
        if tree.hash() != r:
            self.v("two-root-implementations-disagree", "tree.hash() != get_merkle_root (len %d)" % len(L), w)
        if r != ref.merkle_root(L):
            self.v("root-differs-from-reference", "get_merkle_root differs from the reference fold (len %d)" % len(L), w)
        sh = shape(len(L))
        for i in (range(len(L)) if positions is None else positions):
            self.proofs += 1
            self.digests.add(digest(b"".join(L[:4]), len(L), i))
            proof = mt.get_proof(tree, i)
            if proof.hash() != r:
                self.v("proof-hash-differs-from-root", "get_proof(tree,%d).hash() != root (len %d)" % (i, len(L)), w)
            if fold(proof, self.fold_nodes) != r:
                self.v("proof-does-not-fold-to-root", "independent fold of proof %d != root (len %d)" % (i, len(L)), w)
            # follow the path the position prescribes
            node, s = proof, sh
            ok = True
            while s[0] == "node":
                if len(node.children) != 2:
                    ok = False
                    break
                if i >= first_index(s[2]):
                    node, s = node.children[1], s[2]
                else:
                    node, s = node.children[0], s[1]
            if not ok or node.children or node.value != L[i]:
                self.v("proof-does-not-contain-entry", "proof for position %d of %d does not lead to that entry" % (
                    i, len(L)), w)

    def result(self):
        return {"evaluations": self.pairs + self.proofs, "digests": sorted(self.digests), "violations": self.viol,
                "counters": {"list_pairs_compared": self.pairs, "edits_yielding_identical_list_skipped": self.identical,
                             "base_lists": self.lists, "proofs_checked": self.proofs,
                             "proof_nodes_folded": self.fold_nodes[0], "pairs_by_edit": self.by_edit, **self.c_extra},
                "samples": self.samples, "exhaustive": True}


def finalize(m, tier):
    c = m["counters"]
    return {
        "rule": "base lists of fresh random 32-byte ids; for lengths 1..10 every substitution, pair swap, removal, "
                "in-place/tail duplication, append, rotation (exhaustive per base list), random edits for lengths up to "
                "2000; every position's proof for short lists. distinct = distinct (base,edited) pairs and (list,position) "
                "proofs by content digest; non-trivial = edited list differs from the base",
        "floors": [("list_pairs_compared", c.get("list_pairs_compared", 0), 5000),
                   ("proofs_checked", c.get("proofs_checked", 0), 500),
                   ("duplicate-last pairs", c.get("pairs_by_edit", {}).get("duplicate-last", 0), 100),
                   ("consensus_commitments", c.get("consensus_commitments", 0), 500),
                   ("held_blocks_checked", c.get("held_blocks_checked", 0), 500),
                   ("checkpoint_header_edits", c.get("checkpoint_header_edits", 0), 500), ("held_block_proofs", c.get("held_block_proofs", 0), 2000),
                   ("two_thread_switch_points", c.get("two_thread_switch_points", 0), 2000)],
        "extra": {"exhaustive_bound": "all single edits of the listed kinds for every base list of length 1..10"},
    }
