"""C16 - monetary schedule.  The real get_block_subsidy is called on every height with a non-zero
subsidy (31.5 M heights), every era boundary up to the largest encodable height, and random
heights; the sum is accumulated from the calls themselves."""
import random
import re

from skv import env, ref
from skv.runner import digest

PROPERTY = "C16"
LEVEL = "exploration"
NONZERO_HEIGHTS = 30 * ref.HALVING_INTERVAL
NSHARD = 16
SHARD_TIMEOUT = {"quick": 600, "thorough": 1200}


def shards(tier, seed):
    step = NONZERO_HEIGHTS // NSHARD
    out = []
    for i in range(NSHARD):
        lo = i * step
        hi = NONZERO_HEIGHTS if i == NSHARD - 1 else (i + 1) * step
        out.append({"kind": "range", "lo": lo, "hi": hi})
    out.append({"kind": "edges", "tier": tier, "seed": seed})
    out.append({"kind": "threads", "tier": tier, "seed": seed})
    out.append({"kind": "route", "tier": tier, "seed": seed})
    return out


def thread_lane(consensus, spec):
    """two threads ask the schedule at once (the networking thread validating a peer's block, the miner thread building its
    reward), in a process that has not looked at those heights before: thread A is held at each source location of the
    consensus module it passes while thread B completes a call; every trial starts from the module state of a freshly started
    process.  Both must get the documented subsidy, and so must every era boundary asked afterwards"""
    from skv import preempt
    rng = random.Random(spec["seed"] * 1000 + 161)
    pre = preempt.Preempter([consensus])
    if not pre.ok:
        return {"evaluations": 0, "violations": [], "counters": {"thread_lane_tool_slot_taken": 1}}
    state = preempt.ModuleState([consensus])
    H = ref.HALVING_INTERVAL
    probes = sorted({e * H + d for e in range(0, 67) for d in (-1, 0)} - {-1})
    want = [ref.subsidy(h) for h in probes]

    def schedule(_ctx):
        return [consensus.get_block_subsidy(h) for h in probes]
    viol, n, trials_run = [], 0, 0
    eras = list(range(0, 66)) if spec["tier"] != "quick" else sorted(set([0, 1, 2, 3, 31, 32, 33, 62, 63, 64] + rng.sample(range(4, 62), 8)))
    try:
        for e in eras:
            for (ha, hb) in ((e * H, e * H + 7), (e * H + 3, (e + 1) * H), ((e + 1) * H, e * H + 1), (e * H + H - 1, e * H + H - 1)):
                ja = (lambda ctx, h=ha: consensus.get_block_subsidy(h))
                jb = (lambda ctx, h=hb: consensus.get_block_subsidy(h))
                for t in preempt.trials(pre, state, lambda: None, ja, jb, rng, 16, aftermath=schedule):
                    trials_run += 1
                    n += 4 + len(probes)
                    w = {"kind": "threads", "height_a": ha, "height_b": hb, "switch_at_event": t["k"], "of_events": t["total"]}
                    if t["want_a"] != ref.subsidy(ha) or t["want_b"] != ref.subsidy(hb) or t["want_aftermath"] != want:
                        continue        # (single-threaded disagreement with the schedule: the edges shard reports it)
                    for who, got, exp in preempt.disagreements(t):
                        if isinstance(got, list):
                            bad = [(probes[i], got[i], want[i]) for i in range(len(probes)) if got[i] != want[i]][:3]
                            msg = "%s: after subsidy(%d) and subsidy(%d) were asked by two threads at once, the schedule is wrong at " \
                                  "heights %s" % (who, ha, hb, ["subsidy(%d)=%r, documented %d" % x for x in bad])
                        else:
                            msg = "%s: subsidy asked by two threads at once (heights %d and %d, switch at event %d of %d): got %r, " \
                                  "documented %r" % (who, ha, hb, t["k"], t["total"], got, exp)
                        if len(viol) < 5:
                            viol.append(_viol("subsidy-depends-on-another-threads-call", msg, w))
    finally:
        pre.close()
    return {"evaluations": n, "distinct": trials_run, "violations": viol,
            "counters": {"two_thread_trials": trials_run, "two_thread_eras": len(eras), "two_thread_locations_seen": len(pre.loc_uses)}}


def _viol(key, msg, witness):
    return {"key": key, "msg": msg, "witness": witness}


def run_range(lo, hi, f):
    viol = []
    total = 0
    # value at lo-1 for the monotonicity check across shard boundaries
    prev = f(lo - 1) if lo > 0 else None
    n = 0
    nonzero = 0
    values = set()
    for h in range(lo, hi):
        s = f(h)
        if s != (1_000_000_000 >> (h // 1_050_000)):
            if len(viol) < 5:
                viol.append(_viol("subsidy-differs-from-schedule", "subsidy(%d)=%r, schedule says %d" % (
                    h, s, 1_000_000_000 >> (h // 1_050_000)), {"kind": "height", "height": h}))
        if prev is not None and s > prev:
            if len(viol) < 5:
                viol.append(_viol("subsidy-increases", "subsidy(%d)=%r > subsidy(%d)=%r" % (h, s, h - 1, prev),
                                  {"kind": "height", "height": h}))
        if type(s) is not int:
            if len(viol) < 5:
                viol.append(_viol("subsidy-not-integer", "subsidy(%d)=%r" % (h, s), {"kind": "height", "height": h}))
        prev = s
        total += s
        n += 1
        if s:
            nonzero += 1
            values.add(s)
    return viol, total, n, nonzero, values


def route_shard(spec):
    """the reward bound on the routes by which a running node takes blocks: rewards above subsidy + fees (by one unit, by the whole
    subsidy, split over outputs ...) in the download-route stories of skv/props/c09.py -- announced, unrequested, before
    their parent, while a request of the node is open"""
    from skv import cstream
    from skv.props import c09
    env.boot()
    rng = random.Random(spec["seed"] * 1000 + 162)
    classes = {k: v for k, v in cstream.C02_CLASSES.items() if k.startswith("reward")}
    mon = c09.route_histories(rng, 6 if spec["tier"] == "quick" else 60, 14, classes, "c16r")
    viol = [_viol("node-route:" + v["key"], v["msg"], v["witness"]) for v in mon.viol[:6]]
    return {"evaluations": mon.c.get("deliveries", 0), "distinct": mon.c.get("download_route_stories", 0), "violations": viol,
            "counters": {"route_lane_deliveries": mon.c.get("deliveries", 0), "route_lane_stories": mon.c.get("download_route_stories", 0)}}



def _replay_route_story(spec):
    from skv.props import c09
    env.boot()
    mon = c09.route_histories(random.Random(1), 8, 14, c09.all_classes(), "replay-route", story_share=0.8)
    return {"evaluations": mon.c.get("deliveries", 0), "distinct": mon.c.get("download_route_stories", 0),
            "violations": [{"key": "node-route:" + v["key"], "msg": v["msg"], "witness": v["witness"]} for v in mon.viol[:6]],
            "counters": {"route_lane_stories": mon.c.get("download_route_stories", 0)}, "digests": []}

def run_shard(spec):
    if "replay" in spec and isinstance(spec["replay"], dict) and spec["replay"].get("kind") == "download-route-story":
        # (the story is re-run with this check's classes on the current tree; the recorded chain is for the reader)
        return _replay_route_story(spec)
    if spec.get("kind") == "route":
        return route_shard(spec)
    consensus = env.boot(fake_scrypt=False, horizon_off=False)
    f = consensus.get_block_subsidy
    if "replay" in spec:
        w = spec["replay"]
        if w.get("kind") == "threads":
            return thread_lane(consensus, {"tier": "thorough", "seed": 0})
        if w.get("kind") == "height":
            h = w["height"]
            v, *_ = run_range(max(0, h - 1), h + 1, f)
            return {"evaluations": 2, "violations": v, "distinct": 2}
        spec = {"kind": "edges", "tier": "quick", "seed": 0}
    if spec["kind"] == "threads":
        return thread_lane(consensus, spec)
    if spec["kind"] == "range":
        viol, total, n, nonzero, values = run_range(spec["lo"], spec["hi"], f)
        return {"evaluations": n, "distinct": nonzero, "violations": viol, "exhaustive": True,
                "counters": {"sum_of_subsidies": total, "heights_called": n, "nonzero_heights": nonzero,
                             "distinct_subsidy_values": sorted(values)},
                "samples": [{"height": spec["lo"], "subsidy": f(spec["lo"])}]}
    # edges shard
    import skepticoin.params as params
    viol = []
    n = 0
    rng = random.Random(spec["seed"] * 1000 + 16)
    heights = set()
    era = 0
    while era * ref.HALVING_INTERVAL <= (1 << 32) + ref.HALVING_INTERVAL:
        for d in (-1, 0, 1):
            h = era * ref.HALVING_INTERVAL + d
            if h >= 0:
                heights.add(h)
        era += 1
    for e in (62, 63, 64, 65, 100, 1 << 20):
        for d in (-1, 0, 1):
            heights.add(e * ref.HALVING_INTERVAL + d)
    heights.update([(1 << 32) - 1, 1 << 32, (1 << 64) - 1, 1 << 64])
    nrand = 20000 if spec["tier"] == "quick" else 400000
    for _ in range(nrand):
        heights.add(rng.randrange(1 << rng.choice([24, 26, 32, 40, 64])))
    for h in sorted(heights):
        s = f(h)
        n += 1
        exp = ref.subsidy(h)
        if s != exp:
            viol.append(_viol("subsidy-differs-from-schedule", "subsidy(%d)=%r, schedule says %d" % (h, s, exp),
                              {"kind": "height", "height": h}))
        if h > 0 and f(h - 1) < s:
            viol.append(_viol("subsidy-increases", "subsidy(%d) > subsidy(%d)" % (h, h - 1),
                              {"kind": "height", "height": h}))
        if len(viol) > 5:
            break
    # history lane: the same heights in random order, each asked 1-3 times in a row, low and far heights interleaved
    # (the schedule is a function of the height alone, whatever was asked before)
    pool = sorted(heights)
    low = [h for h in pool if h < 30 * ref.HALVING_INTERVAL]
    far = [h for h in pool if h >= 64 * ref.HALVING_INTERVAL] + [64 * ref.HALVING_INTERVAL + 10, 67_200_000, 68_250_000,
                                                                  128 * ref.HALVING_INTERVAL, 93 * ref.HALVING_INTERVAL + 5]
    mid = [h for h in pool if 30 * ref.HALVING_INTERVAL <= h < 64 * ref.HALVING_INTERVAL]
    nseq = 60000 if spec["tier"] == "quick" else 1500000
    repeats = 0
    for _ in range(nseq):
        h = rng.choice(rng.choice([low, far, mid, pool]))
        for _k in range(rng.choice([1, 2, 3])):
            s = f(h)
            n += 1
            repeats += 1
            if s != ref.subsidy(h):
                viol.append(_viol("subsidy-depends-on-earlier-queries", "subsidy(%d)=%r after other queries, schedule says %d" % (
                    h, s, ref.subsidy(h)), {"kind": "edges"}))
                break
        if len(viol) > 5:
            break
    # zero from the point where halving exhausts it
    first_zero = 30 * ref.HALVING_INTERVAL
    if f(first_zero) != 0 or f(first_zero - 1) != 1:
        viol.append(_viol("exhaustion-point", "subsidy at %d / %d = %r / %r" % (
            first_zero - 1, first_zero, f(first_zero - 1), f(first_zero)), {"kind": "height", "height": first_zero}))
    # constants
    consts = {
        "SASHIMI_PER_COIN": (params.SASHIMI_PER_COIN, 100_000_000),
        "INITIAL_SUBSIDY": (params.INITIAL_SUBSIDY, 1_000_000_000),
        "SUBSIDY_HALVING_INTERVAL": (params.SUBSIDY_HALVING_INTERVAL, 1_050_000),
        "MAX_SASHIMI": (params.MAX_SASHIMI, 2_099_999_986_350_000),
        "consensus.MAX_SASHIMI": (consensus.MAX_SASHIMI, 2_099_999_986_350_000),
        "consensus.INITIAL_SUBSIDY": (consensus.INITIAL_SUBSIDY, 1_000_000_000),
        "consensus.SUBSIDY_HALVING_INTERVAL": (consensus.SUBSIDY_HALVING_INTERVAL, 1_050_000),
        "BLOCKS_BETWEEN_TARGET_READJUSTMENT": (params.BLOCKS_BETWEEN_TARGET_READJUSTMENT, 10_080),
        "DESIRED_TARGET_READJUSTMENT_TIMESPAN": (params.DESIRED_TARGET_READJUSTMENT_TIMESPAN, 1_209_600),
        "MAX_BLOCK_SIZE": (params.MAX_BLOCK_SIZE, 200_000),
    }
    for name, (got, want) in consts.items():
        n += 1
        if got != want:
            viol.append(_viol("constant-differs-from-documentation", "%s = %r, documented %r" % (name, got, want),
                              {"kind": "edges"}))
    # the validator's upper limit on any amount
    def accepts(v):
        try:
            consensus.validate_sashimi_range(v)
            return True
        except Exception:
            return False
    limit_probe = {v: accepts(v) for v in (0, 1, 2, ref.MAX_SASHIMI - 1, ref.MAX_SASHIMI, ref.MAX_SASHIMI + 1,
                                            2 * ref.MAX_SASHIMI, (1 << 63), (1 << 64) - 1, -1)}
    n += len(limit_probe)
    for v, ok in limit_probe.items():
        if ok != (0 < v <= ref.MAX_SASHIMI):
            viol.append(_viol("amount-limit-differs-from-max-supply", "validate_sashimi_range(%d) accepts=%s" % (v, ok),
                              {"kind": "edges"}))
    # the limit as it applies to amounts that arrive as bytes: 8-byte fields with the top bit set are (unsigned) far above
    # the maximum supply and must be refused wherever an amount is judged -- in an ordinary output and in a reward
    import immutables
    import skepticoin.datatypes as dt
    from skepticoin.coinstate import CoinState
    from skv import bridge
    key = b"\x05" * 64
    for h in (1, 2, 1_050_000, 31_499_999):
        for k in (1, 7, ref.subsidy(h), ref.MAX_SASHIMI):
            n += 1
            cb = ref.RTx([(ref.ZERO32, 0, (ref.SIG_CB, h, b""))], [(ref.subsidy(h) + k, key), ((1 << 64) - k, key)])
            try:
                real_cb = dt.Transaction.deserialize(cb.enc())
                vals = [o.value for o in real_cb.outputs]
            except Exception:
                continue            # refusing to decode is a refusal
            prev = dt.Block(dt.BlockHeader(dt.BlockSummary(h - 1, b"\x22" * 32, b"\x00" * 32, 5, b"\xff" * 32, 0),
                                           dt.PowEvidence(b"\x00" * 32, b"\x00" * 32, b"\x00" * 32)), [])
            at = b"\x11" * 32
            blk = dt.Block(dt.BlockHeader(dt.BlockSummary(h, at, b"\x00" * 32, 9, b"\xff" * 32, 0),
                                          dt.PowEvidence(b"\x00" * 32, b"\x00" * 32, b"\x00" * 32)), [real_cb])
            cs = CoinState(immutables.Map({at: prev}), immutables.Map({at: immutables.Map()}), immutables.Map(), immutables.Map(), at)
            try:
                consensus.validate_coinbase_transaction_in_coinstate(real_cb, blk, cs)
                viol.append(_viol("decoded-amount-beyond-limit-accepted-in-reward", "height %d: reward with 8-byte amounts %s (decoded by "
                                  "the node as %s) passes the reward check" % (h, [ref.subsidy(h) + k, (1 << 64) - k], vals), {"kind": "edges"}))
            except Exception:
                pass
            if any(v < 0 for v in vals):
                viol.append(_viol("amount-decoded-as-negative", "8-byte amount %d decodes to %s" % ((1 << 64) - k, vals), {"kind": "edges"}))
    # the limit on what ONE ordinary transaction hands out: every output in (0, max] and their TOTAL in (0, max] -- with
    # output lists that repeat an amount, put the big one first / last, or reach the limit only in sum
    import skepticoin.signing as sg
    M = ref.MAX_SASHIMI
    patterns = [[M], [M, 1], [1, M], [M, M], [M // 2, M // 2], [M // 2 + 1, M // 2 + 1], [M // 2, M // 2 + 1], [M // 2 + 1, M // 2],
                [M // 3 + 1] * 3, [M // 3] * 3, [M] * 3, [1, 1, M - 1], [1, 1, M - 2], [M - 1, 1, 1], [7] * 40, [M // 40 + 1] * 40,
                [M // 40] * 40, [0, 5], [5, 0], [5, 5, 0]]
    for _ in range(60):
        k = rng.choice([2, 3, 5])
        v = rng.choice([M // k, M // k + 1, M // k - 1, rng.randrange(1, M)])
        patterns.append([v] * k)
        patterns.append([v] * (k - 1) + [rng.randrange(1, M)])
    tx_limit_cases = 0
    for vals in patterns:
        tx = dt.Transaction([dt.Input(dt.OutputReference(b"\x21" * 32, 0), sg.SECP256k1Signature(b"\x01" * 64))],
                            [dt.Output(v, sg.SECP256k1PublicKey(bytes([5 + i % 3]) * 64)) for i, v in enumerate(vals)])
        n += 1
        tx_limit_cases += 1
        try:
            consensus.validate_non_coinbase_transaction_by_itself(tx)
            ok = True
        except Exception:
            ok = False
        exp = all(0 < v <= M for v in vals) and 0 < sum(vals) <= M
        if ok != exp:
            viol.append(_viol("transaction-amount-limit-differs-from-max-supply", "outputs %s (total %d, maximum %d) are %s by the "
                              "by-itself validation" % (vals if len(vals) <= 4 else "%d x %d" % (len(vals), vals[0]), sum(vals), M,
                                                        "accepted" if ok else "refused"), {"kind": "edges"}))
        if len(viol) > 10:
            break
    # the schedule AS THE VALIDATOR ENFORCES IT: at every era boundary (and the heights next to it, and random heights) a
    # reward-only block claiming exactly subsidy(h) must pass the reward check and one claiming subsidy(h)+1 must not
    enforced = 0
    probe_heights = sorted({e * ref.HALVING_INTERVAL + d for e in list(range(0, 34)) + [62, 63, 64, 65, 100, 4090] for d in (-1, 0, 1)
                            if 0 < e * ref.HALVING_INTERVAL + d <= 0xFFFFFFFF}
                           | {1, 2, 0xFFFFFFFF} | {rng.randrange(1, 1 << 32) for _ in range(300)})
    def reward_lists(h):
        sub = ref.subsidy(h)
        yield [(sub, key)], True
        yield [(sub + 1, key)], False
        # the bound is on the SUM of the reward's outputs, however it is split
        yield [(sub, key), (1, key)], False
        yield [(sub, key), (sub, key)], sub == 0
        if sub >= 2:
            yield [(sub // 2, key), (sub - sub // 2, key)], True
            yield [(sub // 2 + 1, key), (sub - sub // 2, key)], False
            yield [(1, key)] * 3 + [(sub - 2, key)], False
        yield [(0, key), (sub, key)], True
    for h in probe_heights:
        for outs, expected in reward_lists(h):
            delta = 0 if expected else 1
            cb = ref.RTx([(ref.ZERO32, 0, (ref.SIG_CB, h, b""))], outs)
            try:
                real_cb = dt.Transaction.deserialize(cb.enc())
            except Exception:
                continue
            prev = dt.Block(dt.BlockHeader(dt.BlockSummary(h - 1, b"\x22" * 32, b"\x00" * 32, 5, b"\xff" * 32, 0),
                                           dt.PowEvidence(b"\x00" * 32, b"\x00" * 32, b"\x00" * 32)), [])
            at = b"\x11" * 32
            blk = dt.Block(dt.BlockHeader(dt.BlockSummary(h, at, b"\x00" * 32, 9, b"\xff" * 32, 0),
                                          dt.PowEvidence(b"\x00" * 32, b"\x00" * 32, b"\x00" * 32)), [real_cb])
            cs = CoinState(immutables.Map({at: prev}), immutables.Map({at: immutables.Map()}), immutables.Map(), immutables.Map(), at)
            n += 1
            enforced += 1
            try:
                consensus.validate_coinbase_transaction_in_coinstate(real_cb, blk, cs)
                ok = True
            except Exception:
                ok = False
            if ok != expected:
                viol.append(_viol("validator-enforces-another-schedule", "height %d (subsidy %d): a reward with outputs %s (total %d) is %s "
                                  "by the reward check" % (h, ref.subsidy(h), [v for v, _k in outs], sum(v for v, _k in outs),
                                                           "accepted" if ok else "refused"), {"kind": "edges"}))
        if len(viol) > 8:
            break
    # docs/params.md
    import os
    doc = open(os.path.join(env.REPO, "docs", "params.md")).read()
    doc_facts = {
        "10 coin subsidy": r"\b10 coin subsidy",
        "1,050,000 block halving interval": r"1,050,000 block halving interval",
        "20,999,999.86350000 maximum": r"20,999,999\.86350000 maximum total",
        "every 10,080 blocks": r"every 10,080 blocks",
        "Max block size: 200,000 bytes": r"Max block size: 200,000 bytes",
    }
    for name, pat in doc_facts.items():
        n += 1
        if not re.search(pat, doc):
            viol.append(_viol("documentation-changed", "docs/params.md no longer states: %s" % name, {"kind": "edges"}))
    return {"evaluations": n, "distinct": len(heights), "violations": viol,
            "counters": {"edge_heights": len(heights), "history_lane_queries": repeats, "reward_checks_at_probe_heights": enforced, "transaction_limit_cases": tx_limit_cases, "amount_limit_probe": {str(k): int(v) for k, v in limit_probe.items()},
                         "constants_checked": len(consts)},
            "samples": [{"height": h, "subsidy": f(h)} for h in (0, 1_049_999, 1_050_000, 31_499_999, 31_500_000, (1 << 32) - 1)]}


def finalize(m, tier):
    c = m["counters"]
    total = c.get("sum_of_subsidies", 0)
    if c.get("heights_called", 0) >= NONZERO_HEIGHTS and total != ref.MAX_SASHIMI:
        m["violations"].append(_viol("total-supply-differs", "sum over all heights of the real subsidy = %d, documented %d" % (
            total, ref.MAX_SASHIMI), {"kind": "edges"}))
    return {
        "rule": "the real get_block_subsidy is called on every height in [0, 31,500,000) (all heights with non-zero "
                "subsidy; distinct = heights whose subsidy is non-zero, all different inputs), plus every era boundary "
                "+-1 up to 2^32 and random heights up to 2^64; sum accumulated from those calls; the reward check itself probed "
                "with subsidy(h) and subsidy(h)+1 at every era boundary +-1 and random heights",
        "floors": [("heights_called", c.get("heights_called", 0), NONZERO_HEIGHTS),
                   ("nonzero_heights", c.get("nonzero_heights", 0), NONZERO_HEIGHTS),
                   ("reward_checks_at_probe_heights", c.get("reward_checks_at_probe_heights", 0), 2000),
                   ("transaction_limit_cases", c.get("transaction_limit_cases", 0), 100),
                   ("two_thread_trials", c.get("two_thread_trials", 0), 200),
                   ("route_lane_stories", c.get("route_lane_stories", 0), 30)],
        "extra": {"sum_of_subsidies_observed": total},
    }
