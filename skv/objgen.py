"""Seeded generators of (not necessarily valid) values of every serializable class of the repo, with
boundary integers, and a class-agnostic deep structural view used instead of the classes' own
__eq__ (which ignore some fields)."""
from ipaddress import IPv6Address

from skv import ref

VLQ_EDGE = [0, 1, 2, 63, 64, 126, 127, 128, 129, 255, 256, (1 << 14) - 1, 1 << 14, (1 << 14) + 1, (1 << 21) - 1,
            1 << 21, (1 << 21) + 1, (1 << 28) - 1, 1 << 28, 1 << 32, (1 << 35) - 1, 1 << 35, (1 << 63) - 1, 1 << 63,
            (1 << 64) - 1, 1 << 64, (1 << 70) - 1, 1 << 70]
U32_EDGE = [0, 1, 127, 128, 255, 256, 65535, 65536, (1 << 31) - 1, 1 << 31, (1 << 32) - 1]
U64_EDGE = U32_EDGE + [1 << 32, ref.MAX_SASHIMI - 1, ref.MAX_SASHIMI, ref.MAX_SASHIMI + 1, (1 << 63) - 1, 1 << 63,
                       (1 << 64) - 1]


def rb(rng, n):
    return rng.getrandbits(8 * n).to_bytes(n, "big") if n else b""


def pick_u32(rng):
    return rng.choice(U32_EDGE) if rng.random() < 0.4 else rng.randrange(1 << 32)


def pick_u64(rng):
    return rng.choice(U64_EDGE) if rng.random() < 0.4 else rng.randrange(1 << 64)


def pick_vlq(rng):
    r = rng.random()
    if r < 0.5:
        return rng.choice(VLQ_EDGE)
    if r < 0.8:
        return rng.randrange(1 << rng.choice([7, 14, 21, 28, 35]))
    return rng.randrange(1 << 64)


def pick_count(rng, hi=5):
    return rng.choice([0, 1, 1, 2, 3, hi])


def h32(rng):
    r = rng.random()
    if r < 0.1:
        return b"\x00" * 32
    if r < 0.15:
        return b"\xff" * 32
    return rb(rng, 32)


class Gen:
    def __init__(self):
        import skepticoin.datatypes as dt
        import skepticoin.signing as sg
        import skepticoin.networking.messages as ms
        self.dt, self.sg, self.ms = dt, sg, ms

    # ---- consensus values
    def output_reference(self, rng):
        return self.dt.OutputReference(h32(rng), pick_u32(rng))

    def public_key(self, rng):
        return self.sg.SECP256k1PublicKey(rb(rng, 64))

    def signature(self, rng):
        k = rng.randrange(3)
        if k == 0:
            return self.sg.SignableEquivalent()
        if k == 1:
            return self.sg.CoinbaseData(pick_u32(rng), rb(rng, rng.choice([0, 1, 31, 32, 127, 128, 200, 201, 255])))
        return self.sg.SECP256k1Signature(rb(rng, 64))

    def input(self, rng):
        return self.dt.Input(self.output_reference(rng), self.signature(rng))

    def output(self, rng):
        return self.dt.Output(pick_u64(rng), self.public_key(rng))

    def transaction(self, rng, big=False):
        ni = pick_count(rng) if not big else rng.choice([63, 64, 96, 127, 128])
        no = pick_count(rng) if not big else rng.choice([1, 64, 100, 127, 128])
        return self.dt.Transaction([self.input(rng) for _ in range(ni)], [self.output(rng) for _ in range(no)])

    def pow_evidence(self, rng):
        return self.dt.PowEvidence(h32(rng), rb(rng, 32), h32(rng))

    def block_summary(self, rng):
        return self.dt.BlockSummary(pick_vlq(rng), h32(rng), h32(rng), pick_u32(rng), h32(rng), pick_u32(rng))

    def block_header(self, rng):
        return self.dt.BlockHeader(self.block_summary(rng), self.pow_evidence(rng))

    def block(self, rng, big=False):
        n = pick_count(rng, 4) if not big else rng.choice([64, 100, 127, 128])
        return self.dt.Block(self.block_header(rng), [self.transaction(rng) for _ in range(n)])

    CONSENSUS = ["output_reference", "public_key", "signature", "input", "output", "transaction", "pow_evidence",
                 "block_summary", "block_header", "block"]

    def decoders(self):
        dt, sg = self.dt, self.sg
        return {"OutputReference": dt.OutputReference, "PublicKey": sg.PublicKey, "Signature": sg.Signature,
                "Input": dt.Input, "Output": dt.Output, "Transaction": dt.Transaction, "PowEvidence": dt.PowEvidence,
                "BlockSummary": dt.BlockSummary, "BlockHeader": dt.BlockHeader, "Block": dt.Block}

    def decoder_for(self, name):
        return {"output_reference": "OutputReference", "public_key": "PublicKey", "signature": "Signature",
                "input": "Input", "output": "Output", "transaction": "Transaction", "pow_evidence": "PowEvidence",
                "block_summary": "BlockSummary", "block_header": "BlockHeader", "block": "Block"}[name]

    # ---- wire values
    def ip(self, rng):
        k = rng.randrange(4)
        if k == 0:
            return IPv6Address("::FFFF:%d.%d.%d.%d" % tuple(rng.randrange(256) for _ in range(4)))
        if k == 1:
            return IPv6Address("0::0")
        return IPv6Address(rb(rng, 16))

    def message_header(self, rng):
        return self.ms.MessageHeader(pick_u32(rng), pick_u32(rng), rng.choice([0, 0, 1, pick_u32(rng)]), pick_u64(rng))

    def hello(self, rng):
        ms = self.ms
        return ms.HelloMessage([ms.SupportedVersion(rng.randrange(256)) for _ in range(pick_count(rng))], self.ip(rng),
                               rng.randrange(65536), self.ip(rng), rng.randrange(65536), pick_u32(rng),
                               rb(rng, rng.choice([0, 1, 13, 255])))

    def get_blocks(self, rng):
        return self.ms.GetBlocksMessage([h32(rng) for _ in range(rng.choice([0, 1, 2, 10, 70, 127, 128]))], h32(rng))

    def inventory(self, rng):
        ms = self.ms
        return ms.InventoryMessage([ms.InventoryItem(rng.choice([ms.DATA_BLOCK, ms.DATA_TRANSACTION, rb(rng, 2)]), h32(rng))
                                    for _ in range(rng.choice([0, 1, 2, 63, 64, 127, 128, 500]))])

    def get_data(self, rng):
        ms = self.ms
        return ms.GetDataMessage(rng.choice([ms.DATA_BLOCK, ms.DATA_TRANSACTION, ms.DATA_HEADER]), h32(rng))

    def data(self, rng):
        ms = self.ms
        k = rng.randrange(3)
        if k == 0:
            return ms.DataMessage(ms.DATA_BLOCK, self.block(rng))
        if k == 1:
            return ms.DataMessage(ms.DATA_HEADER, self.block_header(rng))
        return ms.DataMessage(ms.DATA_TRANSACTION, self.transaction(rng))

    def get_peers(self, rng):
        return self.ms.GetPeersMessage()

    def peers(self, rng):
        ms = self.ms
        return ms.PeersMessage([ms.Peer(pick_u32(rng), self.ip(rng), rng.randrange(65536))
                                for _ in range(rng.choice([0, 1, 2, 64, 127, 128, 300]))])

    MESSAGES = ["hello", "get_blocks", "inventory", "get_data", "data", "get_peers", "peers"]

    def message(self, rng, kind=None):
        return getattr(self, kind or rng.choice(self.MESSAGES))(rng)

    def framed(self, rng, kind=None, header=None):
        """(frame bytes, payload bytes) of a random well-formed message, built with the real encoders"""
        h = header or self.message_header(rng)
        payload = h.serialize() + self.message(rng, kind).serialize()
        return ref.frame(payload), payload


_SKIP = {"cached_hash"}


def deep(o):
    """structural view: nested tuples of every public field (cached ids excluded)"""
    if isinstance(o, (bytes, int, str, bool)) or o is None:
        return o
    if isinstance(o, (list, tuple)):
        return tuple(deep(x) for x in o)
    if isinstance(o, IPv6Address):
        return ("ip", int(o))
    d = getattr(o, "__dict__", None)
    if d is None:
        return repr(o)
    return (type(o).__name__,) + tuple((k, deep(v)) for k, v in sorted(d.items()) if k not in _SKIP)
