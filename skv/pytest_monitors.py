"""pytest plugin (auxiliary lanes): runs the repository's own networking tests -- real sockets, real
threads -- with monitors attached, and writes what they observed to $SKV_MON_OUT.

monitors: (1) per-connection receive history: message ids handed to handle_message_received must be
1,2,3,... on every connection (exactly once, in order) under whatever fragmentation real TCP produces;
(2) peer-book disjointness evaluated at every public NetworkManager method boundary (recording, not
raising, so the observed program is not disturbed)."""
import json
import os
import threading

STATE = {"messages": 0, "connections": 0, "order_violations": [], "disjoint_evaluations": 0, "disjoint_violations": [],
         "recv_calls": 0, "recv_sizes": {}}
LOCK = threading.Lock()


def pytest_configure(config):
    import skepticoin.networking.local_peer as lpm      # noqa (import order: circular import in the package)
    import skepticoin.networking.remote_peer as rp
    import skepticoin.networking.manager as mg
    last = {}
    orig = rp.ConnectedRemotePeer.handle_message_received

    def recv(self, header, message):
        with LOCK:
            STATE["messages"] += 1
            prev = getattr(self, "_skv_last_id", None)      # kept on the peer object itself (id() values get reused)
            if prev is None:
                STATE["connections"] += 1
                prev = 0
            exp = prev + 1
            if header.id != exp and len(STATE["order_violations"]) < 10:
                STATE["order_violations"].append("connection %s: got message id %d, expected %d (%s)" % (
                    self.host, header.id, exp, type(message).__name__))
            self._skv_last_id = header.id
        return orig(self, header, message)
    rp.ConnectedRemotePeer.handle_message_received = recv

    orig_data = rp.ConnectedRemotePeer.handle_receive_data

    def data(self, d):
        with LOCK:
            STATE["recv_calls"] += 1
            b = "1024" if len(d) == 1024 else ("<1024" if len(d) < 1024 else ">1024")
            STATE["recv_sizes"][b] = STATE["recv_sizes"].get(b, 0) + 1
        return orig_data(self, d)
    rp.ConnectedRemotePeer.handle_receive_data = data

    def wrap(name):
        f = getattr(mg.NetworkManager, name)

        def w(self, *a, **k):
            try:
                return f(self, *a, **k)
            finally:
                with LOCK:
                    STATE["disjoint_evaluations"] += 1
                    both = set(self.connected_peers) & set(self.disconnected_peers)
                    if both and len(STATE["disjoint_violations"]) < 10:
                        STATE["disjoint_violations"].append("after %s: %s in both maps" % (name, sorted(both, key=str)[0],))
        setattr(mg.NetworkManager, name, w)
    for n in ("step", "handle_peer_connected", "handle_peer_disconnected", "broadcast_message"):
        wrap(n)


def pytest_sessionfinish(session, exitstatus):
    out = os.environ.get("SKV_MON_OUT")
    if out:
        with LOCK:
            STATE["exitstatus"] = int(exitstatus)
            with open(out, "w") as f:
                json.dump(STATE, f)
