"""Crash injector: runs a driver script under strace, numbers the syscalls of a marked region in a dry
run, then re-runs the driver once per syscall with SIGKILL delivered on entry to exactly that syscall
(strace -e inject=<name>:signal=SIGKILL:when=<global ordinal of that name>), plus a statement-level
lane inside the driver (os._exit at the k-th line event of chosen functions)."""
import os
import re
import subprocess
import sys

TRACE_SET = ("openat,open,creat,write,writev,pwrite64,close,rename,renameat,renameat2,unlink,unlinkat,access,"
             "faccessat,faccessat2,fsync,fdatasync,ftruncate,truncate,link,linkat,symlink,symlinkat")
MARK_BEGIN = "/skv-mark-begin"
MARK_END = "/skv-mark-end"
PY = "/venv/bin/python"
DRIVER = os.path.join(os.path.dirname(os.path.abspath(__file__)), "crash_driver.py")
LINE = re.compile(r"^(\d+)\s+([a-z0-9_]+)\((.*)$")


def driver_env(unbuffered=False):
    env = dict(os.environ)
    verif = os.path.dirname(os.path.dirname(os.path.abspath(__file__)))
    env["PYTHONPATH"] = os.pathsep.join([os.environ.get("VERIF_REPO", "/repo"), verif, os.path.join(verif, ".deps")])
    env["PYTHONDONTWRITEBYTECODE"] = "1"
    env["PYTHONHASHSEED"] = "0"
    env["SKEPTICOIN_VERIF"] = "1"
    if unbuffered:
        env["PYTHONUNBUFFERED"] = "1"
    return env


def run_traced(args, cwd, trace_path, inject=None, unbuffered=False, timeout=120):
    """returns (returncode, stdout bytes, parsed trace).  inject = (syscall name, ordinal)"""
    cmd = ["strace", "-f", "-o", trace_path, "-e", "trace=" + TRACE_SET]
    if inject:
        cmd += ["-e", "inject=%s:signal=SIGKILL:when=%d" % inject]
    cmd += [PY, DRIVER] + list(args)
    try:
        p = subprocess.run(cmd, cwd=cwd, env=driver_env(unbuffered), stdout=subprocess.PIPE, stderr=subprocess.PIPE,
                           timeout=timeout)
        rc, out = p.returncode, p.stdout
    except subprocess.TimeoutExpired:
        rc, out = "timeout", b""
    return rc, out, parse_trace(trace_path)


def run_plain(args, cwd, unbuffered=False, timeout=120):
    p = subprocess.run([PY, DRIVER] + list(args), cwd=cwd, env=driver_env(unbuffered), stdout=subprocess.PIPE,
                       stderr=subprocess.PIPE, timeout=timeout)
    return p.returncode, p.stdout, p.stderr


def parse_trace(path):
    """list of dict(name, ordinal (per-name, from process start), in_region, text, killed_here)"""
    out = []
    counts = {}
    state = "before"
    if not os.path.exists(path):
        return out
    with open(path, errors="replace") as f:
        for line in f:
            m = LINE.match(line)
            if not m:
                continue
            name, rest = m.group(2), m.group(3)
            if "resumed>" in line:
                continue
            counts[name] = counts.get(name, 0) + 1
            if MARK_BEGIN in rest:
                state = "in"
                continue
            if MARK_END in rest:
                state = "after"
                continue
            out.append({"name": name, "ordinal": counts[name], "region": state, "text": line.strip()[:160],
                        "killed": rest.rstrip().endswith("= ?")})
    return out


def region_points(trace):
    """syscalls inside the marked region + the first one after it (kill right after the region)"""
    pts = [(t["name"], t["ordinal"], t["text"]) for t in trace if t["region"] == "in"]
    after = [t for t in trace if t["region"] == "after"]
    if after:
        pts.append((after[0]["name"], after[0]["ordinal"], "AFTER-REGION " + after[0]["text"]))
    return pts


def kill_landed(trace, name, ordinal):
    """did the injected run die on entry to the intended syscall?"""
    for t in trace:
        if t["name"] == name and t["ordinal"] == ordinal:
            return t["killed"]
    return False
