"""Driver executed (under strace, or plainly) by the crash injector.  Runs from a scratch cwd."""
import io
import json
import os
import sys

MARK_BEGIN = "/skv-mark-begin"
MARK_END = "/skv-mark-end"


def mark(p):
    os.access(p, os.F_OK)


def quiet_import():
    out = sys.stdout
    sys.stdout = io.StringIO()
    try:
        import skepticoin.wallet as w           # noqa
        import skepticoin.scripts.utils as u    # noqa (imports blockstore -> creates chain.db in the scratch cwd)
    finally:
        sys.stdout = out


def arm_line_exit(funcs, k, counter):
    """os._exit(9) at the k-th statement boundary inside the given functions (k=0: only count)"""
    mon = sys.monitoring
    tool = mon.DEBUGGER_ID
    mon.use_tool_id(tool, "skv-crash")

    def on_line(code, line):
        counter[0] += 1
        if k and counter[0] == k:
            os._exit(9)
    mon.register_callback(tool, mon.events.LINE, on_line)
    for f in funcs:
        mon.set_local_events(tool, f.__code__, mon.events.LINE)


def main():
    mode = sys.argv[1]
    args = sys.argv[2:]
    opts = {}
    while args and args[0].startswith("--"):
        opts[args[0][2:]] = args[1]
        args = args[2:]
    if mode == "prepare-wallet":
        n = int(args[0])
        quiet_import()
        from skepticoin.wallet import Wallet, save_wallet
        w = Wallet.empty()
        if n <= 50:
            w.generate_keys(n)
        else:
            for _ in range(n):          # wallet files do not validate key material: random bytes are enough here
                pk = os.urandom(64)
                w.keypairs[pk] = os.urandom(32)
                w.unused_public_keys.append(pk)
        for i in range(min(3, n // 2)):
            w.get_annotated_public_key("note %d" % i)
        save_wallet(w)
        return
    if mode == "save-wallet":
        quiet_import()
        import skepticoin.wallet as wm
        w = wm.Wallet.load(open("wallet.json"))
        w.get_annotated_public_key("handed out before the save")
        counter = [0]
        if "exit-at-line" in opts or "count-lines" in opts:
            arm_line_exit([wm.save_wallet, wm.Wallet.dump], int(opts.get("exit-at-line", 0)), counter)
        mark(MARK_BEGIN)
        wm.save_wallet(w)
        mark(MARK_END)
        if "count-lines" in opts:
            print("LINES %d" % counter[0])
        return
    if mode == "save-wallet-followup":
        # the process restarted after a crash: load whatever wallet.json holds, hand out a key with a SHORT annotation
        # (so that the serialised wallet is shorter than a file a crashed save may have left behind) and save
        quiet_import()
        import skepticoin.wallet as wm
        w = wm.Wallet.load(open("wallet.json"))
        w.get_annotated_public_key("x")
        with open("expected.json", "w") as f:
            w.dump(f)
        wm.save_wallet(w)
        return
    if mode == "restart-open":
        # what every script of the package does first after a restart: open the wallet the documented way (nothing else)
        quiet_import()
        from skepticoin.scripts.utils import open_or_init_wallet
        out = sys.stdout
        sys.stdout = io.StringIO()
        try:
            w = open_or_init_wallet()
        finally:
            sys.stdout = out
        print("KEYS %d" % len(w.keypairs))
        return
    if mode == "receive":
        quiet_import()
        import skepticoin.scripts.receive as rc
        sys.argv = ["skepticoin-receive", args[0]]
        mark(MARK_BEGIN)
        rc.main()
        mark(MARK_END)
        return
    if mode == "load-peers":
        # a node starting up reads its peer book
        quiet_import()
        from skepticoin.networking.disk_interface import DiskInterface
        out = sys.stdout
        sys.stdout = io.StringIO()
        try:
            book = DiskInterface().load_peers()
        finally:
            sys.stdout = out
        print("BOOK " + json.dumps(sorted([list(k) for k in book.keys()])))
        return
    if mode == "write-peers":
        quiet_import()
        from skepticoin.networking.disk_interface import DiskInterface
        from skepticoin.networking.remote_peer import RemotePeer
        import skepticoin.networking.disk_interface as dm
        counter = [0]
        if "exit-at-line" in opts or "count-lines" in opts:
            arm_line_exit([dm.DiskInterface.write_peers], int(opts.get("exit-at-line", 0)), counter)
        d = DiskInterface()
        peer = RemotePeer(args[0], int(args[1]), "OUTGOING", None, 0)
        mark(MARK_BEGIN)
        d.write_peers(peer)
        mark(MARK_END)
        if "count-lines" in opts:
            print("LINES %d" % counter[0])
        return
    raise SystemExit("unknown mode")


if __name__ == "__main__":
    main()
