"""Independent reference model of skepticoin's consensus data and rules.

Written from the property statements and the documented parameters.  Shares no
code with /repo/skepticoin (imports nothing from it).  Trusted third parties:
hashlib, ecdsa, struct.  Anchored to recorded network data by selftest().
"""
import hashlib
import struct

import ecdsa

# ---- documented constants, as literals (never imported from the repo) -------
SASHIMI_PER_COIN = 100_000_000
INITIAL_SUBSIDY = 10 * SASHIMI_PER_COIN
HALVING_INTERVAL = 1_050_000
MAX_SASHIMI = 2_099_999_986_350_000
MAX_BLOCK_SIZE = 200_000
MAX_COINBASE_DATA = 200
RETARGET_PERIOD = 10_080
RETARGET_TIMESPAN = 1_209_600
MAX_FUTURE = 30
INITIAL_TARGET = (1 << 248).to_bytes(32, "big")
SAMPLE_COUNT = 8
SAMPLE_SIZE = 4
ZERO32 = b"\x00" * 32
MAGIC = b"MAJI"
MAX_MESSAGE_SIZE = 32 * 1024 * 1024
MSG_HEADER_LEN = 1 + 4 + 4 + 4 + 8 + 32
SECP_ORDER = 0xFFFFFFFFFFFFFFFFFFFFFFFFFFFFFFFEBAAEDCE6AF48A03BBFD25E8CD0364141


class Params:
    """retarget parameters; the defaults are the documented ones"""

    def __init__(self, period=RETARGET_PERIOD, timespan=RETARGET_TIMESPAN):
        self.period = period
        self.timespan = timespan


DEFAULT_PARAMS = Params()


class RefDecodeError(Exception):
    pass


def sha256d(b):
    return hashlib.sha256(hashlib.sha256(b).digest()).digest()


def blake2b32(b):
    return hashlib.blake2b(b, digest_size=32).digest()


def real_scrypt(password, salt):
    import scrypt as _scrypt  # the library, with the documented parameters
    return _scrypt.hash(password, salt, N=1 << 15, r=8, p=1, buflen=32)


def standin_scrypt(password, salt):
    """cheap keyed stand-in used by bulk lanes (see DESIGN 2.2)"""
    return hashlib.blake2b(salt + password, digest_size=32, key=b"skv-standin").digest()


# ---- variable length quantity ------------------------------------------------
def vlq_enc(n):
    """Network encoding: big-endian base-128, continuation bit on all but the last
    octet, and (bit_length // 7) + 1 octets -- i.e. one leading 0x80 octet when the
    bit length is a multiple of 7.  That quirk is the network's wire format."""
    if n < 0:
        raise ValueError("negative")
    k = n.bit_length() // 7 + 1
    out = bytearray()
    for j in range(k - 1, -1, -1):
        out.append(((n >> (7 * j)) & 0x7F) | (0x80 if j else 0))
    return bytes(out)


def vlq_dec(b, pos, strict=True):
    n = 0
    start = pos
    while True:
        if pos >= len(b):
            raise RefDecodeError("truncated vlq")
        o = b[pos]
        pos += 1
        n = (n << 7) | (o & 0x7F)
        if o < 0x80:
            break
        if pos - start > 20:
            raise RefDecodeError("vlq too long")
    if strict and vlq_enc(n) != b[start:pos]:
        raise RefDecodeError("non canonical vlq")
    return n, pos


def _take(b, pos, n):
    if pos + n > len(b):
        raise RefDecodeError("truncated")
    return b[pos:pos + n], pos + n


# ---- transactions ------------------------------------------------------------
SIG_EQ, SIG_CB, SIG_EC = 0, 1, 2


class RTx:
    """inputs: list of (ref_hash, ref_index, sig) with sig = (SIG_EQ,) | (SIG_CB, height, data) |
    (SIG_EC, 64 bytes); outputs: list of (value, key64)"""

    __slots__ = ("inputs", "outputs", "_enc", "_id")

    def __init__(self, inputs, outputs):
        self.inputs = list(inputs)
        self.outputs = list(outputs)
        self._enc = None
        self._id = None

    def enc(self):
        if self._enc is None:
            out = [b"\x00", vlq_enc(len(self.inputs))]
            for (h, i, sig) in self.inputs:
                out.append(h)
                out.append(struct.pack(">I", i))
                out.append(enc_sig(sig))
            out.append(vlq_enc(len(self.outputs)))
            for (v, k) in self.outputs:
                out.append(struct.pack(">Q", v))
                out.append(b"\x02" + k)
            self._enc = b"".join(out)
        return self._enc

    def id(self):
        if self._id is None:
            self._id = sha256d(self.enc())
        return self._id

    def signable_bytes(self):
        """what is signed: the transaction with every signature replaced by the one-byte
        placeholder -- all references, all outputs"""
        return RTx([(h, i, (SIG_EQ,)) for (h, i, _s) in self.inputs], self.outputs).enc()

    def refs(self):
        return [(h, i) for (h, i, _s) in self.inputs]

    def is_reward_shaped(self):
        return len(self.inputs) == 1 and self.inputs[0][0] == ZERO32 and self.inputs[0][1] == 0

    def out_total(self):
        return sum(v for v, _k in self.outputs)


def enc_sig(sig):
    if sig[0] == SIG_EQ:
        return b"\x00"
    if sig[0] == SIG_CB:
        if len(sig[2]) > 255:
            raise ValueError("unencodable")
        return b"\x01" + struct.pack(">I", sig[1]) + bytes([len(sig[2])]) + sig[2]
    if sig[0] == SIG_EC:
        return b"\x02" + sig[1]
    raise ValueError(sig)


def dec_sig(b, pos):
    t, pos = _take(b, pos, 1)
    if t == b"\x00":
        return (SIG_EQ,), pos
    if t == b"\x01":
        hb, pos = _take(b, pos, 4)
        lb, pos = _take(b, pos, 1)
        d, pos = _take(b, pos, lb[0])
        return (SIG_CB, struct.unpack(">I", hb)[0], d), pos
    if t == b"\x02":
        s, pos = _take(b, pos, 64)
        return (SIG_EC, s), pos
    raise RefDecodeError("signature tag")


def dec_tx(b, pos=0, strict=True):
    v, pos = _take(b, pos, 1)
    if v != b"\x00":
        raise RefDecodeError("tx version")
    n, pos = vlq_dec(b, pos, strict)
    ins = []
    for _ in range(n):
        h, pos = _take(b, pos, 32)
        ib, pos = _take(b, pos, 4)
        sig, pos = dec_sig(b, pos)
        ins.append((h, struct.unpack(">I", ib)[0], sig))
    n, pos = vlq_dec(b, pos, strict)
    outs = []
    for _ in range(n):
        vb, pos = _take(b, pos, 8)
        t, pos = _take(b, pos, 1)
        if t != b"\x02":
            raise RefDecodeError("key tag")
        k, pos = _take(b, pos, 64)
        outs.append((struct.unpack(">Q", vb)[0], k))
    return RTx(ins, outs), pos


# ---- blocks --------------------------------------------------------------------
class RBlock:
    __slots__ = ("height", "prev", "merkle", "ts", "target", "nonce", "sh", "cs", "bh", "txs", "_enc", "_id")

    def __init__(self, height, prev, merkle, ts, target, nonce, sh, cs, bh, txs):
        self.height, self.prev, self.merkle, self.ts = height, prev, merkle, ts
        self.target, self.nonce, self.sh, self.cs, self.bh = target, nonce, sh, cs, bh
        self.txs = list(txs)
        self._enc = None
        self._id = None

    def summary_enc(self):
        return (vlq_enc(self.height) + self.prev + self.merkle + struct.pack(">I", self.ts)
                + self.target + struct.pack(">I", self.nonce))

    def header_enc(self):
        return b"\x00" + self.summary_enc() + self.sh + self.cs + self.bh

    def txlist_enc(self):
        return vlq_enc(len(self.txs)) + b"".join(t.enc() for t in self.txs)

    def enc(self):
        if self._enc is None:
            self._enc = self.header_enc() + self.txlist_enc()
        return self._enc

    def id(self):
        if self._id is None:
            self._id = sha256d(self.header_enc())
        return self._id


def dec_header(b, pos=0, strict=True):
    v, pos = _take(b, pos, 1)
    if v != b"\x00":
        raise RefDecodeError("block version")
    height, pos = vlq_dec(b, pos, strict)
    prev, pos = _take(b, pos, 32)
    merkle, pos = _take(b, pos, 32)
    tsb, pos = _take(b, pos, 4)
    target, pos = _take(b, pos, 32)
    nb, pos = _take(b, pos, 4)
    sh, pos = _take(b, pos, 32)
    cs, pos = _take(b, pos, 32)
    bh, pos = _take(b, pos, 32)
    return RBlock(height, prev, merkle, struct.unpack(">I", tsb)[0], target,
                  struct.unpack(">I", nb)[0], sh, cs, bh, []), pos


def dec_block(b, pos=0, strict=True):
    blk, pos = dec_header(b, pos, strict)
    n, pos = vlq_dec(b, pos, strict)
    if n > len(b):
        raise RefDecodeError("tx count")
    for _ in range(n):
        t, pos = dec_tx(b, pos, strict)
        blk.txs.append(t)
    return blk, pos


def parse_block(b):
    blk, pos = dec_block(b)
    if pos != len(b):
        raise RefDecodeError("trailing data")
    return blk


def parse_tx(b):
    t, pos = dec_tx(b)
    if pos != len(b):
        raise RefDecodeError("trailing data")
    return t


# ---- merkle ----------------------------------------------------------------------
def merkle_root(ids):
    """pairwise double-SHA256; an odd element is promoted unchanged (never duplicated)"""
    if not ids:
        raise ValueError("empty")
    level = list(ids)
    while len(level) > 1:
        nxt = []
        for i in range(0, len(level), 2):
            if i + 1 < len(level):
                nxt.append(sha256d(level[i] + level[i + 1]))
            else:
                nxt.append(level[i])
        level = nxt
    return level[0]


# ---- money --------------------------------------------------------------------------
def subsidy(height):
    era = height // HALVING_INTERVAL
    if era >= 64:
        return 0
    return INITIAL_SUBSIDY >> era


def retarget(prev_target, elapsed, params=DEFAULT_PARAMS):
    r = int.from_bytes(prev_target, "big") * elapsed // params.timespan
    if r > (1 << 256) - 1:
        r = (1 << 256) - 1
    return r.to_bytes(32, "big")


# ---- chain store + ledger replay ------------------------------------------------------
class RefChain:
    def __init__(self, params=DEFAULT_PARAMS, scrypt_fn=standin_scrypt, ledger_cache=True):
        self.params = params
        self.scrypt_fn = scrypt_fn
        self.blocks = {}
        self.order = []          # ids in insertion order
        self._ledger = {}
        self._idx = {}
        self.ledger_cache = ledger_cache

    def add(self, blk):
        bid = blk.id()
        if bid not in self.blocks:
            self.blocks[bid] = blk
            self.order.append(bid)
        return bid

    def ancestors(self, bid):
        """ids from genesis to bid inclusive"""
        out = []
        while bid != ZERO32:
            out.append(bid)
            bid = self.blocks[bid].prev
        out.reverse()
        return out

    def _index(self, bid):
        """ids of bid's ancestors by height (small LRU so that long prefixes stay cheap)"""
        idx = self._idx.get(bid)
        if idx is None:
            blk = self.blocks[bid]
            pidx = self._idx.get(blk.prev)
            if pidx is not None and blk.height == len(pidx):
                idx = pidx + [bid]
            else:
                idx = self.ancestors(bid)
                if any(self.blocks[x].height != n for n, x in enumerate(idx)):
                    idx = None      # stored heights are inconsistent: fall back to walking
            if idx is not None:
                self._idx[bid] = idx
                if len(self._idx) > 48:
                    self._idx.pop(next(iter(self._idx)))
        return idx

    def ancestor_at(self, bid, height):
        idx = self._index(bid)
        if idx is not None:
            if not (0 <= height < len(idx)):
                raise KeyError(height)
            return self.blocks[idx[height]]
        blk = self.blocks[bid]
        while blk.height > height:
            blk = self.blocks[blk.prev]
        if blk.height != height:
            raise KeyError(height)
        return blk

    def ledger_at(self, bid):
        """unspent outputs after block bid: replay of its ancestors from genesis"""
        if bid == ZERO32:
            return {}
        if bid in self._ledger:
            return self._ledger[bid]
        path = []
        cur = bid
        while cur != ZERO32 and cur not in self._ledger:
            path.append(cur)
            cur = self.blocks[cur].prev
        led = dict(self._ledger[cur]) if cur != ZERO32 else {}
        for x in reversed(path):
            led = apply_block(led, self.blocks[x])
            if self.ledger_cache:
                self._ledger[x] = led
                led = dict(led)
        return self._ledger[bid] if self.ledger_cache else led

    def replay_uncached(self, bid):
        led = {}
        for x in self.ancestors(bid):
            led = apply_block(led, self.blocks[x], copy=False)
        return led

    def balances_at(self, bid):
        led = self.ledger_at(bid)
        out = {}
        for (ref, (v, k)) in led.items():
            tot, refs = out.get(k, (0, set()))
            refs = set(refs)
            refs.add(ref)
            out[k] = (tot + v, refs)
        return out

    def tips(self):
        parents = {b.prev for b in self.blocks.values()}
        return {bid for bid in self.blocks if bid not in parents}


def apply_block(ledger, blk, copy=True):
    led = dict(ledger) if copy else ledger
    for n, tx in enumerate(blk.txs):
        if n > 0:
            for r in tx.refs():
                del led[r]          # KeyError = spends something not there
        tid = tx.id()
        for i, (v, k) in enumerate(tx.outputs):
            led[(tid, i)] = (v, k)
    return led


# ---- evidence ------------------------------------------------------------------------
def chain_sample(summary_hash, height, block_bytes_at):
    out = []
    h = summary_hash
    for i in range(SAMPLE_COUNT):
        sel = int.from_bytes(h[:8], "big") % height
        bb = block_bytes_at(sel)
        start = int.from_bytes(h[8:12], "big") % len(bb)
        piece = b""
        while len(piece) < SAMPLE_SIZE:
            piece += bb[start:start + SAMPLE_SIZE - len(piece)]
            start = 0
        out.append(piece)
        if i != SAMPLE_COUNT - 1:
            h = sha256d(h + piece)
    return b"".join(out)


def evidence(chain, blk, scrypt_fn=None):
    """(summary_hash, chain_sample, block_hash) recomputed from the block's summary, the
    ancestors its summary hash selects, and its full transaction list"""
    scrypt_fn = scrypt_fn or chain.scrypt_fn
    sh = scrypt_fn(blk.summary_enc(), blk.height.to_bytes(8, "big"))
    if blk.height == 0:
        cs = b"\x00" * (SAMPLE_COUNT * SAMPLE_SIZE)
    else:
        cs = chain_sample(sh, blk.height, lambda h: chain.ancestor_at(blk.prev, h).enc())
    bh = blake2b32(sh + cs + blk.txlist_enc())
    return sh, cs, bh


def expected_target(chain, parent, ts, params=None):
    """target the retarget rule prescribes for a child of `parent` with timestamp ts"""
    params = params or chain.params
    height = parent.height + 1
    if height % params.period == 0:
        start = chain.ancestor_at(parent.id(), height - params.period)
        return retarget(parent.target, ts - start.ts, params)
    return parent.target


# ---- signatures ------------------------------------------------------------------------
def sig_ok(key64, sig64, message):
    try:
        vk = ecdsa.VerifyingKey.from_string(key64, curve=ecdsa.SECP256k1, hashfunc=hashlib.sha1)
        return bool(vk.verify(sig64, message, hashfunc=hashlib.sha1))
    except ecdsa.keys.BadSignatureError:
        return False
    except Exception:
        return False    # not a curve point, malformed: cannot verify


def sign(sk_bytes, message, k=None):
    sk = ecdsa.SigningKey.from_string(sk_bytes, curve=ecdsa.SECP256k1, hashfunc=hashlib.sha1)
    if k is not None:
        return sk.sign(message, k=k, hashfunc=hashlib.sha1)
    return sk.sign_deterministic(message, hashfunc=hashlib.sha1)


def sign_tx(tx, ledger, sk_by_pk):
    msg = tx.signable_bytes()
    ins = []
    for (h, i, _s) in tx.inputs:
        _v, key = ledger[(h, i)]
        ins.append((h, i, (SIG_EC, sign(sk_by_pk[key], msg))))
    return RTx(ins, tx.outputs)


# ---- rule checking -----------------------------------------------------------------------
SPEND_CODES = {"missing-input", "badsig", "dup-ref-tx", "dup-ref-block", "nullref", "nonsig", "tx-noin"}
VALUE_CODES = {"reward", "overspend", "tx-range", "tx-noout", "cb-shape", "cb-position", "extra-reward"}
HEADER_CODES = {"pow", "future", "parent-unknown", "ts-order", "target", "evidence", "height", "cb-height"}


def tx_codes_by_itself(tx):
    """rule codes an ordinary (non-reward) transaction breaks on its own"""
    codes = set()
    if not tx.inputs:
        codes.add("tx-noin")
    if not tx.outputs:
        codes.add("tx-noout")
    if len(tx.enc()) > MAX_BLOCK_SIZE:
        codes.add("tx-size")
    tot = 0
    for v, _k in tx.outputs:
        if not (0 < v <= MAX_SASHIMI):
            codes.add("tx-range")
        tot += v
    if tx.outputs and not (0 < tot <= MAX_SASHIMI):
        codes.add("tx-range")
    refs = tx.refs()
    if len(set(refs)) != len(refs):
        codes.add("dup-ref-tx")
    for (h, i, sig) in tx.inputs:
        if h == ZERO32 and i == 0:
            codes.add("nullref")
        if sig[0] != SIG_EC:
            codes.add("nonsig")
    return codes


def tx_codes_in_ledger(tx, ledger):
    """rule codes an ordinary transaction breaks against a ledger (unspent-output dict)"""
    codes = set()
    tot_in = 0
    msg = None
    for (h, i, sig) in tx.inputs:
        if (h, i) not in ledger:
            codes.add("missing-input")
            continue
        v, key = ledger[(h, i)]
        tot_in += v
        if sig[0] != SIG_EC:
            codes.add("badsig")
        else:
            if msg is None:
                msg = tx.signable_bytes()
            if not sig_ok(key, sig[1], msg):
                codes.add("badsig")
    if "missing-input" not in codes and tx.out_total() > tot_in:
        codes.add("overspend")
    return codes


def tx_fee(tx, ledger):
    return sum(ledger[r][0] for r in tx.refs()) - tx.out_total()


def block_codes(chain, blk, now, scrypt_fn=None, check_evidence=True):
    """Every rule of C01/C02/C05 the block breaks, given the stored ancestors in `chain`."""
    codes = set()
    if not blk.id() < blk.target:
        codes.add("pow")
    if blk.ts > now + MAX_FUTURE:
        codes.add("future")
    if not blk.txs:
        codes.add("notx")
        return codes
    if len(blk.enc()) > MAX_BLOCK_SIZE:
        codes.add("size")
    cb = blk.txs[0]
    if not cb.is_reward_shaped() or cb.inputs[0][2][0] != SIG_CB:
        codes.add("cb-shape")
    else:
        if len(cb.inputs[0][2][2]) > MAX_COINBASE_DATA:
            codes.add("cb-datasize")
        if cb.inputs[0][2][1] != blk.height:
            codes.add("cb-height")
    for tx in blk.txs[1:]:
        codes |= tx_codes_by_itself(tx)
    ids = [t.id() for t in blk.txs[1:]]
    if len(set(ids)) != len(ids):
        codes.add("dup-tx")
    allrefs = [r for t in blk.txs[1:] for r in t.refs()]
    if len(set(allrefs)) != len(allrefs):
        codes.add("dup-ref-block")
    if merkle_root([t.id() for t in blk.txs]) != blk.merkle:
        codes.add("merkle")
    # in state
    if blk.prev not in chain.blocks:
        codes.add("parent-unknown")
        return codes
    parent = chain.blocks[blk.prev]
    if not blk.ts > parent.ts:
        codes.add("ts-order")
    if blk.height != parent.height + 1:
        codes.add("height")
    if blk.target != expected_target(chain, parent, blk.ts):
        codes.add("target")
    if check_evidence:
        # evidence sampling is defined relative to the height the block claims
        try:
            if (blk.sh, blk.cs, blk.bh) != evidence(chain, blk, scrypt_fn):
                codes.add("evidence")
        except (KeyError, ZeroDivisionError):
            codes.add("evidence")
    ledger = chain.ledger_at(blk.prev)
    fees = 0
    fees_ok = True
    for tx in blk.txs[1:]:
        c = tx_codes_in_ledger(tx, ledger)
        codes |= c
        if "missing-input" in c:
            fees_ok = False
        else:
            fees += tx_fee(tx, ledger)
    if fees_ok and cb.out_total() > subsidy(parent.height + 1) + fees:
        codes.add("reward")
    return codes


# ---- wire framing ------------------------------------------------------------------------
def parse_frames(stream):
    """Returns (payloads, refused_at, rest).  payloads: list of complete frame payloads before any
    refusal; refused_at: None or ('magic'|'length', offset); rest: trailing incomplete bytes"""
    pos = 0
    out = []
    n = len(stream)
    while True:
        if n - pos < 4:
            return out, None, stream[pos:]
        if stream[pos:pos + 4] != MAGIC:
            return out, ("magic", pos), b""
        if n - pos < 8:
            return out, None, stream[pos:]
        ln = struct.unpack(">I", stream[pos + 4:pos + 8])[0]
        if ln > MAX_MESSAGE_SIZE:
            return out, ("length", pos), b""
        if n - pos - 8 < ln:
            return out, None, stream[pos:]
        out.append(stream[pos + 8:pos + 8 + ln])
        pos += 8 + ln


def frame(payload):
    return MAGIC + struct.pack(">I", len(payload)) + payload


def msg_header(timestamp, mid, in_response_to, context):
    return (b"\x00" + struct.pack(">I", timestamp) + struct.pack(">I", mid) + struct.pack(">I", in_response_to)
            + struct.pack(">Q", context) + b"\x00" * 32)


def parse_msg_header(payload):
    if len(payload) < MSG_HEADER_LEN:
        raise RefDecodeError("short header")
    ts, mid, irt = struct.unpack(">III", payload[1:13])
    ctx = struct.unpack(">Q", payload[13:21])[0]
    return {"version": payload[0], "timestamp": ts, "id": mid, "in_response_to": irt, "context": ctx}, \
        payload[MSG_HEADER_LEN:]


MSG_NAMES = {0: "hello", 1: "get_blocks", 2: "inventory", 3: "get_data", 4: "data", 5: "get_peers", 6: "peers"}


def parse_message(body):
    """minimal independent decoder of message bodies -> dict (only what the monitors need)"""
    if len(body) < 2:
        raise RefDecodeError("short")
    t = struct.unpack(">H", body[:2])[0]
    if t not in MSG_NAMES:
        raise RefDecodeError("type")
    name = MSG_NAMES[t]
    out = {"type": name}
    b = body
    pos = 2
    if name == "hello":
        pos += 1
        _, pos = _take(b, pos, 16)
        yp, pos = _take(b, pos, 2)
        _, pos = _take(b, pos, 16)
        mp, pos = _take(b, pos, 2)
        nb, pos = _take(b, pos, 4)
        out.update(your_port=struct.unpack(">H", yp)[0], my_port=struct.unpack(">H", mp)[0],
                   nonce=struct.unpack(">I", nb)[0])
        return out
    v, pos = _take(b, pos, 1)
    if v != b"\x00":
        raise RefDecodeError("version")
    if name == "get_blocks":
        n, pos = vlq_dec(b, pos, strict=False)
        hs = []
        for _ in range(n):
            h, pos = _take(b, pos, 32)
            hs.append(h)
        stop, pos = _take(b, pos, 32)
        out.update(hashes=hs, stop=stop)
    elif name == "inventory":
        n, pos = vlq_dec(b, pos, strict=False)
        items = []
        for _ in range(n):
            dt, pos = _take(b, pos, 2)
            h, pos = _take(b, pos, 32)
            items.append((dt, h))
        out.update(items=items)
    elif name == "get_data":
        dt, pos = _take(b, pos, 2)
        h, pos = _take(b, pos, 32)
        out.update(data_type=dt, hash=h)
    elif name == "data":
        dt, pos = _take(b, pos, 2)
        out.update(data_type=dt, raw=b[pos:])
        if dt == b"\x00\x00":
            blk, _p = dec_block(b, pos, strict=False)
            out.update(kind="block", id=blk.id(), block=blk)
        elif dt == b"\x00\x02":
            tx, _p = dec_tx(b, pos, strict=False)
            out.update(kind="transaction", id=tx.id(), tx=tx)
        elif dt == b"\x00\x01":
            out.update(kind="header")
        else:
            raise RefDecodeError("data type")
    elif name == "peers":
        n, pos = vlq_dec(b, pos, strict=False)
        peers = []
        for _ in range(n):
            rec, pos = _take(b, pos, 22)
            peers.append(rec)
        out.update(peers=peers)
    return out


# ---- self test against recorded network data -------------------------------------------------
GENESIS_ID = bytes.fromhex("00c4ff1d0788c7058f3d8388d77b2feda0921fa141078fb895871634e0c36780")


def selftest(genesis_bytes, recorded):
    """recorded: list of (height, id_hex_from_file_name, bytes).  Raises AssertionError when the
    reference disagrees with recorded network data."""
    g = parse_block(genesis_bytes)
    assert g.enc() == genesis_bytes, "genesis re-encode"
    assert g.id() == GENESIS_ID, "genesis id"
    assert g.height == 0 and g.prev == ZERO32
    assert merkle_root([t.id() for t in g.txs]) == g.merkle, "genesis merkle"
    assert g.target == INITIAL_TARGET
    assert g.txs[0].outputs[0][0] == subsidy(0) == 1_000_000_000
    prev = g
    for (height, idhex, raw) in sorted(recorded):
        b = parse_block(raw)
        assert b.enc() == raw, "recorded block re-encode"
        assert b.id().hex() == idhex, "recorded block id"
        assert b.height == height and b.prev == prev.id(), "recorded linkage"
        assert merkle_root([t.id() for t in b.txs]) == b.merkle, "recorded merkle"
        prev = b
    assert vlq_enc(0) == b"\x00" and vlq_enc(63) == b"\x3f" and vlq_enc(128) == b"\x81\x00"
    assert vlq_enc(127) == b"\x80\x7f"   # the documented quirk
    return True
