"""Bootstrap for worker processes: put the repo's working tree on sys.path, run from a scratch
cwd (importing skepticoin.blockstore creates chain.db in the cwd), apply the configuration
substitutions of DESIGN 2.2.  Nothing here edits the repository."""
import hashlib
import io
import logging
import os
import sys

VERIF_DIR = os.path.dirname(os.path.dirname(os.path.abspath(__file__)))
REPO = os.environ.get("VERIF_REPO", "/repo")
GUARD = "SKEPTICOIN_VERIF"

ASSUMPTIONS = []


def _note(s):
    if s not in ASSUMPTIONS:
        ASSUMPTIONS.append(s)


def repo_on_path():
    if REPO not in sys.path:
        sys.path.insert(0, REPO)
    deps = os.path.join(VERIF_DIR, ".deps")
    if os.path.isdir(deps) and deps not in sys.path:
        sys.path.append(deps)
    os.environ[GUARD] = "1"


def standin_scrypt(password, salt):
    return hashlib.blake2b(salt + password, digest_size=32, key=b"skv-standin").digest()


def deterministic_signatures():
    """ECDSA signing draws a fresh random number per signature, so two runs of one seed produced different transaction
    bytes, block ids and nonces.  The harness makes every signature the deterministic (RFC 6979) one: still an ordinary valid
    signature for the code under test, but a run is now a function of its seed (VERIF_NONDETERMINISTIC_SIGNATURES=1 turns
    this off)."""
    if os.environ.get("VERIF_NONDETERMINISTIC_SIGNATURES"):
        return
    import ecdsa
    if getattr(ecdsa.SigningKey, "_skv_deterministic", False):
        return
    det = ecdsa.SigningKey.sign_deterministic

    def sign(self, data, entropy=None, hashfunc=None, sigencode=ecdsa.util.sigencode_string, k=None, allow_truncate=True):
        if k is not None or entropy is not None:
            return _orig(self, data, entropy=entropy, hashfunc=hashfunc, sigencode=sigencode, k=k, allow_truncate=allow_truncate)
        return det(self, data, hashfunc=hashfunc, sigencode=sigencode)
    _orig = ecdsa.SigningKey.sign
    ecdsa.SigningKey.sign = sign
    ecdsa.SigningKey._skv_deterministic = True
    _note("ECDSA signatures made by the workload are the deterministic RFC 6979 ones, so that a run is reproducible from its seed")


def boot(fake_scrypt=True, horizon_off=True, quiet=True):
    """import the real package with the substitutions; returns the consensus module"""
    repo_on_path()
    assert os.getcwd() != REPO and not os.getcwd().startswith(VERIF_DIR), "run workers from a scratch cwd"
    if quiet:
        logging.disable(logging.CRITICAL)
    _out = sys.stdout
    sys.stdout = io.StringIO()       # blockstore prints on import
    try:
        import skepticoin.consensus as consensus
        import skepticoin.hash as shash
    finally:
        sys.stdout = _out
    assert os.path.abspath(consensus.__file__).startswith(os.path.abspath(REPO)), consensus.__file__
    deterministic_signatures()
    if fake_scrypt:
        consensus.scrypt = standin_scrypt
        shash.scrypt = standin_scrypt
        _note("scrypt replaced by a keyed blake2b stand-in in this lane (C18 and real-scrypt lanes use the real one)")
    if horizon_off:
        consensus.MAX_KNOWN_HASH_HEIGHT = -1
        consensus.KNOWN_HASHES = {}
        _note("checkpoint horizon disabled (MAX_KNOWN_HASH_HEIGHT=-1) so that generated low chains get full "
              "validation; C18 exercises the real table")
    return consensus


def set_retarget(period, timespan=None):
    import skepticoin.consensus as consensus
    consensus.BLOCKS_BETWEEN_TARGET_READJUSTMENT = period
    if timespan is not None:
        consensus.DESIRED_TARGET_READJUSTMENT_TIMESPAN = timespan
    _note("configuration lane: retarget period %s" % period)


def genesis_bytes():
    from skepticoin.genesis import genesis_block_data
    return genesis_block_data


def recorded_blocks():
    d = os.path.join(REPO, "tests", "testdata", "chain")
    out = []
    for name in sorted(os.listdir(d)):
        h, idhex = name.split("-")
        with open(os.path.join(d, name), "rb") as f:
            out.append((int(h), idhex, f.read()))
    return out
