"""One real node (LocalPeer + managers + real DiskInterface + real file-backed BlockStore seeded with the
world's blocks) on the in-memory transport, with greeted harness peers."""
import io
import os
import sqlite3
import sys

from skv import simnet


def quiet(fn, *a, **k):
    out = sys.stdout
    sys.stdout = io.StringIO()
    try:
        return fn(*a, **k)
    finally:
        sys.stdout = out


class SingleNode:
    def __init__(self, world, rng, tag, npeers=3, addr=("10.0.0.1", 2412), with_store=True):
        from skepticoin.networking.disk_interface import DiskInterface
        from skepticoin.blockstore import BlockStore
        import skepticoin.blockstore as bs
        self.world, self.rng = world, rng
        self.path = os.path.join(os.getcwd(), "node-%s.db" % tag)
        for suffix in ("", "-journal"):
            if os.path.exists(self.path + suffix):
                os.remove(self.path + suffix)
        self.store = quiet(BlockStore, self.path)
        bs.DefaultBlockStore.instance = self.store
        try:
            self.store.write_blocks_to_disk([world.real[b] for b in world.chain.order[1:]])
        except Exception:
            pass

        class Disk(DiskInterface):
            def save_transaction_for_debugging(self, transaction):     # keep /tmp clean
                pass
        self.net = simnet.Net(rng)
        self.net.clock.t = max(b.ts for b in world.chain.blocks.values()) + 100
        world.now = self.net.clock.t
        self.node = self.net.add_node("N", addr, world.cs, Disk())
        self.lp = self.node.lp
        self.cm = self.lp.chain_manager
        self.nm = self.lp.network_manager
        self.wire = simnet.Wire(self.net.clock)
        self.peers = []
        for _ in range(npeers):
            self.add_peer()
        self.ro = sqlite3.connect("file:%s?mode=ro" % self.path, uri=True)

    def add_peer(self, greet=True):
        i = len(self.peers)
        raw = self.net.raw_connect(self.node, src=("10.7.%d.%d" % (i // 200, i % 200 + 1), 40000 + i))
        if greet:
            simnet.greet(self.net, self.node, raw, self.wire, nonce=1000 + i)
        self.peers.append(raw)
        return raw

    def is_active(self, raw):
        return any(p.sock is raw.peer for p in self.nm.get_active_peers())

    def active(self):
        return [r for r in self.peers if self.is_active(r)]

    def settle(self, fragment=False):
        return self.net.settle(self.node, fragment=fragment)

    def chain_rows(self):
        return [bytes(r[0]) for r in self.ro.execute("select block_hash from chain")]

    def table_counts(self):
        return tuple(self.ro.execute("select count(*) from %s" % t).fetchone()[0]
                     for t in ("chain", "transaction_locator", "transaction_inputs", "transaction_outputs"))

    def pool(self):
        return list(self.cm.get_state()[1])

    def drain_outputs(self):
        return {id(r): simnet.Wire.parse(r.take_received())[0] for r in self.peers}

    def escaped(self):
        out = list(self.node.escaped)
        self.node.escaped.clear()
        return out

    def close(self):
        try:
            self.ro.close()
            self.store.close()
        finally:
            for suffix in ("", "-journal"):
                if os.path.exists(self.path + suffix):
                    os.remove(self.path + suffix)
