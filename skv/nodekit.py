"""One real node (LocalPeer + managers + real DiskInterface + real file-backed BlockStore seeded with the
world's blocks) on the in-memory transport, with greeted harness peers."""
import io
import os
import sqlite3
import sys

from skv import simnet


def quiet(fn, *a, **k):
    out = sys.stdout
    sys.stdout = io.StringIO()
    try:
        return fn(*a, **k)
    finally:
        sys.stdout = out


class SingleNode:
    def __init__(self, world, rng, tag, npeers=3, addr=("10.0.0.1", 2412), with_store=True):
        from skepticoin.networking.disk_interface import DiskInterface
        from skepticoin.blockstore import BlockStore
        import skepticoin.blockstore as bs
        self.world, self.rng = world, rng
        self.path = os.path.join(os.getcwd(), "node-%s.db" % tag)
        for suffix in ("", "-journal"):
            if os.path.exists(self.path + suffix):
                os.remove(self.path + suffix)
        self.store = quiet(BlockStore, self.path)
        bs.DefaultBlockStore.instance = self.store
        try:
            self.store.write_blocks_to_disk([world.real[b] for b in world.chain.order[1:]])
        except Exception:
            pass

        class Disk(DiskInterface):
            fail_debug_copy = False
            debug_copy_failures = 0

            def save_transaction_for_debugging(self, transaction):     # keep /tmp clean
                if self.fail_debug_copy:
                    # the debugging copy of a refused transaction cannot be written (disk full, no /tmp, read-only)
                    self.debug_copy_failures += 1
                    raise OSError(28, "No space left on device")
        self.disk = Disk()
        self.net = simnet.Net(rng)
        self.net.clock.t = max(b.ts for b in world.chain.blocks.values()) + 100
        world.now = self.net.clock.t
        self.node = self.net.add_node("N", addr, world.cs, self.disk)
        self.lp = self.node.lp
        self.cm = self.lp.chain_manager
        self.nm = self.lp.network_manager
        self.wire = simnet.Wire(self.net.clock)
        self.peers = []
        for _ in range(npeers):
            self.add_peer()
        self.ro = sqlite3.connect("file:%s?mode=ro" % self.path, uri=True)

    def add_peer(self, greet=True):
        i = len(self.peers)
        raw = self.net.raw_connect(self.node, src=("10.7.%d.%d" % (i // 200, i % 200 + 1), 40000 + i))
        if greet:
            simnet.greet(self.net, self.node, raw, self.wire, nonce=1000 + i)
        self.peers.append(raw)
        return raw

    def is_active(self, raw):
        return any(p.sock is raw.peer for p in self.nm.get_active_peers())

    def active(self):
        return [r for r in self.peers if self.is_active(r)]

    def settle(self, fragment=False):
        return self.net.settle(self.node, fragment=fragment)

    def chain_rows(self):
        return [bytes(r[0]) for r in self.ro.execute("select block_hash from chain")]

    def table_counts(self):
        return tuple(self.ro.execute("select count(*) from %s" % t).fetchone()[0]
                     for t in ("chain", "transaction_locator", "transaction_inputs", "transaction_outputs"))

    def pool(self):
        return list(self.cm.get_state()[1])

    def drain_outputs(self):
        return {id(r): simnet.Wire.parse(r.take_received())[0] for r in self.peers}

    def escaped(self):
        out = list(self.node.escaped)
        self.node.escaped.clear()
        return out

    def close(self):
        try:
            self.ro.close()
            self.store.close()
        finally:
            for suffix in ("", "-journal"):
                if os.path.exists(self.path + suffix):
                    os.remove(self.path + suffix)


class _StubQueue:
    def __init__(self):
        self.items = []

    def put(self, x):
        self.items.append(x)


def mine_with_real_miner(sn, world, rng, max_tries=20000):
    """lets the node find ONE block of its own through the real miner front end (MinerWatcher's two handlers, driven as a
    worker process would drive them); the reference world learns the block.  Returns the real block or None."""
    import skepticoin.mining as mining
    import skepticoin.consensus as cons
    import skepticoin.wallet as wm
    from decimal import Decimal
    from datetime import datetime
    from skepticoin.datatypes import Block, BlockHeader
    from skv import gen, bridge
    mining.time = sn.net.clock
    mining.sleep = lambda seconds, _c=sn.net.clock: setattr(_c, "t", _c.t + 1)     # waiting lets the virtual clock move on
    mk = gen.make_keys(3, tag=b"nodekit-miner")
    wallet = wm.Wallet({pk: sk for sk, pk in mk}, [pk for _s, pk in mk], {})

    class Thread:
        pass
    th = Thread()
    th.local_peer = sn.lp
    mw = mining.MinerWatcher.__new__(mining.MinerWatcher)

    class Args:
        quiet = True
    mw.args = Args()
    mw.recv_queue, mw.send_queues, mw.processes, mw.hash_stats = _StubQueue(), [_StubQueue()], [], {}
    mw.balance = mw.start_balance = Decimal(0)
    mw.start_time = datetime.fromtimestamp(sn.net.clock.t - 100)
    mw.wallet, mw.coinstate, mw.network_thread, mw.mining_args = wallet, sn.cm.coinstate, th, {}
    mw.public_key = wallet.get_annotated_public_key("reserved for potentially mined block")
    mw.log_silencer = []
    head_before = sn.cm.coinstate.current_chain_hash
    sn.net.clock.t = max(sn.net.clock.t, sn.cm.coinstate.head().timestamp + 1)
    start = rng.randrange(1 << 30)
    for k in range(max_tries):
        mw.send_queues[0].items.clear()
        quiet(mw.handle_request_scrypt_input_message, 0, start + k)
        _kind, (summary, height) = mw.send_queues[0].items[-1]
        sh = cons.construct_summary_hash(summary, height)
        cand, found = probe_candidate(mw, mining, 0, sh)
        if found:
            quiet(mw.handle_scrypt_output_message, 0, sh)
        if found:
            sn.settle()
            if sn.cm.coinstate.current_chain_hash == head_before:
                return None
            rb = bridge.real_to_rblock(cand)
            world.cs = world.cs.add_block_no_validation(cand)
            world.accept(rb, cand, cs=world.cs)
            return cand
    return None


class _Found(Exception):
    pass


def probe_candidate(mw, mining, miner_id, summary_hash):
    """the candidate block as the REAL found-block handler builds it for this scrypt result, without letting the handler go on:
    the handler's Block constructor is watched; a block whose id is below its target stops the handler before it adopts it.
    Returns (block, found?) -- block is None when the handler built none"""
    orig = mining.Block
    seen = []

    def spy(*a, **k):
        b = orig(*a, **k)
        seen.append(b)
        if b.hash() < b.target:
            raise _Found()
        return b
    mining.Block = spy
    try:
        quiet(mw.handle_scrypt_output_message, miner_id, summary_hash)
        return (seen[-1] if seen else None), False
    except _Found:
        return seen[-1], True
    finally:
        mining.Block = orig


def rebuild_through_store(world, rng, tag):
    """what a restarted node has: the world's blocks are written to a NEW file-backed block store (created by the code under
    test) in random batches, the store is re-opened and the chain state rebuilt by the repository's own loader.  Returns the
    rebuilt state, or None when the world contains a transaction id in two blocks (the listed C08 finding) or the store
    refuses"""
    import io
    import sys
    import skepticoin.blockstore as bs
    import skepticoin.scripts.utils as su
    from skepticoin.blockstore import BlockStore
    order = world.chain.order[1:]
    owners = {}
    for b in order:
        for t in world.chain.blocks[b].txs:
            owners.setdefault(t.id(), set()).add(b)
    if any(len(v) > 1 for v in owners.values()):
        return None
    path = os.path.join(os.getcwd(), "rebuild-%s.db" % tag)
    for suffix in ("", "-journal"):
        if os.path.exists(path + suffix):
            os.remove(path + suffix)
    out = sys.stdout
    sys.stdout = io.StringIO()
    try:
        store = BlockStore(path)
        try:
            k = 0
            while k < len(order):
                step = rng.choice([1, 2, 5, len(order)])
                for b in order[k:k + step]:
                    store.add_block_to_buffer(world.real[b])
                store.flush_blocks_to_disk()
                k += step
        except Exception:
            store.close()
            return None
        store.close()
        store = BlockStore(path)
        old = bs.DefaultBlockStore.instance
        bs.DefaultBlockStore.instance = store
        try:
            return su.read_chain_from_disk()
        finally:
            bs.DefaultBlockStore.instance = old
            store.close()
    finally:
        sys.stdout = out
        for suffix in ("", "-journal"):
            if os.path.exists(path + suffix):
                os.remove(path + suffix)
