"""World generator: deterministic keys, block trees with transactions rooted at the real genesis block,
two independent assembly routes (the repo's own block assembly / the reference model's), nonce search,
and helpers for adversarial edits that re-assemble everything except the one rule they break."""
import hashlib
import struct

import ecdsa

from skv import ref, bridge, env


REFUSALS = []      # generated valid blocks that the code under test refused (all worlds of this process)


def make_keys(n, tag=b"skv-key"):
    out = []
    for i in range(n):
        e = int.from_bytes(hashlib.sha256(tag + bytes([i])).digest(), "big") % (ref.SECP_ORDER - 1) + 1
        sk = ecdsa.SigningKey.from_secret_exponent(e, curve=ecdsa.SECP256k1)
        out.append((sk.to_string(), sk.verifying_key.to_string()))
    return out


class World:
    def __init__(self, rng, params=None, nkeys=6, scrypt_fn=ref.standin_scrypt):
        from skepticoin.coinstate import CoinState
        from skepticoin.datatypes import Block
        self.rng = rng
        self.params = params or ref.DEFAULT_PARAMS
        self.keys = make_keys(nkeys)
        self.sk_by_pk = {pk: sk for sk, pk in self.keys}
        self.chain = ref.RefChain(self.params, scrypt_fn)
        gb = env.genesis_bytes()
        self.genesis = ref.parse_block(gb)
        self.gid = self.chain.add(self.genesis)
        self.real = {self.gid: Block.deserialize(gb)}
        self.CoinState = CoinState
        self.cs = CoinState.zero()
        self.pending = []
        self.reuse_pending = True
        self.refusals = []
        self.bad_keys = [b"\x00" * 64, b"\x07" * 64, b"\xff" * 64]     # 64 bytes that are not a curve point
        self.bad_key_prob = 0.0
        self.odd_reward_prob = 0.0         # share of generated blocks whose (valid) reward is split / has zero-valued outputs
        self.counters = {"blocks_real_route": 0, "blocks_ref_route": 0, "tx_real_signed": 0, "tx_ref_signed": 0,
                         "nonce_tries": 0}

    def fork(self):
        """an independent copy of this world (the real state is immutable and shared; the reference store is copied)"""
        import copy
        w = copy.copy(self)
        c = copy.copy(self.chain)
        c.blocks, c.order = dict(self.chain.blocks), list(self.chain.order)
        c._ledger, c._idx = dict(self.chain._ledger), dict(self.chain._idx)
        w.chain = c
        w.real = dict(self.real)
        w.pending = list(self.pending)
        w.refusals = []
        w.counters = dict(self.counters)
        return w

    # ------------------------------------------------------------------ ledger helpers
    def ledger(self, bid):
        return self.chain.ledger_at(bid)

    def owned(self, bid, exclude=()):
        """spendable outputs (ref, value, key) owned by generator keys at block bid"""
        led = self.ledger(bid)
        out = [(r, v, k) for (r, (v, k)) in led.items() if k in self.sk_by_pk and r not in exclude]
        out.sort()
        return out

    def state_at(self, bid, cs=None):
        """a real CoinState whose active head is bid (public constructor)"""
        cs = cs or self.cs
        return self.CoinState(cs.block_by_hash, cs.unspent_transaction_outs_by_hash, cs.block_by_height_by_hash,
                              cs.heads, bid)

    # ------------------------------------------------------------------ transactions
    def make_rtx(self, bid, rng, exclude=(), max_in=3, max_out=3, fee=None, signer=None, spend=None):
        """a transaction valid at block bid's ledger, or None when nothing is spendable"""
        own = self.owned(bid, exclude)
        if spend is None:
            if not own:
                return None
            rng.shuffle(own)
            spend = own[:rng.randint(1, min(max_in, len(own)))]
        total = sum(v for _r, v, _k in spend)
        if total < 1:
            return None
        if fee is None:
            fee = rng.choice([0, 0, 1, 7, 1000, total // 10, total - 1 if total > 1 else 0])
        fee = min(fee, total - 1)
        rest = total - fee
        nout = rng.randint(1, min(max_out, rest))
        vals = []
        for i in range(nout - 1):
            v = rng.randint(1, rest - (nout - 1 - i))
            vals.append(v)
            rest -= v
        vals.append(rest)
        outs = [(v, rng.choice(self.bad_keys) if rng.random() < self.bad_key_prob else rng.choice(self.keys)[1])
                for v in vals]
        unsigned = ref.RTx([(r[0], r[1], (ref.SIG_EQ,)) for (r, _v, _k) in spend], outs)
        return self.sign(unsigned, bid, rng, signer)

    def sign(self, unsigned, bid, rng, signer=None):
        signer = signer or rng.choice(["real", "ref"])
        led = self.ledger(bid)
        if signer == "ref":
            self.counters["tx_ref_signed"] += 1
            return ref.sign_tx(unsigned, led, self.sk_by_pk)
        from skepticoin.wallet import Wallet, sign_transaction
        import skepticoin.datatypes as dt
        import skepticoin.signing as sg
        self.counters["tx_real_signed"] += 1
        w = Wallet(dict((pk, sk) for sk, pk in self.keys), [], {})
        umap = {dt.OutputReference(h, i): dt.Output(led[(h, i)][0], sg.SECP256k1PublicKey(led[(h, i)][1]))
                for (h, i, _s) in unsigned.inputs}
        t = dt.Transaction([dt.Input(dt.OutputReference(h, i), None) for (h, i, _s) in unsigned.inputs],
                           [dt.Output(v, sg.SECP256k1PublicKey(k)) for (v, k) in unsigned.outputs])
        return bridge.real_to_rtx(sign_transaction(w, umap, t))

    # ------------------------------------------------------------------ blocks
    def coinbase(self, height, value, key, data=b""):
        return ref.RTx([(ref.ZERO32, 0, (ref.SIG_CB, height, data))], [(value, key)])

    def draft(self, parent_id, rtxs, ts, miner_pk, data=b"", reward=None, reward_outputs=None):
        """reference-route block draft (not yet mined): reward = subsidy + fees unless given; reward_outputs: the reward
        transaction's complete output list [(value, key), ...] instead of the single output"""
        parent = self.chain.blocks[parent_id]
        h = parent.height + 1
        led = self.ledger(parent_id)
        if reward is None:
            reward = ref.subsidy(h) + sum(ref.tx_fee(t, led) for t in rtxs)
        cb = self.coinbase(h, reward, miner_pk, data)
        if reward_outputs is not None:
            cb = ref.RTx(cb.inputs, list(reward_outputs))
        txs = [cb] + list(rtxs)
        return ref.RBlock(h, parent_id, ref.merkle_root([t.id() for t in txs]), ts,
                          ref.expected_target(self.chain, parent, ts), 0, b"", b"", b"", txs)

    def mine(self, blk, fix_merkle=False, max_tries=200000, below=True):
        """nonce search with the reference evidence function; below=False searches an id >= target"""
        if fix_merkle:
            blk.merkle = ref.merkle_root([t.id() for t in blk.txs])
        start = self.rng.randrange(1 << 31)
        for n in range(max_tries):
            blk.nonce = (start + n) & 0xFFFFFFFF
            blk._enc = blk._id = None
            self.counters["nonce_tries"] += 1
            try:
                blk.sh, blk.cs, blk.bh = ref.evidence(self.chain, blk)
            except KeyError:        # a wrongly claimed height can select a block that is not an ancestor
                continue
            if (blk.id() < blk.target) == below:
                return blk
        raise RuntimeError("no nonce found")

    def odd_reward_outputs(self, parent_id, rtxs, miner_pk, rng):
        """a VALID but unusual reward: split over several outputs, outputs of value 0 (reward outputs are exempt from the
        positive-amount rule), less than the allowed total"""
        parent = self.chain.blocks[parent_id]
        led = self.ledger(parent_id)
        total = ref.subsidy(parent.height + 1) + sum(ref.tx_fee(t, led) for t in rtxs)
        k2 = rng.choice(self.keys)[1]
        kind = rng.choice(["zero-extra", "zero-first", "split", "zero-same-key", "under-claim", "two-zeros", "no-outputs"])
        self.counters["odd_rewards"] = self.counters.get("odd_rewards", 0) + 1
        if kind == "no-outputs":
            return []           # the reward claims nothing at all (its output list is empty)
        if kind == "zero-extra":
            return [(total, miner_pk), (0, k2)]
        if kind == "zero-first":
            return [(0, k2), (total, miner_pk)]
        if kind == "zero-same-key":
            return [(total, miner_pk), (0, miner_pk)]
        if kind == "two-zeros":
            return [(0, miner_pk), (total, k2), (0, k2)]
        if kind == "split" and total > 1:
            a = rng.randrange(1, total)
            return [(a, miner_pk), (total - a, k2)]
        return [(max(total - rng.choice([1, 1000]), 0), miner_pk)]

    def sized_block(self, parent_id, ts, miner_pk, size):
        """a VALID reward-only block whose encoding has exactly `size` bytes (the reward split over many outputs, the rest
        filled by the reward's free data): (rblock, real block) -- used for blocks at and just below the size limit"""
        parent = self.chain.blocks[parent_id]
        total = ref.subsidy(parent.height + 1)
        probe = self.draft(parent_id, [], ts, miner_pk, data=b"", reward_outputs=[(total, miner_pk)])
        pad = 96 - len(probe.sh) - len(probe.cs) - len(probe.bh)       # the proof-of-work evidence is filled in by mine()
        base = len(probe.enc()) + pad
        per_output = 8 + 1 + 64
        m = max(0, (size - base - 8) // per_output)
        for extra in range(m, max(m - 3, -1), -1):
            for d in range(0, 200):
                outs = [(total, miner_pk)] + [(0, self.keys[i % len(self.keys)][1]) for i in range(extra)]
                blk = self.draft(parent_id, [], ts, miner_pk, data=b"\x5a" * d, reward_outputs=outs)
                n = len(blk.enc()) + pad
                if n == size:
                    rb = self.mine(blk)
                    assert len(rb.enc()) == size, (len(rb.enc()), size)
                    return rb, bridge.rblock_to_real(rb)
                if n > size:
                    break
        raise RuntimeError("no block of %d bytes" % size)

    def assemble(self, parent_id, rtxs, ts, miner_pk, route=None, data=b"", reward_outputs=None):
        """(rblock, real block).  route 'real': the repo's construct_block_for_mining on a state whose head is the
        parent, nonce found with the reference evidence; route 'ref': built entirely from the reference model"""
        route = route or self.rng.choice(["real", "ref"])
        if reward_outputs is not None:
            route = "ref"            # (the repository's own assembly always builds the single-output reward)
        rb = self.mine(self.draft(parent_id, rtxs, ts, miner_pk, data, reward_outputs=reward_outputs))
        if route == "ref":
            self.counters["blocks_ref_route"] += 1
            return rb, bridge.rblock_to_real(rb)
        from skepticoin.consensus import construct_block_for_mining
        from skepticoin.signing import SECP256k1PublicKey
        self.counters["blocks_real_route"] += 1
        try:
            real = construct_block_for_mining(self.state_at(parent_id), [bridge.rtx_to_real(t) for t in rtxs],
                                              SECP256k1PublicKey(miner_pk), ts, data, rb.nonce)
        except Exception as e:
            # the code under test cannot even assemble on this parent: note it, use the reference-built block instead
            REFUSALS.append("assembly failed: %s: %s" % (type(e).__name__, str(e)[:60]))
            return rb, bridge.rblock_to_real(rb)
        return rb, real

    def accept(self, rb, real, cs=None, validate=True, now=None):
        """adds to the reference store and the world's real state (which holds every block of the tree)"""
        if cs is None:
            try:
                if validate:
                    self.cs = self.cs.add_block(real, now if now is not None else rb.ts)
                else:
                    self.cs = self.cs.add_block_no_validation(real)
            except Exception as e:
                # a block the reference built as valid is refused by the code under test: not this generator's verdict
                # to give -- count it (checks turn a non-zero count into a violation or an inconclusive run) and go on
                self.counters["generated_valid_block_refused"] = self.counters.get("generated_valid_block_refused", 0) + 1
                self.refusals.append("%s: %s" % (type(e).__name__, str(e)[:80]))
                REFUSALS.append(self.refusals[-1])
                return None
        bid = self.chain.add(rb)
        self.real[bid] = real
        return bid

    # ------------------------------------------------------------------ trees
    def pick_parent(self, rng, bias="mixed"):
        ids = self.chain.order
        r = rng.random()
        if bias == "linear" or r < 0.45:
            best = max(ids, key=lambda b: (self.chain.blocks[b].height, -ids.index(b)))
            return best
        if r < 0.75:
            return rng.choice(sorted(self.chain.tips()))
        return rng.choice(ids)

    def grow(self, n, rng, tx_prob=0.6, validate=True, bias="mixed", max_txs=3, dt_choices=(1, 2, 60, 120, 600)):
        """adds n blocks, each on any earlier block; returns their ids in arrival order"""
        new = []
        for _ in range(n):
            pid = self.pick_parent(rng, bias)
            parent = self.chain.blocks[pid]
            ts = parent.ts + rng.choice(dt_choices)
            if getattr(self, "min_ts", 0) > ts:
                # a chain stamped AHEAD of this machine's wall clock (a node whose clock was set back after the blocks were
                # accepted -- an NTP step, a VM restore, a board without a battery): nothing the node does with blocks it has
                # already accepted may look at the wall clock again
                ts = self.min_ts + rng.choice([0, 1, 59])
            rtxs = []
            used = set()
            led = self.ledger(pid)
            # pending transactions made earlier (possibly already mined on a sibling fork) that are valid here too
            for t in (list(self.pending) if self.reuse_pending else []):
                if rng.random() < 0.5 and not (set(t.refs()) & used) and all(r in led for r in t.refs()) \
                        and not ref.tx_codes_in_ledger(t, led):
                    used.update(t.refs())
                    rtxs.append(t)
                    self.counters["pending_tx_reused"] = self.counters.get("pending_tx_reused", 0) + 1
            if rng.random() < tx_prob:
                for _k in range(rng.randint(1, max_txs)):
                    t = self.make_rtx(pid, rng, exclude=used)
                    if t is None:
                        break
                    used.update(t.refs())
                    rtxs.append(t)
                    if rng.random() < 0.5:
                        self.pending.append(t)
                        self.pending = self.pending[-6:]
            miner_pk = rng.choice(self.keys)[1]
            ro = self.odd_reward_outputs(pid, rtxs, miner_pk, rng) if rng.random() < self.odd_reward_prob else None
            rb, real = self.assemble(pid, rtxs, ts, miner_pk,
                                     data=rng.choice([b"", b"skv", bytes([rng.randrange(256)]) * rng.randrange(0, 200)]),
                                     reward_outputs=ro)
            bid = self.accept(rb, real, validate=validate, now=ts + rng.choice([-30, 0, 5, 10_000]))
            if bid is not None:
                new.append(bid)
        return new


def blocks_hex(world, ids):
    return [world.chain.blocks[b].enc().hex() for b in ids]


def fingerprint(cs):
    """deep, order-independent fingerprint of a real CoinState (used for 'state left exactly as it was')"""
    h = hashlib.blake2b(digest_size=16)
    h.update(repr(cs.current_chain_hash).encode())
    for bid in sorted(cs.block_by_hash):
        h.update(bid)
        h.update(cs.block_by_hash[bid].serialize())
    for bid in sorted(cs.unspent_transaction_outs_by_hash):
        h.update(b"U" + bid)
        m = cs.unspent_transaction_outs_by_hash[bid]
        for (rh, ri, v, k) in sorted((r.hash, r.index, o.value, o.public_key.public_key) for r, o in m.items()):
            h.update(rh + struct.pack(">IQ", ri, v) + k)
    for bid in sorted(cs.block_by_height_by_hash):
        h.update(b"H" + bid)
        m = cs.block_by_height_by_hash[bid]
        for ht in sorted(m):
            h.update(struct.pack(">Q", ht) + m[ht].hash())
    h.update(b"T" + b"".join(sorted(cs.heads)))
    return h.hexdigest()
