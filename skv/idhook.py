"""Invariant at a hook: whenever the code under test asks a transaction or a block for its id, the id must be the double
SHA-256 of the object's canonical encoding as it is NOW (of the header, for blocks).  Installed by wrapping the two hash()
methods in the worker process; counts evaluations; violations are collected (deduplicated by call site)."""
import hashlib
import sys

STATE = {"evaluations": 0, "violations": [], "skipped": 0, "every": 1, "installed": False, "n": 0}


def _sha256d(b):
    return hashlib.sha256(hashlib.sha256(b).digest()).digest()


def install(every=1):
    import skepticoin.datatypes as dt
    STATE["every"] = every
    if STATE["installed"]:
        return STATE
    STATE["installed"] = True
    orig_tx, orig_blk = dt.Transaction.hash, dt.Block.hash

    def check(obj, got, enc, what):
        STATE["n"] += 1
        if STATE["n"] % STATE["every"]:
            return
        try:
            exp = _sha256d(enc())
        except Exception:
            STATE["skipped"] += 1
            return
        STATE["evaluations"] += 1
        if got != exp and len(STATE["violations"]) < 5:
            f = sys._getframe(2)
            site = "%s:%d %s" % (f.f_code.co_filename.split("/")[-1], f.f_lineno, f.f_code.co_name)
            if not any(v["site"] == site for v in STATE["violations"]):
                try:
                    hx = obj.serialize().hex()[:4000]
                except Exception:
                    hx = ""
                STATE["violations"].append({"what": what, "site": site, "got": got.hex(), "expected": exp.hex(), "bytes": hx})

    def tx_hash(self):
        got = orig_tx(self)
        check(self, got, self.serialize, "Transaction")
        return got

    def blk_hash(self):
        got = orig_blk(self)
        check(self, got, self.header.serialize, "Block")
        return got
    dt.Transaction.hash = tx_hash
    dt.Block.hash = blk_hash
    return STATE


def report(v, counters):
    """hand collected results to a check's violation function v(key, msg, witness) and its counters"""
    counters["id_invariant_evaluations"] = counters.get("id_invariant_evaluations", 0) + STATE["evaluations"]
    for x in STATE["violations"]:
        v("id-is-not-hash-of-canonical-encoding:%s-at-hook" % x["what"],
          "%s.hash() returned %s.. but its encoding hashes to %s.. (asked at %s)" % (x["what"], x["got"][:16], x["expected"][:16], x["site"]),
          {"lane": "id-hook", "bytes": x["bytes"], "site": x["site"]})
    STATE["evaluations"] = 0
    STATE["violations"] = []
