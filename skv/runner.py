"""Orchestrator: shards a property's workload over worker subprocesses that import the repo's
working tree fresh, merges what the monitors observed, decides the three-valued verdict, writes
evidence and replay files.

property module interface (skv/props/cXX.py):
    PROPERTY = "C01"; LEVEL = "exploration"
    def shards(tier, seed) -> list of json-able shard specs
    def run_shard(spec) -> result dict (see merge())
    def finalize(merged, tier) -> dict(rule=..., floors=[(name, observed, minimum)], extra={...})
    def replay(case) -> list of violations   (optional)
    SHARD_TIMEOUT = seconds (optional)
"""
import argparse
import hashlib
import importlib
import json
import os
import shutil
import subprocess
import sys
import tempfile
import time

VERIF_DIR = os.path.dirname(os.path.dirname(os.path.abspath(__file__)))
PY = "/venv/bin/python"
NPROC = int(os.environ.get("VERIF_NPROC", "16"))


def load(pid):
    return importlib.import_module("skv.props.%s" % pid.lower())


# ---------------------------------------------------------------- worker side
def worker_main(pid, spec_path, out_path):
    mod = load(pid)
    with open(spec_path) as f:
        spec = json.load(f)
    t0 = time.time()
    try:
        import random as _random
        _random.seed("worker/%s/%s" % (spec.get("seed", 0), spec.get("shard", 0)))   # code under test draws ids/nonces from it
        res = mod.run_shard(spec)
    except Exception:
        import traceback
        res = {"inconclusive": ["worker crashed: " + traceback.format_exc()[-1500:]]}
    res["wall_s"] = time.time() - t0
    from skv import env
    try:
        from skv import gen
        if gen.REFUSALS:
            res.setdefault("counters", {})["generated_valid_blocks_refused_by_code_under_test"] = len(gen.REFUSALS)
            res.setdefault("inconclusive", []).append(
                "%d generated blocks that the reference finds valid were refused by the code under test while building the "
                "workload (first: %s)" % (len(gen.REFUSALS), gen.REFUSALS[0]))
    except Exception:
        pass
    res.setdefault("assumptions", [])
    for a in env.ASSUMPTIONS:
        if a not in res["assumptions"]:
            res["assumptions"].append(a)
    with open(out_path + ".tmp", "w") as f:
        json.dump(res, f)
    os.replace(out_path + ".tmp", out_path)


# ---------------------------------------------------------------- merging
def _merge_counters(dst, src):
    for k, v in src.items():
        if isinstance(v, dict):
            _merge_counters(dst.setdefault(k, {}), v)
        elif isinstance(v, (int, float)):
            dst[k] = dst.get(k, 0) + v
        elif isinstance(v, list):
            cur = dst.setdefault(k, [])
            for x in v:
                if x not in cur and len(cur) < 50:
                    cur.append(x)
        else:
            dst.setdefault(k, v)


def merge(results):
    m = {"evaluations": 0, "counters": {}, "violations": [], "samples": [], "digests": set(),
         "distinct_sum": 0, "inconclusive": [], "assumptions": [], "exhaustive": None, "shards": len(results)}
    for r in results:
        m["evaluations"] += int(r.get("evaluations", 0))
        _merge_counters(m["counters"], r.get("counters", {}))
        m["violations"].extend(r.get("violations", []))
        if "digests" in r:
            m["digests"].update(r["digests"])
        m["distinct_sum"] += int(r.get("distinct", 0))
        m["inconclusive"].extend(r.get("inconclusive", []))
        for a in r.get("assumptions", []):
            if a not in m["assumptions"]:
                m["assumptions"].append(a)
        if "exhaustive" in r:
            m["exhaustive"] = bool(r["exhaustive"]) if m["exhaustive"] is None else (m["exhaustive"] and bool(r["exhaustive"]))
    # samples: round-robin over shards so that every lane is represented
    depth = 0
    while len(m["samples"]) < 8 and depth < 4:
        for r in results:
            ss = r.get("samples", [])
            if depth < len(ss) and len(m["samples"]) < 8 and ss[depth] not in m["samples"]:
                m["samples"].append(ss[depth])
        depth += 1
    return m


# ---------------------------------------------------------------- known findings
def load_known():
    known, fixed = [], []
    p = os.path.join(VERIF_DIR, "KNOWN_FINDINGS.txt")
    if os.path.exists(p):
        for line in open(p):
            line = line.strip()
            if line.startswith("known:"):
                f = dict(x.split("=", 1) for x in line.split()[1:3])
                f["text"] = line.split(None, 3)[3] if len(line.split(None, 3)) > 3 else ""
                known.append(f)
            elif line.startswith("fixed:"):
                fixed.append(line)
    return known, fixed


# ---------------------------------------------------------------- orchestration
def run_workers(pid, specs, timeout, log_dir):
    """runs every spec in its own subprocess (fresh import of the repo tree), at most NPROC at once"""
    env = dict(os.environ)
    repo = env.get("VERIF_REPO", "/repo")
    env["PYTHONPATH"] = os.pathsep.join([repo, VERIF_DIR, os.path.join(VERIF_DIR, ".deps")])
    env["PYTHONDONTWRITEBYTECODE"] = "1"
    env["PYTHONHASHSEED"] = "0"
    env["SKEPTICOIN_VERIF"] = "1"
    base = tempfile.mkdtemp(prefix="skv-%s-" % pid)
    pending = list(enumerate(specs))
    running = []
    results = [None] * len(specs)
    notes = []
    try:
        while pending or running:
            while pending and len(running) < NPROC:
                i, spec = pending.pop(0)
                d = os.path.join(base, "w%d" % i)
                os.makedirs(d)
                sp = os.path.join(d, "spec.json")
                with open(sp, "w") as f:
                    json.dump(spec, f)
                op = os.path.join(d, "out.json")
                lg = open(os.path.join(d, "log.txt"), "w")
                extra = list(spec.get("py_flags", [])) if isinstance(spec, dict) else []
                p = subprocess.Popen([PY] + extra + ["-m", "skv.runner", pid, "--worker", sp, op], cwd=d, env=env,
                                     stdout=lg, stderr=subprocess.STDOUT)
                running.append((i, p, time.time(), d, op, lg))
            time.sleep(0.05)
            for item in list(running):
                i, p, t0, d, op, lg = item
                rc = p.poll()
                if rc is None and time.time() - t0 > timeout:
                    p.kill()
                    p.wait()
                    rc = "watchdog"
                if rc is None:
                    continue
                running.remove(item)
                lg.close()
                if os.path.exists(op):
                    with open(op) as f:
                        results[i] = json.load(f)
                else:
                    tail = open(os.path.join(d, "log.txt")).read()[-800:]
                    results[i] = {"inconclusive": ["shard %d produced no result (rc=%s): %s" % (i, rc, tail)]}
                shutil.rmtree(d, ignore_errors=True)
    finally:
        for item in running:
            item[1].kill()
        shutil.rmtree(base, ignore_errors=True)
    return results, notes


def validate_evidence(ev):
    try:
        sys.path.append(os.path.join(VERIF_DIR, ".deps"))
        import jsonschema
    except Exception:
        return "jsonschema not importable (run setup.sh); evidence not schema-checked"
    sp = "/root/.vp/EVIDENCE.schema.json"
    local = os.path.join(VERIF_DIR, "tools", "EVIDENCE.schema.json")
    sp = sp if os.path.exists(sp) else local
    with open(sp) as f:
        schema = json.load(f)
    jsonschema.validate(ev, schema)
    return None


def orchestrate(pid, tier, seed, replay_path=None):
    t0 = time.time()
    mod = load(pid)
    if replay_path:
        with open(replay_path) as f:
            rp = json.load(f)
        specs = [{"replay": rp["witness"], "tier": tier, "seed": seed}]
    else:
        specs = mod.shards(tier, seed)
    timeout = getattr(mod, "SHARD_TIMEOUT", {"quick": 600, "thorough": 3600})
    timeout = timeout[tier] if isinstance(timeout, dict) else timeout
    results, _ = run_workers(pid, specs, timeout, None)
    m = merge(results)
    fin = mod.finalize(m, tier) if not replay_path else {"rule": "replay", "floors": [], "extra": {}}
    inconclusive = list(m["inconclusive"])
    for (name, observed, minimum) in fin.get("floors", []):
        if observed < minimum:
            inconclusive.append("non-vacuity floor not met: %s observed=%s minimum=%s" % (name, observed, minimum))

    # classify violations
    known, _fixed = load_known()
    known_for = {k["key"]: k for k in known if k.get("property") == pid}
    new, seen_known = [], {}
    for v in m["violations"]:
        if v.get("key") in known_for:
            seen_known.setdefault(v["key"], []).append(v)
        else:
            new.append(v)

    distinct = len(m["digests"]) if m["digests"] else m["distinct_sum"]
    cov = {
        "evaluations": m["evaluations"],
        "distinct_nontrivial": distinct,
        "rule": fin.get("rule", ""),
        "samples": m["samples"][:8] or ["none"],
        "monitors": m["counters"],
        "shards": m["shards"],
        "inconclusive_reasons": inconclusive,
        "known_findings_observed": {k: len(v) for k, v in seen_known.items()},
    }
    if m["exhaustive"] is not None and fin.get("exhaustive", True):
        cov["exhaustive"] = bool(m["exhaustive"])
    cov.update(fin.get("extra", {}))
    ev = {
        "property_id": pid, "tier": tier, "seed": seed, "level": getattr(mod, "LEVEL", "exploration"),
        "coverage": cov, "assumptions": m["assumptions"] + list(getattr(mod, "ASSUMPTIONS", [])),
        "wall_s": round(time.time() - t0, 2), "violations": len(new),
    }
    if not replay_path:
        evdir = os.environ.get("VERIF_EVIDENCE_DIR") or os.path.join(VERIF_DIR, "evidence")
        os.makedirs(evdir, exist_ok=True)
        evp = os.path.join(evdir, "%s.json" % pid)
        with open(evp + ".tmp", "w") as f:
            json.dump(ev, f, indent=1, sort_keys=True, default=str)
        os.replace(evp + ".tmp", evp)
        try:
            msg = validate_evidence(json.load(open(evp)))
            if msg:
                print("NOTE", msg)
        except Exception as e:   # a schema failure is a harness defect, never a verdict on the repo
            inconclusive.append("evidence file does not validate: %s" % str(e)[:300])

    # report
    print("property=%s tier=%s seed=%s evaluations=%d distinct_nontrivial=%d shards=%d wall=%.1fs" % (
        pid, tier, seed, m["evaluations"], distinct, m["shards"], time.time() - t0))
    print("monitors:", json.dumps(m["counters"], sort_keys=True, default=str)[:3000])
    for key, vs in seen_known.items():
        print("KNOWN-FINDING: property=%s %s (observed %d times this run; key=%s)" % (
            pid, known_for[key]["text"], len(vs), key))
    if new:
        rpdir = os.environ.get("VERIF_REPLAY_DIR") or os.path.join(VERIF_DIR, "replays")
        os.makedirs(rpdir, exist_ok=True)
        by_key = {}
        for v in new:
            by_key.setdefault(v.get("key", "?"), []).append(v)
        n = 0
        for key, vs in by_key.items():
            v = vs[0]
            path = os.path.join(rpdir, "%s-%s-%d.json" % (pid, seed, n))
            n += 1
            with open(path, "w") as f:
                json.dump({"property": pid, "key": key, "message": v.get("msg"), "count": len(vs),
                           "witness": v.get("witness")}, f, indent=1, default=str)
            print("  witness key=%s count=%d: %s" % (key, len(vs), str(v.get("msg"))[:600]))
            print("VIOLATION property=%s replay=%s" % (pid, path))
        return 1
    if inconclusive:
        shown = []
        for r in inconclusive:
            if r[-300:] not in shown:
                shown.append(r[-300:])
                if len(shown) <= 6:
                    print("INCONCLUSIVE property=%s reason=%s" % (pid, r[:1500]))
        return 2
    print("HELD property=%s on everything explored" % pid)
    return 0


def main(argv=None):
    ap = argparse.ArgumentParser()
    ap.add_argument("pid")
    ap.add_argument("--tier", default=os.environ.get("VERIF_TIER", "quick"), choices=["quick", "thorough"])
    ap.add_argument("--seed", type=int, default=int(os.environ.get("VERIF_SEED", "0")))
    ap.add_argument("--replay")
    ap.add_argument("--worker", nargs=2)
    a = ap.parse_args(argv)
    if a.worker:
        worker_main(a.pid, a.worker[0], a.worker[1])
        return 0
    return orchestrate(a.pid.upper(), a.tier, a.seed, a.replay)


def digest(*parts):
    h = hashlib.blake2b(digest_size=8)
    for p in parts:
        h.update(p if isinstance(p, bytes) else repr(p).encode())
        h.update(b"|")
    return h.hexdigest()


if __name__ == "__main__":
    sys.exit(main())
