"""Source-free pre-emption points (sys.monitoring, Python 3.12).

In the running node several threads go through the same "pure" code (the networking thread validates and decodes what
peers send while the miner / wallet thread builds, encodes and signs).  A thread switch can happen between any two
bytecodes; this helper produces, deterministically, the schedules "thread A is held at its k-th statement boundary or
function entry inside the watched modules while thread B runs a complete piece of work", for every k (or a sample).

    pre = Preempter([module, ...])
    try:
        total = pre.count(work_a)                    # events of work_a alone
        out_a, out_b = pre.run(work_a, work_b, k)    # work_* are callables returning a value; exceptions are returned
    finally:
        pre.close()

Only statement starts and function entries are switch points (nothing inside a statement is claimed)."""
import sys
import threading
import types

TOOL = 3


class Raised:
    def __init__(self, e):
        self.e = e

    def __repr__(self):
        return "Raised(%r)" % (self.e,)

    def __eq__(self, other):
        return isinstance(other, Raised) and type(self.e) is type(other.e) and str(self.e) == str(other.e)


def code_objects(modules):
    out = []
    seen = set()

    def add(f):
        co = getattr(f, "__code__", None)
        if co is not None and id(co) not in seen:
            seen.add(id(co))
            out.append(co)
    for mod in modules:
        for obj in list(vars(mod).values()):
            if isinstance(obj, types.FunctionType) and obj.__module__ == mod.__name__:
                add(obj)
            elif isinstance(obj, type) and obj.__module__ == mod.__name__:
                for f in list(vars(obj).values()):
                    if isinstance(f, (staticmethod, classmethod)):
                        f = f.__func__
                    if isinstance(f, property):
                        for g in (f.fget, f.fset):
                            if g is not None:
                                add(g)
                    elif isinstance(f, types.FunctionType):
                        add(f)
    return out


class Preempter:
    def __init__(self, modules):
        self.mon = sys.monitoring
        self.ok = self.mon.get_tool(TOOL) is None
        self.codes = code_objects(modules) if self.ok else []
        self.trace = []
        self.loc_uses = {}
        self.ctl = {"a": None, "k": 0, "count": 0, "b": None, "inside": False, "b_out": None, "b_ran": False}
        if not self.ok:
            return
        mon = self.mon
        mon.use_tool_id(TOOL, "skv-preempt")
        mon.register_callback(TOOL, mon.events.LINE, lambda code, line: self._maybe(code, line))
        mon.register_callback(TOOL, mon.events.PY_START, lambda code, offset: self._maybe(code, -1))
        for co in self.codes:
            mon.set_local_events(TOOL, co, mon.events.LINE | mon.events.PY_START)

    def _maybe(self, code, line):
        ctl = self.ctl
        if ctl["a"] != threading.get_ident() or ctl["inside"]:
            return
        ctl["count"] += 1
        if ctl["k"] == 0:
            self.trace.append((code.co_filename.rsplit("/", 1)[-1], code.co_name, line))
        if ctl["count"] == ctl["k"]:
            ctl["inside"] = True
            t = threading.Thread(target=self._run_b)
            t.start()
            t.join()
            ctl["inside"] = False

    def _run_b(self):
        ctl = self.ctl
        ctl["b_ran"] = True
        try:
            ctl["b_out"] = ctl["b"]()
        except Exception as e:
            ctl["b_out"] = Raised(e)

    def _run_a(self, work_a, work_b, k):
        ctl = self.ctl
        out = {}

        def body():
            ctl["a"] = threading.get_ident()
            try:
                out["v"] = work_a()
            except Exception as e:
                out["v"] = Raised(e)
            finally:
                ctl["a"] = None
        ctl.update(k=k, count=0, b=work_b, b_out=None, b_ran=False)
        t = threading.Thread(target=body)
        t.start()
        t.join()
        return out.get("v")

    def count(self, work_a):
        self.trace = []
        self._run_a(work_a, None, 0)
        return self.ctl["count"]

    def points_by_location(self, rng, n):
        """n event indices (1-based) of the last counted run, chosen so that DISTINCT source locations are covered rather than
        the most frequently executed ones: the locations seen least often so far (over this Preempter's life) come first"""
        by_loc = {}
        for i, loc in enumerate(self.trace):
            by_loc.setdefault(loc, []).append(i + 1)
        locs = sorted(by_loc, key=lambda l: (self.loc_uses.get(l, 0), rng.random()))
        out = []
        for loc in locs[:n]:
            self.loc_uses[loc] = self.loc_uses.get(loc, 0) + 1
            out.append(rng.choice(by_loc[loc]))
        return sorted(out)

    def run(self, work_a, work_b, k):
        """(A's result, B's result, did the switch happen)"""
        a = self._run_a(work_a, work_b, k)
        return a, self.ctl["b_out"], self.ctl["b_ran"]

    def close(self):
        if not self.ok:
            return
        for co in self.codes:
            self.mon.set_local_events(TOOL, co, 0)
        self.mon.free_tool_id(TOOL)
        self.ok = False
