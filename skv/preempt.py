"""Source-free pre-emption points (sys.monitoring, Python 3.12).

In the running node several threads go through the same "pure" code (the networking thread validates and decodes what
peers send while the miner / wallet thread builds, encodes and signs).  A thread switch can happen between any two
bytecodes; this helper produces, deterministically, the schedules "thread A is held at its k-th statement boundary or
function entry inside the watched modules while thread B runs a complete piece of work", for every k (or a sample).

    pre = Preempter([module, ...])
    try:
        total = pre.count(work_a)                    # events of work_a alone
        out_a, out_b = pre.run(work_a, work_b, k)    # work_* are callables returning a value; exceptions are returned
    finally:
        pre.close()

Only statement starts and function entries are switch points (nothing inside a statement is claimed)."""
import sys
import threading
import types

TOOL = 3


class Raised:
    def __init__(self, e):
        self.e = e

    def __repr__(self):
        return "Raised(%r)" % (self.e,)

    def __eq__(self, other):
        return isinstance(other, Raised) and type(self.e) is type(other.e) and str(self.e) == str(other.e)


MUTABLE = (list, dict, set, bytearray)


def shared_state_lines(modules):
    """{code object: set of line numbers} that read or write module-level / class-level MUTABLE state: globals that some
    function of the module rebinds (STORE_GLOBAL), globals bound to a list / dict / set / bytearray / file-like object, and
    class attributes of those kinds.  These are where two threads can meet; the pre-emption points after them come first"""
    import dis
    import io
    out = {}
    for mod in modules:
        g = vars(mod)
        codes = [(co, None) for co in code_objects([mod])]
        hot_names, hot_attrs = set(), set()
        for co, _ in codes:
            for ins in dis.get_instructions(co):
                if ins.opname in ("STORE_GLOBAL", "DELETE_GLOBAL"):
                    hot_names.add(ins.argval)
        for name, v in g.items():
            if name.startswith("__"):
                continue
            if isinstance(v, MUTABLE) or isinstance(v, io.IOBase):
                hot_names.add(name)
            if isinstance(v, type) and v.__module__ == mod.__name__:
                for an, av in vars(v).items():
                    if not an.startswith("__") and (isinstance(av, MUTABLE) or isinstance(av, io.IOBase)):
                        hot_attrs.add(an)
        if not hot_names and not hot_attrs:
            continue
        for co, _ in codes:
            lines = set()
            for ins in dis.get_instructions(co):
                ln = ins.positions.lineno if ins.positions else None
                if ln is None:
                    continue
                if ins.opname in ("LOAD_GLOBAL", "STORE_GLOBAL", "DELETE_GLOBAL") and ins.argval in hot_names:
                    lines.add(ln)
                elif ins.opname in ("LOAD_ATTR", "STORE_ATTR", "LOAD_METHOD") and ins.argval in hot_attrs:
                    lines.add(ln)
            if lines:
                out[co] = lines
    return out


def code_objects(modules):
    out = []
    seen = set()

    def add(f):
        co = getattr(f, "__code__", None)
        if co is not None and id(co) not in seen:
            seen.add(id(co))
            out.append(co)
    for mod in modules:
        for obj in list(vars(mod).values()):
            if isinstance(obj, types.FunctionType) and obj.__module__ == mod.__name__:
                add(obj)
            elif isinstance(obj, type) and obj.__module__ == mod.__name__:
                for f in list(vars(obj).values()):
                    if isinstance(f, (staticmethod, classmethod)):
                        f = f.__func__
                    if isinstance(f, property):
                        for g in (f.fget, f.fset):
                            if g is not None:
                                add(g)
                    elif isinstance(f, types.FunctionType):
                        add(f)
    return out


class Preempter:
    def __init__(self, modules):
        self.mon = sys.monitoring
        self.ok = self.mon.get_tool(TOOL) is None
        self.codes = code_objects(modules) if self.ok else []
        try:
            self.hot = shared_state_lines(modules) if self.ok else {}
        except Exception:
            self.hot = {}
        self.trace = []
        self.meta = []          # per event of the last counted run: (stack depth, touches shared mutable state)
        self.loc_uses = {}
        self.hot_uses = {}
        self.window_events = 0
        self.ctl = {"a": None, "k": 0, "count": 0, "b": None, "inside": False, "b_out": None, "b_ran": False}
        if not self.ok:
            return
        mon = self.mon
        mon.use_tool_id(TOOL, "skv-preempt")
        mon.register_callback(TOOL, mon.events.LINE, lambda code, line: self._maybe(code, line))
        mon.register_callback(TOOL, mon.events.PY_START, lambda code, offset: self._maybe(code, -1))
        for co in self.codes:
            mon.set_local_events(TOOL, co, mon.events.LINE | mon.events.PY_START)

    def _maybe(self, code, line):
        ctl = self.ctl
        if ctl["a"] != threading.get_ident() or ctl["inside"]:
            return
        ctl["count"] += 1
        if ctl["k"] == 0:
            # a location is a source line IN ITS CALLING CONTEXT (the same helper line is another location under another
            # caller): frame 0 is this method, 1 the registered lambda, 2 the monitored code, 3 its caller
            try:
                caller = sys._getframe(3).f_code.co_name
            except Exception:
                caller = ""
            self.trace.append((code.co_filename.rsplit("/", 1)[-1], code.co_name, line, caller))
            depth = 0
            try:
                fr = sys._getframe(2)
                while fr is not None and depth < 200:
                    depth += 1
                    fr = fr.f_back
            except Exception:
                pass
            self.meta.append((depth, line in self.hot.get(code, ())))
        if ctl["count"] == ctl["k"]:
            ctl["inside"] = True
            t = threading.Thread(target=self._run_b)
            t.start()
            t.join()
            ctl["inside"] = False

    def _run_b(self):
        ctl = self.ctl
        ctl["b_ran"] = True
        try:
            ctl["b_out"] = ctl["b"]()
        except Exception as e:
            ctl["b_out"] = Raised(e)

    def _run_a(self, work_a, work_b, k):
        ctl = self.ctl
        out = {}

        def body():
            ctl["a"] = threading.get_ident()
            try:
                out["v"] = work_a()
            except Exception as e:
                out["v"] = Raised(e)
            finally:
                ctl["a"] = None
        ctl.update(k=k, count=0, b=work_b, b_out=None, b_ran=False)
        t = threading.Thread(target=body)
        t.start()
        t.join()
        return out.get("v")

    def count(self, work_a):
        self.trace = []
        self.meta = []
        self._run_a(work_a, None, 0)
        return self.ctl["count"]

    def points_by_location(self, rng, n):
        """n event indices (1-based) of the last counted run, chosen so that DISTINCT source locations are covered rather than
        the most frequently executed ones: the locations seen least often so far (over this Preempter's life) come first"""
        by_loc, hot_by_loc = {}, {}
        open_depth = None
        for i, loc in enumerate(self.trace):
            by_loc.setdefault(loc, []).append(i + 1)
            # a WINDOW opens where a function touches shared mutable state and lasts until that invocation returns (the events
            # of its callees included): half of the points are taken there
            depth, touches = self.meta[i] if i < len(self.meta) else (0, False)
            if open_depth is not None and depth < open_depth:
                open_depth = None
            if touches and open_depth is None:
                open_depth = depth
            if open_depth is not None:
                hot_by_loc.setdefault(loc, []).append(i + 1)
        self.window_events = sum(len(v) for v in hot_by_loc.values())
        out = []
        if hot_by_loc:
            locs = sorted(hot_by_loc, key=lambda l: (self.hot_uses.get(l, 0), rng.random()))
            for loc in locs[:max(1, n // 2)]:
                self.hot_uses[loc] = self.hot_uses.get(loc, 0) + 1
                self.loc_uses[loc] = self.loc_uses.get(loc, 0) + 1
                out.append(rng.choice(hot_by_loc[loc]))
        locs = sorted(by_loc, key=lambda l: (self.loc_uses.get(l, 0), rng.random()))
        for loc in locs[:max(0, n - len(out))]:
            self.loc_uses[loc] = self.loc_uses.get(loc, 0) + 1
            out.append(rng.choice(by_loc[loc]))
        return sorted(set(out))

    def run(self, work_a, work_b, k):
        """(A's result, B's result, did the switch happen)"""
        a = self._run_a(work_a, work_b, k)
        return a, self.ctl["b_out"], self.ctl["b_ran"]

    def pause(self):
        """no events (and no cost) until resume()"""
        if self.ok:
            for co in self.codes:
                self.mon.set_local_events(TOOL, co, 0)

    def resume(self):
        if self.ok:
            for co in self.codes:
                self.mon.set_local_events(TOOL, co, self.mon.events.LINE | self.mon.events.PY_START)

    def close(self):
        if not self.ok:
            return
        for co in self.codes:
            self.mon.set_local_events(TOOL, co, 0)
        self.mon.free_tool_id(TOOL)
        self.ok = False


class ModuleState:
    """module-level (and class-level) mutable state of the given modules, so that every trial can start from the state a
    freshly started process has: containers are restored IN PLACE (other modules may hold references to them) and rebound;
    plain values are rebound"""
    CONTAINERS = (list, dict, set, bytearray)

    def __init__(self, modules):
        import copy
        self.copy = copy
        self.slots = []        # (owner, name, original object, deep copy)
        for mod in modules:
            self._scan(mod, vars(mod), mod.__name__)
            for obj in list(vars(mod).values()):
                if isinstance(obj, type) and obj.__module__ == mod.__name__:
                    self._scan(obj, vars(obj), mod.__name__)

    def _scan(self, owner, namespace, modname):
        for name, v in list(namespace.items()):
            if name.startswith("__"):
                continue
            if isinstance(v, (types.ModuleType, types.FunctionType, type, staticmethod, classmethod, property)) or callable(v):
                continue
            try:
                saved = self.copy.deepcopy(v)
            except Exception:
                continue
            self.slots.append((owner, name, v, saved))

    def restore(self):
        for owner, name, orig, saved in self.slots:
            try:
                if isinstance(orig, dict):
                    orig.clear()
                    orig.update(self.copy.deepcopy(saved))
                elif isinstance(orig, (list, bytearray)):
                    orig[:] = self.copy.deepcopy(saved)
                elif isinstance(orig, set):
                    orig.clear()
                    orig.update(self.copy.deepcopy(saved))
                if getattr(owner, name, None) is not orig:
                    setattr(owner, name, orig if isinstance(orig, self.CONTAINERS) else self.copy.deepcopy(saved))
            except Exception:
                pass


def safe(fn, *a):
    try:
        return fn(*a)
    except Exception as e:
        return Raised(e)


def trials(pre, state, setup, job_a, job_b, rng, npoints, aftermath=None):
    """for a sample of A's source locations: from pristine module state and a fresh context (setup()), A runs and is held
    at the location while B runs to completion on the SAME context; afterwards both jobs run once more, alone, on that
    context and then on a fresh one (what a race left behind).  Yields dicts with the solo values (want_a, want_b) and
    what the threads and the aftermath runs got"""
    state.restore()
    want_a = safe(job_a, setup())
    state.restore()
    want_b = safe(job_b, setup())
    state.restore()
    want_after = safe(aftermath, setup()) if aftermath else None
    state.restore()
    ctx0 = setup()
    total = pre.count(lambda: job_a(ctx0))
    for k in pre.points_by_location(rng, npoints):
        state.restore()
        ctx = setup()
        a, b, ran = pre.run(lambda: job_a(ctx), lambda: job_b(ctx), k)
        if not ran:
            continue
        after_a, after_b = safe(job_a, ctx), safe(job_b, ctx)
        fresh = setup()
        later_a, later_b = safe(job_a, fresh), safe(job_b, fresh)
        yield {"k": k, "total": total, "a": a, "b": b, "after_a": after_a, "after_b": after_b, "later_a": later_a,
               "later_b": later_b, "want_a": want_a, "want_b": want_b,
               "aftermath": safe(aftermath, fresh) if aftermath else None, "want_aftermath": want_after}
    state.restore()


def disagreements(t):
    """[(who, got, want)] of one trial"""
    out = []
    for who, got, want in (("thread A", t["a"], t["want_a"]), ("thread B", t["b"], t["want_b"]),
                           ("the same call afterwards (A's)", t["after_a"], t["want_a"]),
                           ("the same call afterwards (B's)", t["after_b"], t["want_b"]),
                           ("a later call on a fresh object (A's)", t["later_a"], t["want_a"]),
                           ("a later call on a fresh object (B's)", t["later_b"], t["want_b"])):
        if got != want:
            out.append((who, got, want))
    if t.get("aftermath") != t.get("want_aftermath"):
        out.append(("what the process computes after the two threads have finished", t["aftermath"], t["want_aftermath"]))
    return out
