"""Consensus stream shared by C01/C02/C05: candidate blocks of named adversarial classes (each breaks
exactly one rule and re-assembles merkle root, evidence and proof of work), the monitored
CoinState.add_block attempt, and the oracle derived from the reference model."""
import random
import re
import struct

from skv import ref, gen, bridge

OWN_SIG_MSG = b"skv"


# --------------------------------------------------------------------------- helpers
def ancestors_spent(world, pid):
    """references spent by ordinary transactions in the ancestors of (and including) pid"""
    out = []
    for bid in world.chain.ancestors(pid):
        for t in world.chain.blocks[bid].txs[1:]:
            out.extend(t.refs())
    return out


def creation_info(world, r):
    """(value, key) of an output reference wherever it was created in the stored tree"""
    for b in world.chain.blocks.values():
        for t in b.txs:
            if t.id() == r[0] and r[1] < len(t.outputs):
                return t.outputs[r[1]]
    return None


def sign_each(world, unsigned, keys, rng):
    """sign input i with secret key of public key keys[i] (None -> a random generator key)"""
    msg = unsigned.signable_bytes()
    ins = []
    for (h, i, _s), k in zip(unsigned.inputs, keys):
        sk = world.sk_by_pk[k] if k in world.sk_by_pk else rng.choice(world.keys)[0]
        ins.append((h, i, (ref.SIG_EC, ref.sign(sk, msg))))
    return ref.RTx(ins, unsigned.outputs)


def unsigned_tx(refs, outs):
    return ref.RTx([(h, i, (ref.SIG_EQ,)) for (h, i) in refs], outs)


def finish(world, pid, rtxs, rng, ts=None, reward=None, miner=None):
    """draft + mine a block on pid containing rtxs; reward defaults to the subsidy alone (always within bound when
    fees are non-negative or undefined)"""
    parent = world.chain.blocks[pid]
    ts = ts if ts is not None else parent.ts + rng.choice([1, 60, 120])
    h = parent.height + 1
    if reward is None:
        reward = ref.subsidy(h)
        # half of the time the reward also claims the fees of the block's transactions (whenever they are defined: every
        # input exists in the parent's ledger) -- a block whose reward claims fees takes other paths through the validator
        if rtxs and rng.random() < 0.5:
            try:
                led = world.ledger(pid)
                fees = sum(ref.tx_fee(t, led) for t in rtxs)
                if fees > 0:
                    reward += fees
            except Exception:
                pass
    blk = world.draft(pid, rtxs, ts, miner or rng.choice(world.keys)[1], reward=reward)
    return world.mine(blk)


def pick_own(world, pid, rng, n=1, exclude=(), min_value=2):
    own = [x for x in world.owned(pid, exclude) if x[1] >= min_value]
    if len(own) < n:
        return None
    rng.shuffle(own)
    return own[:n]


# --------------------------------------------------------------------------- C01 classes
# each: (world, pid, rng) -> (rblock, must_codes, may_codes) or None when the chain offers no material

def c_valid_spend(world, pid, rng):
    t = world.make_rtx(pid, rng)
    if t is None:
        return None
    led = world.ledger(pid)
    blk = finish(world, pid, [t], rng, reward=ref.subsidy(world.chain.blocks[pid].height + 1) + ref.tx_fee(t, led))
    return blk, set(), set()


def c_valid_multi(world, pid, rng):
    used, txs = set(), []
    for _ in range(rng.randint(2, 4)):
        t = world.make_rtx(pid, rng, exclude=used, max_in=4, max_out=4)
        if t is None:
            break
        used.update(t.refs())
        txs.append(t)
    if not txs:
        return None
    return finish(world, pid, txs, rng), set(), set()


def c_missing_never_existed(world, pid, rng):
    k = rng.choice(world.keys)[1]
    mode = rng.randrange(3)
    if mode == 0:
        r = (rng.getrandbits(256).to_bytes(32, "big"), rng.randrange(3))
    else:
        # a real transaction id with an index beyond its outputs
        blk = world.chain.blocks[rng.choice(world.chain.ancestors(pid))]
        t = rng.choice(blk.txs)
        r = (t.id(), len(t.outputs) + rng.randrange(3))
    refs = [r]
    keys = [k]
    if mode == 2:
        own = pick_own(world, pid, rng)
        if own:
            refs.append(own[0][0])
            keys.append(own[0][2])
            rng.shuffle(refs)
            keys = [k if x == r else own[0][2] for x in refs]
    t = sign_each(world, unsigned_tx(refs, [(1000, k)]), keys, rng)
    return finish(world, pid, [t], rng), {"missing-input"}, set()


def c_spent_in_ancestor(world, pid, rng):
    spent = [r for r in ancestors_spent(world, pid)]
    rng.shuffle(spent)
    for r in spent:
        info = creation_info(world, r)
        if info and info[1] in world.sk_by_pk:
            t = sign_each(world, unsigned_tx([r], [(max(1, info[0] // 2), rng.choice(world.keys)[1])]), [info[1]], rng)
            return finish(world, pid, [t], rng), {"missing-input"}, set()
    return None


def c_other_fork_output(world, pid, rng):
    anc = set(world.chain.ancestors(pid))
    led = world.ledger(pid)
    others = [b for b in world.chain.order if b not in anc]
    rng.shuffle(others)
    for ob in others:
        oled = world.ledger(ob)
        cands = sorted(r for r, (v, k) in oled.items() if r not in led and k in world.sk_by_pk)
        spent = set(ancestors_spent(world, pid))
        cands = [r for r in cands if r not in spent]
        if cands:
            r = rng.choice(cands)
            v, k = oled[r]
            t = sign_each(world, unsigned_tx([r], [(max(1, v - 5), rng.choice(world.keys)[1])]), [k], rng)
            return finish(world, pid, [t], rng), {"missing-input"}, set()
    return None


def c_dup_ref_in_tx(world, pid, rng):
    own = pick_own(world, pid, rng)
    if not own:
        return None
    (r, v, k) = own[0]
    refs = [r, r]
    keys = [k, k]
    more = pick_own(world, pid, rng, exclude={r})
    if more and rng.random() < 0.5:
        refs.insert(rng.randrange(3), more[0][0])
        keys = [k if x == r else more[0][2] for x in refs]
    t = sign_each(world, unsigned_tx(refs, [(max(1, v // 2), rng.choice(world.keys)[1])]), keys, rng)
    return finish(world, pid, [t], rng), {"dup-ref-tx", "dup-ref-block"}, set()


def c_dup_ref_across_txs(world, pid, rng):
    own = pick_own(world, pid, rng)
    if not own:
        return None
    (r, v, k) = own[0]
    t1 = sign_each(world, unsigned_tx([r], [(max(1, v // 2), rng.choice(world.keys)[1])]), [k], rng)
    t2 = sign_each(world, unsigned_tx([r], [(max(1, v // 3), rng.choice(world.keys)[1])]), [k], rng)
    txs = [t1, t2]
    extra = world.make_rtx(pid, rng, exclude={r})
    if extra is not None:
        txs.insert(rng.randrange(3), extra)
    return finish(world, pid, txs, rng), {"dup-ref-block"}, set()


def c_spend_output_of_same_block(world, pid, rng):
    t1 = world.make_rtx(pid, rng, signer="ref")
    if t1 is None:
        return None
    idx = [i for i, (v, k) in enumerate(t1.outputs) if k in world.sk_by_pk]
    if not idx:
        return None
    i = rng.choice(idx)
    v, k = t1.outputs[i]
    t2 = sign_each(world, unsigned_tx([(t1.id(), i)], [(v, rng.choice(world.keys)[1])]), [k], rng)
    return finish(world, pid, [t1, t2], rng), {"missing-input"}, set()


def c_signed_by_other_key(world, pid, rng):
    own = pick_own(world, pid, rng, n=rng.choice([1, 2]))
    if not own:
        return None
    keys = [k for (_r, _v, k) in own]
    wrong = rng.randrange(len(own))
    keys[wrong] = rng.choice([kk for _s, kk in world.keys if kk != keys[wrong]])
    total = sum(v for _r, v, _k in own)
    t = sign_each(world, unsigned_tx([r for r, _v, _k in own], [(total, rng.choice(world.keys)[1])]), keys, rng)
    return finish(world, pid, [t], rng), {"badsig"}, set()


def c_altered_after_signing(world, pid, rng):
    t = world.make_rtx(pid, rng, max_in=2, max_out=3)
    if t is None:
        return None
    outs = list(t.outputs)
    ins = list(t.inputs)
    mode = rng.randrange(6)
    if mode == 0:        # redirect an output
        j = rng.randrange(len(outs))
        outs[j] = (outs[j][0], rng.choice([kk for _s, kk in world.keys if kk != outs[j][1]]))
    elif mode == 1:      # lower a value (still no overspend)
        j = rng.randrange(len(outs))
        if outs[j][0] < 2:
            return None
        outs[j] = (outs[j][0] - 1, outs[j][1])
    elif mode == 2:      # add an output out of the fee
        led = world.ledger(pid)
        if ref.tx_fee(t, led) < 1:
            return None
        outs.append((1, rng.choice(world.keys)[1]))
    elif mode == 3:      # reorder outputs
        if len(outs) < 2 or len(set(outs)) < 2:
            return None
        outs = outs[1:] + outs[:1]
        if outs == list(t.outputs):
            return None
    elif mode == 4:      # add a further, validly owned input after signing; its own signature is made over the
        more = pick_own(world, pid, rng, exclude=set(t.refs()))      # final content, the earlier ones are stale
        if not more:
            return None
        (r, v, k) = more[0]
        final = ref.RTx(ins + [(r[0], r[1], (ref.SIG_EQ,))], outs)
        ins = ins + [(r[0], r[1], (ref.SIG_EC, ref.sign(world.sk_by_pk[k], final.signable_bytes())))]
    else:                # reorder inputs
        if len(ins) < 2:
            return None
        ins = ins[1:] + ins[:1]
    return finish(world, pid, [ref.RTx(ins, outs)], rng), {"badsig"}, set()


def c_placeholder_for_signature(world, pid, rng):
    own = pick_own(world, pid, rng)
    if not own:
        return None
    (r, v, k) = own[0]
    mode = rng.randrange(4)
    h = world.chain.blocks[pid].height + 1
    if mode == 0:
        t = ref.RTx([(r[0], r[1], (ref.SIG_EQ,))], [(v, rng.choice(world.keys)[1])])
        return finish(world, pid, [t], rng), {"nonsig", "badsig"}, set()
    if mode == 1:
        t = ref.RTx([(r[0], r[1], (ref.SIG_CB, h, b"x"))], [(v, rng.choice(world.keys)[1])])
        return finish(world, pid, [t], rng), {"nonsig", "badsig"}, set()
    if mode == 2:       # null reference next to a real, signed one
        u = unsigned_tx([r, (ref.ZERO32, 0)], [(v, rng.choice(world.keys)[1])])
        t = sign_each(world, u, [k, k], rng)
        return finish(world, pid, [t], rng), {"nullref", "missing-input"}, set()
    # a second reward-style transaction
    t = ref.RTx([(ref.ZERO32, 0, (ref.SIG_CB, h, b"second"))], [(5, rng.choice(world.keys)[1])])
    return finish(world, pid, [t], rng), {"nullref", "nonsig", "missing-input"}, set()


def c_lifted_signature(world, pid, rng):
    own = pick_own(world, pid, rng)
    if not own:
        return None
    (r, v, k) = own[0]
    a = sign_each(world, unsigned_tx([r], [(v, rng.choice(world.keys)[1])]), [k], rng)
    other_outs = [(v, rng.choice([kk for _s, kk in world.keys if kk != a.outputs[0][1]]))]
    b = ref.RTx([(r[0], r[1], a.inputs[0][2])], other_outs)
    return finish(world, pid, [b], rng), {"badsig"}, set()


def c_signature_copied_within_transaction(world, pid, rng):
    """two inputs owned by different keys; one carries a byte-identical copy of the other's (valid) signature --
    all inputs of a transaction sign the same message, so only the key distinguishes them"""
    own = world.owned(pid)
    rng.shuffle(own)
    pair = None
    for i in range(len(own)):
        for j in range(i + 1, len(own)):
            if own[i][2] != own[j][2] and own[i][1] >= 2 and own[j][1] >= 2:
                pair = (own[i], own[j])
                break
        if pair:
            break
    if not pair:
        return None
    (r1, v1, k1), (r2, v2, k2) = pair
    t = sign_each(world, unsigned_tx([r1, r2], [(v1 + v2, rng.choice(world.keys)[1])]), [k1, k2], rng)
    ins = list(t.inputs)
    if rng.random() < 0.5:
        ins[1] = (ins[1][0], ins[1][1], ins[0][2])        # later input reuses the earlier input's signature
    else:
        ins[0] = (ins[0][0], ins[0][1], ins[1][2])
    if rng.random() < 0.3:
        ins = ins[::-1]
    return finish(world, pid, [ref.RTx(ins, t.outputs)], rng), {"badsig"}, set()


def c_signatures_over_partial_message(world, pid, rng):
    """every input signed by the right key, but only over its own reference + the outputs instead of the complete list of
    references (an attacker could then recombine separately signed inputs)"""
    own = pick_own(world, pid, rng, n=2)
    if not own:
        return None
    outs = [(sum(v for _r, v, _k in own), rng.choice(world.keys)[1])]
    ins = []
    for (r, v, k) in own:
        part = ref.RTx([(r[0], r[1], (ref.SIG_EQ,))], outs)
        ins.append((r[0], r[1], (ref.SIG_EC, ref.sign(world.sk_by_pk[k], part.signable_bytes()))))
    return finish(world, pid, [ref.RTx(ins, outs)], rng), {"badsig"}, set()


def c_lifted_from_validated_transaction(world, pid, rng):
    """the signatures of a transaction the node has already validated and stored (in block X) are reused on a sibling of X
    with the outputs redirected: the references are still unspent at X's parent, only the signed content differs.
    (pid is ignored: the parent is X's parent)"""
    blocks = [b for b in world.chain.order[1:] if len(world.chain.blocks[b].txs) > 1]
    rng.shuffle(blocks)
    for x in blocks:
        xb = world.chain.blocks[x]
        led = world.ledger(xb.prev)
        for t in xb.txs[1:]:
            if not all(r in led for r in t.refs()):
                continue
            other = [kk for _s, kk in world.keys if kk != t.outputs[0][1]]
            mode = rng.randrange(3)
            if mode == 0:
                outs = [(t.outputs[0][0], rng.choice(other))] + list(t.outputs[1:])
            elif mode == 1 and t.outputs[0][0] > 1:
                outs = [(t.outputs[0][0] - 1, t.outputs[0][1])] + list(t.outputs[1:])
            else:
                outs = list(t.outputs) + [(0, rng.choice(other))][:0] + ([(1, rng.choice(other))] if ref.tx_fee(t, led) >= 1 else [])
                if outs == list(t.outputs):
                    outs = [(t.outputs[0][0], rng.choice(other))] + list(t.outputs[1:])
            return finish(world, xb.prev, [ref.RTx(t.inputs, outs)], rng), {"badsig"}, set()
    return None


def c_mangled_signature(world, pid, rng):
    t = world.make_rtx(pid, rng, max_in=2)
    if t is None:
        return None
    ins = list(t.inputs)
    j = rng.randrange(len(ins))
    sig = bytearray(ins[j][2][1])
    mode = rng.randrange(6)
    n = ref.SECP_ORDER
    if mode == 0:
        sig[rng.randrange(64)] ^= 1 << rng.randrange(8)
    elif mode == 1:
        sig[:32] = b"\x00" * 32
    elif mode == 2:
        sig[32:] = b"\x00" * 32
    elif mode == 3:
        sig[:32] = n.to_bytes(32, "big")
    elif mode == 4:
        sig[32:] = (n + 1).to_bytes(32, "big")
    else:
        sig[:] = b"\xff" * 64
    ins[j] = (ins[j][0], ins[j][1], (ref.SIG_EC, bytes(sig)))
    return finish(world, pid, [ref.RTx(ins, t.outputs)], rng), {"badsig"}, set()


def c_output_locked_to_non_point(world, pid, rng):
    led = world.ledger(pid)
    cands = sorted(r for r, (v, k) in led.items() if k in world.bad_keys)
    if not cands:
        return None
    r = rng.choice(cands)
    v, k = led[r]
    t = sign_each(world, unsigned_tx([r], [(v, rng.choice(world.keys)[1])]), [None], rng)
    return finish(world, pid, [t], rng), {"badsig"}, set()


C01_CLASSES = {
    "valid-spend": c_valid_spend, "valid-multi": c_valid_multi,
    "a-never-existed": c_missing_never_existed, "b-spent-in-ancestor": c_spent_in_ancestor,
    "c-other-fork-output": c_other_fork_output, "d-reference-twice-in-transaction": c_dup_ref_in_tx,
    "e-reference-in-two-transactions": c_dup_ref_across_txs, "f-output-of-same-block": c_spend_output_of_same_block,
    "g-signed-by-other-key": c_signed_by_other_key, "h-altered-after-signing": c_altered_after_signing,
    "i-placeholder-for-signature": c_placeholder_for_signature, "j-lifted-signature": c_lifted_signature,
    "k-mangled-signature": c_mangled_signature, "l-output-locked-to-non-point": c_output_locked_to_non_point,
    "m-signature-copied-within-transaction": c_signature_copied_within_transaction,
    "n-signatures-over-partial-message": c_signatures_over_partial_message,
    "o-lifted-from-validated-transaction": c_lifted_from_validated_transaction,
}


def crowded(fn, least=12):
    """the same rule broken by ONE transaction of a well-filled block: the candidate of class fn plus enough valid,
    unrelated spends to give the block 12-21 ordinary transactions, the offending one(s) at a random position"""
    def build(world, pid, rng):
        # the tallest block has the most spendable outputs
        pid = max(world.chain.order, key=lambda b: (world.chain.blocks[b].height, b))
        built = fn(world, pid, rng)
        if built is None:
            return None
        rb, must, may = built
        bad = rb.txs[1:]
        used = {r for t in bad for r in t.refs()}
        created = {(t.id(), i) for t in bad for i in range(len(t.outputs))}
        extra = []
        for _ in range(rng.choice([least - 1, least, least + 3, least + 8])):
            t = world.make_rtx(pid, rng, exclude=used, max_in=1, max_out=2)
            if t is None:
                break
            used.update(t.refs())
            extra.append(t)
        if len(extra) + len(bad) < least or any(r in created for t in extra for r in t.refs()):
            return None
        txs = list(extra)
        for t in bad:
            txs.insert(rng.randrange(len(txs) + 1), t)
        return finish(world, pid, txs, rng, ts=rb.ts), must, may
    return build


C01_CROWDED = {"crowded:" + k: crowded(v) for k, v in {
    "a-never-existed": c_missing_never_existed, "b-spent-in-ancestor": c_spent_in_ancestor,
    "g-signed-by-other-key": c_signed_by_other_key, "h-altered-after-signing": c_altered_after_signing,
    "i-placeholder-for-signature": c_placeholder_for_signature, "k-mangled-signature": c_mangled_signature,
    "valid-spend": c_valid_spend}.items()}


# --------------------------------------------------------------------------- C02 classes
def _fees(world, pid, txs):
    led = world.ledger(pid)
    return sum(ref.tx_fee(t, led) for t in txs)


def v_reward_exact(world, pid, rng):
    txs = []
    if rng.random() < 0.7:
        t = world.make_rtx(pid, rng, fee=rng.choice([0, 1, 999, 123456]))
        if t is not None:
            txs.append(t)
    h = world.chain.blocks[pid].height + 1
    return finish(world, pid, txs, rng, reward=ref.subsidy(h) + _fees(world, pid, txs)), set(), set()


def v_reward_below(world, pid, rng):
    h = world.chain.blocks[pid].height + 1
    return finish(world, pid, [], rng, reward=rng.choice([0, 1, ref.subsidy(h) - 1])), set(), set()


def v_reward_plus_one(world, pid, rng):
    txs = []
    if rng.random() < 0.7:
        t = world.make_rtx(pid, rng, fee=rng.choice([0, 1, 999]))
        if t is not None:
            txs.append(t)
    h = world.chain.blocks[pid].height + 1
    return finish(world, pid, txs, rng, reward=ref.subsidy(h) + _fees(world, pid, txs) + 1), {"reward"}, set()


def v_reward_claims_absent_fee(world, pid, rng):
    t = world.make_rtx(pid, rng, fee=rng.choice([5, 1000]))
    if t is None:
        return None
    led = world.ledger(pid)
    fee = ref.tx_fee(t, led)
    if fee <= 0:
        return None
    h = world.chain.blocks[pid].height + 1
    return finish(world, pid, [], rng, reward=ref.subsidy(h) + fee), {"reward"}, set()


def v_reward_uses_reward_as_fee(world, pid, rng):
    """claims subsidy twice (as if the reward transaction itself counted as fee income)"""
    h = world.chain.blocks[pid].height + 1
    return finish(world, pid, [], rng, reward=2 * ref.subsidy(h)), {"reward"}, set()


def v_zero_value_output(world, pid, rng):
    own = pick_own(world, pid, rng)
    if not own:
        return None
    (r, v, k) = own[0]
    outs = [(0, rng.choice(world.keys)[1]), (v - 1, rng.choice(world.keys)[1])]
    rng.shuffle(outs)
    t = sign_each(world, unsigned_tx([r], outs), [k], rng)
    return finish(world, pid, [t], rng), {"tx-range"}, set()


def v_only_zero_output(world, pid, rng):
    own = pick_own(world, pid, rng)
    if not own:
        return None
    (r, v, k) = own[0]
    t = sign_each(world, unsigned_tx([r], [(0, rng.choice(world.keys)[1])]), [k], rng)
    return finish(world, pid, [t], rng), {"tx-range"}, set()


def v_no_outputs(world, pid, rng):
    own = pick_own(world, pid, rng)
    if not own:
        return None
    (r, v, k) = own[0]
    t = sign_each(world, unsigned_tx([r], []), [k], rng)
    return finish(world, pid, [t], rng), {"tx-noout"}, set()


def v_overspend_by_one(world, pid, rng):
    own = pick_own(world, pid, rng, n=rng.choice([1, 2]))
    if not own:
        return None
    total = sum(v for _r, v, _k in own)
    outs = [(total + 1, rng.choice(world.keys)[1])] if rng.random() < 0.5 else \
        [(total, rng.choice(world.keys)[1]), (1, rng.choice(world.keys)[1])]
    t = sign_each(world, unsigned_tx([r for r, _v, _k in own], outs), [k for _r, _v, k in own], rng)
    h = world.chain.blocks[pid].height + 1
    # the fee is -1; a reward of subsidy-1 keeps the reward bound satisfied so that only the overspend rule is broken
    return finish(world, pid, [t], rng, reward=ref.subsidy(h) - 1), {"overspend"}, set()


def v_exact_spend(world, pid, rng):
    own = pick_own(world, pid, rng, n=rng.choice([1, 2, 3]))
    if not own:
        return None
    total = sum(v for _r, v, _k in own)
    t = sign_each(world, unsigned_tx([r for r, _v, _k in own], [(total, rng.choice(world.keys)[1])]),
                  [k for _r, _v, k in own], rng)
    h = world.chain.blocks[pid].height + 1
    return finish(world, pid, [t], rng, reward=ref.subsidy(h)), set(), set()


def v_huge_output(world, pid, rng):
    own = pick_own(world, pid, rng)
    if not own:
        return None
    (r, v, k) = own[0]
    big = rng.choice([ref.MAX_SASHIMI + 1, (1 << 63), (1 << 64) - 1, (1 << 64) - v])
    t = sign_each(world, unsigned_tx([r], [(big, rng.choice(world.keys)[1])]), [k], rng)
    return finish(world, pid, [t], rng, reward=0), {"tx-range", "overspend"}, {"reward"}


def v_wraparound_total(world, pid, rng):
    """two outputs whose sum wraps to a small number modulo 2^64"""
    own = pick_own(world, pid, rng)
    if not own:
        return None
    (r, v, k) = own[0]
    a = (1 << 63) + rng.randrange(1000)
    outs = [(a, rng.choice(world.keys)[1]), ((1 << 64) - a + rng.randrange(1, max(2, v)), rng.choice(world.keys)[1])]
    t = sign_each(world, unsigned_tx([r], outs), [k], rng)
    return finish(world, pid, [t], rng, reward=0), {"tx-range", "overspend"}, {"reward"}


def v_two_rewards(world, pid, rng):
    h = world.chain.blocks[pid].height + 1
    second = world.coinbase(h, rng.choice([1, ref.subsidy(h)]), rng.choice(world.keys)[1], b"again")
    return finish(world, pid, [second], rng, reward=rng.choice([0, ref.subsidy(h)])), \
        {"nullref", "nonsig", "missing-input"}, set()


def v_reward_not_first(world, pid, rng):
    t = world.make_rtx(pid, rng)
    if t is None:
        return None
    blk = world.draft(pid, [t], world.chain.blocks[pid].ts + 60, rng.choice(world.keys)[1])
    blk.txs = [blk.txs[1], blk.txs[0]]
    return world.mine(blk, fix_merkle=True), {"cb-shape"}, {"nullref", "nonsig", "missing-input", "reward"}


def v_reward_two_null_inputs(world, pid, rng):
    h = world.chain.blocks[pid].height + 1
    blk = world.draft(pid, [], world.chain.blocks[pid].ts + 60, rng.choice(world.keys)[1])
    cb = blk.txs[0]
    blk.txs[0] = ref.RTx(cb.inputs + [(ref.ZERO32, 0, (ref.SIG_CB, h, b"b"))], cb.outputs)
    return world.mine(blk, fix_merkle=True), {"cb-shape"}, set()


def v_reward_references_real_output(world, pid, rng):
    own = pick_own(world, pid, rng)
    if not own:
        return None
    h = world.chain.blocks[pid].height + 1
    blk = world.draft(pid, [], world.chain.blocks[pid].ts + 60, rng.choice(world.keys)[1])
    blk.txs[0] = ref.RTx([(own[0][0][0], own[0][0][1], (ref.SIG_CB, h, b""))], blk.txs[0].outputs)
    return world.mine(blk, fix_merkle=True), {"cb-shape"}, set()


def v_reward_without_coinbase_data(world, pid, rng):
    blk = world.draft(pid, [], world.chain.blocks[pid].ts + 60, rng.choice(world.keys)[1])
    sig = ref.sign(rng.choice(world.keys)[0], b"x")
    blk.txs[0] = ref.RTx([(ref.ZERO32, 0, rng.choice([(ref.SIG_EQ,), (ref.SIG_EC, sig)]))], blk.txs[0].outputs)
    return world.mine(blk, fix_merkle=True), {"cb-shape"}, set()


def v_reward_split_outputs(world, pid, rng):
    """several reward outputs summing exactly to the bound (allowed), or one unit above (not)"""
    h = world.chain.blocks[pid].height + 1
    over = rng.random() < 0.5
    total = ref.subsidy(h) + (1 if over else 0)
    a = rng.randrange(0, total)
    blk = world.draft(pid, [], world.chain.blocks[pid].ts + 60, rng.choice(world.keys)[1])
    blk.txs[0] = ref.RTx(blk.txs[0].inputs, [(a, rng.choice(world.keys)[1]), (total - a, rng.choice(world.keys)[1])])
    return world.mine(blk, fix_merkle=True), ({"reward"} if over else set()), set()


def v_reward_with_top_bit_amount(world, pid, rng):
    """reward outputs [bound + k, 2^64 - k]: as unsigned numbers far above the bound; a codec that read amounts as signed
    would see [bound + k, -k]"""
    h = world.chain.blocks[pid].height + 1
    k = rng.choice([1, 1, 5, ref.subsidy(h), ref.MAX_SASHIMI - ref.subsidy(h) + 1])
    blk = world.draft(pid, [], world.chain.blocks[pid].ts + 60, rng.choice(world.keys)[1])
    outs = [(ref.subsidy(h) + k, rng.choice(world.keys)[1]), ((1 << 64) - k, rng.choice(world.keys)[1])]
    rng.shuffle(outs)
    blk.txs[0] = ref.RTx(blk.txs[0].inputs, outs)
    return world.mine(blk, fix_merkle=True), {"reward"}, set()


def v_reward_over_fees_of_several_transactions(world, pid, rng):
    """two to five ordinary transactions, and a reward that claims more than subsidy plus the sum of THEIR fees (by one
    unit, or by part of what the earlier transactions pay out)"""
    txs = []
    used = set()
    for _ in range(rng.choice([2, 2, 3, 5])):
        t = world.make_rtx(pid, rng, exclude=used, fee=rng.choice([0, 1, 999, None]))
        if t is None:
            break
        used.update(t.refs())
        txs.append(t)
    if len(txs) < 2:
        return None
    h = world.chain.blocks[pid].height + 1
    earlier_out = sum(v for t in txs[:-1] for v, _k in t.outputs)
    extra = rng.choice([1, 1, max(1, earlier_out // 2), earlier_out])
    return finish(world, pid, txs, rng, reward=ref.subsidy(h) + _fees(world, pid, txs) + extra), {"reward"}, set()


def v_reward_exact_with_several_transactions(world, pid, rng):
    txs = []
    used = set()
    for _ in range(rng.choice([2, 3, 5])):
        t = world.make_rtx(pid, rng, exclude=used, fee=rng.choice([0, 1, 999, None]))
        if t is None:
            break
        used.update(t.refs())
        txs.append(t)
    if len(txs) < 2:
        return None
    h = world.chain.blocks[pid].height + 1
    return finish(world, pid, txs, rng, reward=ref.subsidy(h) + _fees(world, pid, txs)), set(), set()


def v_reward_split_over_bound(world, pid, rng):
    """a reward split over several outputs, each of them within the bound, their sum above it"""
    txs = []
    if rng.random() < 0.5:
        t = world.make_rtx(pid, rng, fee=rng.choice([0, 1, 999]))
        if t is not None:
            txs.append(t)
    parent = world.chain.blocks[pid]
    bound = ref.subsidy(parent.height + 1) + _fees(world, pid, txs)
    k1, k2 = rng.choice(world.keys)[1], rng.choice(world.keys)[1]
    outs = rng.choice([[(bound, k1), (1, k2)], [(bound, k1), (bound, k2)], [(bound // 2 + 1, k1), (bound - bound // 2, k2)],
                       [(1, k1), (bound, k2)]])
    ts = parent.ts + rng.choice([1, 60, 120])
    blk = world.draft(pid, txs, ts, k1, reward_outputs=outs)
    return world.mine(blk), {"reward"}, set()


def v_output_spent_by_two_transactions(world, pid, rng):
    """value created by spending one output twice inside a block: two different, correctly signed transactions on the same
    output (sometimes the very same transaction listed twice), the reward claiming the fees of both"""
    own = pick_own(world, pid, rng)
    if not own:
        return None
    (r, v, k) = own[0]
    t1 = sign_each(world, unsigned_tx([r], [(max(1, v // 2), rng.choice(world.keys)[1])]), [k], rng)
    t2 = sign_each(world, unsigned_tx([r], [(max(1, v // 3), rng.choice(world.keys)[1])]), [k], rng)
    txs = [t1, t1] if rng.random() < 0.25 else [t1, t2]
    extra = world.make_rtx(pid, rng, exclude={r})
    if extra is not None:
        txs.insert(rng.randrange(3), extra)
    led = world.ledger(pid)
    fees = sum(ref.tx_fee(t, led) for t in txs)
    parent = world.chain.blocks[pid]
    reward = ref.subsidy(parent.height + 1) + rng.choice([0, fees])
    return finish(world, pid, txs, rng, reward=reward), {"dup-ref-block"}, {"dup-tx", "reward"}


C02_CLASSES = {
    "reward-exactly-at-bound": v_reward_exact, "reward-below-bound": v_reward_below, "reward-plus-one": v_reward_plus_one,
    "reward-claims-fee-of-absent-transaction": v_reward_claims_absent_fee,
    "reward-double-subsidy": v_reward_uses_reward_as_fee, "zero-value-output": v_zero_value_output,
    "only-zero-output": v_only_zero_output, "no-outputs": v_no_outputs, "overspend-by-one": v_overspend_by_one,
    "exact-spend-fee-zero": v_exact_spend, "over-limit-output": v_huge_output, "wraparound-total": v_wraparound_total,
    "two-reward-transactions": v_two_rewards, "reward-not-first": v_reward_not_first,
    "reward-two-null-inputs": v_reward_two_null_inputs, "reward-references-real-output": v_reward_references_real_output,
    "reward-without-coinbase-data": v_reward_without_coinbase_data, "reward-split-outputs": v_reward_split_outputs,
    "valid-spend": c_valid_spend, "valid-multi": c_valid_multi, "reward-with-top-bit-amount": v_reward_with_top_bit_amount,
    "output-spent-by-two-transactions": v_output_spent_by_two_transactions,
    "reward-over-fees-of-several-transactions": v_reward_over_fees_of_several_transactions,
    "reward-split-over-bound": v_reward_split_over_bound,
    "reward-exactly-at-bound-several-transactions": v_reward_exact_with_several_transactions,
}


C02_CROWDED = {"crowded:" + k: crowded(v) for k, v in {
    "zero-value-output": v_zero_value_output, "only-zero-output": v_only_zero_output, "no-outputs": v_no_outputs,
    "overspend-by-one": v_overspend_by_one, "over-limit-output": v_huge_output, "wraparound-total": v_wraparound_total,
    "valid-spend": c_valid_spend}.items()}


# --------------------------------------------------------------------------- the monitored attempt
class Stream:
    def __init__(self, prop_codes, viol_prefix):
        self.prop_codes = prop_codes
        self.viol = []
        self.c = {"attempts": 0, "accepted": 0, "rejected": 0, "by_class": {}, "accepted_by_class": {},
                  "rejection_reasons": {}, "class_material_missing": {}, "class_generation_mismatch": {},
                  "accepted_with_ordinary_tx": 0, "state_fingerprints_compared": 0, "followup_valid_accepted": 0,
                  "ref_valid_but_rejected": 0, "parents_head": 0, "parents_old": 0, "parents_losing_tip": 0,
                  "conservation_checks": 0}
        self.digests = set()
        self.samples = []
        self.prefix = viol_prefix
        self.fingerprint = gen.fingerprint
        self.rejected_pool = []     # candidates refused earlier: offered again later (the verdict must not depend on history)

    def v(self, key, msg, w):
        if sum(1 for x in self.viol if x["key"] == key) < 3:
            self.viol.append({"key": key, "msg": msg, "witness": w})

    def pick_parent(self, world, rng):
        cs = world.cs
        r = rng.random()
        tips = sorted(cs.heads.keys())
        if r < 0.4:
            self.c["parents_head"] += 1
            return cs.current_chain_hash
        losing = [t for t in tips if t != cs.current_chain_hash]
        if r < 0.7 and losing:
            self.c["parents_losing_tip"] += 1
            return rng.choice(losing)
        self.c["parents_old"] += 1
        return rng.choice(world.chain.order)

    def witness(self, world, rblk, now, cls):
        order = world.chain.order[1:]
        w = {"chain": gen.blocks_hex(world, order), "candidate": rblk.enc().hex(), "now": now, "class": cls,
             "period": world.params.period}
        if getattr(self, "horizon_at_head", False):
            import skepticoin.consensus as cons
            w["horizon"] = cons.MAX_KNOWN_HASH_HEIGHT
        return w

    def attempt(self, world, rblk, now, cls, must=None, may=None, claim_valid_accept=False):
        """one monitored add_block on the state that holds the whole tree"""
        from skv.runner import digest
        c = self.c
        cs = world.cs
        real = bridge.rblock_to_real(rblk)
        if (c["attempts"] + len(cls)) % 2:
            # every other candidate is decoded from its bytes, as it would arrive from a peer or from the store
            try:
                from skepticoin.datatypes import Block
                real = Block.deserialize(rblk.enc())
                c["candidates_decoded_from_bytes"] = c.get("candidates_decoded_from_bytes", 0) + 1
            except Exception:
                pass
        codes = ref.block_codes(world.chain, rblk, now)
        if must is not None and not (must <= codes and codes <= (must | (may or set()))):
            c["class_generation_mismatch"][cls] = c["class_generation_mismatch"].get(cls, 0) + 1
            return None
        c["attempts"] += 1
        c["by_class"][cls] = c["by_class"].get(cls, 0) + 1
        self.digests.add(digest(rblk.enc(), now))
        before = self.fingerprint(cs)
        exc = None
        new = None
        try:
            new = cs.add_block(real, now)
        except Exception as e:     # any exception is a rejection
            exc = e
        after = self.fingerprint(cs)
        c["state_fingerprints_compared"] += 1
        w = None
        if after != before:
            w = self.witness(world, rblk, now, cls)
            self.v("receiver-state-changed-by-add_block", "class %s: the state object add_block was called on changed "
                   "(accepted=%s)" % (cls, exc is None), w)
        if exc is None:
            c["accepted"] += 1
            c["accepted_by_class"][cls] = c["accepted_by_class"].get(cls, 0) + 1
            # whatever was accepted: the id THE NODE knows the block under must itself be below the stated target
            try:
                node_id = real.hash()
                c["accepted_ids_compared_with_target"] = c.get("accepted_ids_compared_with_target", 0) + 1
                if not node_id < real.header.summary.target:
                    self.v("accepted-although-node-id-not-below-target", "class %s: accepted block is known to the node under id "
                           "%s.., which is not below its stated target %s.." % (cls, node_id.hex()[:12], real.header.summary.target.hex()[:12]),
                           w or self.witness(world, rblk, now, cls))
            except Exception:
                pass
            if len(rblk.txs) > 1:
                c["accepted_with_ordinary_tx"] += 1
            bad = codes & self.prop_codes
            if bad:
                w = w or self.witness(world, rblk, now, cls)
                self.v("%s:%s" % (self.prefix, "+".join(sorted(bad))), "class %s: block ACCEPTED by full validation although "
                       "the reference finds %s" % (cls, sorted(codes)), w)
            if rblk.id() not in new.block_by_hash:
                w = w or self.witness(world, rblk, now, cls)
                self.v("accepted-block-not-in-returned-state", "class %s" % cls, w)
            if not codes:
                world.cs = new
                world.accept(rblk, real, cs=new)
                self.post_accept(world, rblk, w or None, cls, now)
        else:
            c["rejected"] += 1
            if not cls.endswith("@re-offered") and len(self.rejected_pool) < 400:
                self.rejected_pool.append((rblk, now, cls))
            reason = "%s: %s" % (type(exc).__name__, re.sub(r"[0-9a-f]{8,}", "#", str(exc))[:70])
            c["rejection_reasons"][reason] = c["rejection_reasons"].get(reason, 0) + 1
            if not codes:
                c["ref_valid_but_rejected"] += 1
                if claim_valid_accept:
                    w = w or self.witness(world, rblk, now, cls)
                    self.v("valid-assembled-block-rejected", "class %s: reference finds no broken rule, add_block raised %r" % (
                        cls, exc), w)
        if len(self.samples) < 3 and codes:
            self.samples.append({"class": cls, "reference_codes": sorted(codes), "accepted": exc is None,
                                 "rejection": None if exc is None else "%s: %s" % (type(exc).__name__, str(exc)[:80]),
                                 "candidate_bytes": len(rblk.enc()), "parent_height": rblk.height - 1})
        return exc is None

    def post_accept(self, world, rblk, w, cls, now):
        pass

    def attempt_bytes(self, world, rblk, data, now, cls):
        """a VALID block offered as a byte string that is not its canonical encoding (another spelling of a length/height
        field): refusing to decode it or refusing the block are both fine; if it is accepted, the id the node assigns must
        be below the stated target and must be the double SHA-256 of the header bytes it received"""
        import hashlib
        from skepticoin.datatypes import Block
        from skv.runner import digest
        c = self.c
        c["byte_level_offers"] = c.get("byte_level_offers", 0) + 1
        c["by_class"][cls] = c["by_class"].get(cls, 0) + 1
        self.digests.add(digest(data, now, "bytes"))
        try:
            real = Block.deserialize(data)
        except Exception:
            c["byte_level_refused_by_decoder"] = c.get("byte_level_refused_by_decoder", 0) + 1
            return False
        cs = world.cs
        try:
            cs.add_block(real, now)
        except Exception:
            c["byte_level_refused_by_validation"] = c.get("byte_level_refused_by_validation", 0) + 1
            return False
        c["byte_level_accepted"] = c.get("byte_level_accepted", 0) + 1
        w = dict(self.witness(world, rblk, now, cls), offered_bytes=data.hex())
        node_id = real.hash()
        if not node_id < real.header.summary.target:
            self.v("accepted-although-node-id-not-below-target", "class %s: a block offered as non-canonical bytes is accepted and "
                   "known to the node under id %s.., which is not below its stated target" % (cls, node_id.hex()[:12]), w)
        hdr_len = len(real.header.serialize())
        if data != rblk.enc():
            self.v("non-canonical-bytes-accepted-as-block", "class %s: bytes that are not the canonical encoding of the block are "
                   "decoded and the block is accepted (node id %s.., canonical id %s..)" % (cls, node_id.hex()[:12], rblk.id().hex()[:12]), w)
        return True

    def reoffer(self, world, rng, n=1):
        """a candidate refused earlier is offered again (immediately-after and much-later cases both arise)"""
        for _ in range(n):
            live = [x for x in self.rejected_pool if x[0].prev in world.chain.blocks or True]
            if not live:
                return
            rblk, now, cls = rng.choice(live[-40:]) if rng.random() < 0.7 else rng.choice(live)
            self.c["reoffered"] = self.c.get("reoffered", 0) + 1
            self.attempt(world, rblk, now, cls + "@re-offered")

    def followup(self, world, rng):
        """after rejections the receiver must still accept a valid block"""
        pid = world.cs.current_chain_hash
        rb, real = world.assemble(pid, [], world.chain.blocks[pid].ts + 1, rng.choice(world.keys)[1])
        ok = self.attempt(world, rb, rb.ts, "followup-valid", set(), set(), claim_valid_accept=True)
        if ok:
            self.c["followup_valid_accepted"] += 1

    def run_world(self, rng, classes, nblocks, ncand, bad_key_prob=0.15, params=None, horizon_at_head=False):
        """horizon_at_head: the checkpoint horizon (the height up to which in-state validation is skipped by design) is
        set to the height of the current head before every candidate, and every candidate is built on the head -- so each
        candidate is the FIRST block above the horizon, the lowest height at which every rule must be enforced"""
        import skepticoin.consensus as cons
        self.rejected_pool = []
        self.horizon_at_head = horizon_at_head
        world = gen.World(rng, params=params)
        world.bad_key_prob = bad_key_prob
        world.odd_reward_prob = rng.choice([0.0, 0.25])
        world.grow(nblocks, rng, tx_prob=0.7)
        names = sorted(classes)
        for k in range(ncand):
            cls = names[(k + rng.randrange(2)) % len(names)] if rng.random() < 0.7 else rng.choice(names)
            pid = self.pick_parent(world, rng)
            if horizon_at_head:
                pid = world.cs.current_chain_hash
                cons.MAX_KNOWN_HASH_HEIGHT = world.cs.head().height
                cons.KNOWN_HASHES = {}
                self.c["candidates_first_above_horizon"] = self.c.get("candidates_first_above_horizon", 0) + 1
            try:
                built = classes[cls](world, pid, rng)
            except (ValueError, struct.error, RuntimeError, OverflowError):
                built = None
            if built is None:
                self.c["class_material_missing"][cls] = self.c["class_material_missing"].get(cls, 0) + 1
                continue
            rblk, must, may = built
            if horizon_at_head and rblk.height <= cons.MAX_KNOWN_HASH_HEIGHT:
                # (a class that picks its own, older parent: at or below the horizon in-state validation is skipped by design)
                self.c["candidates_below_horizon_skipped"] = self.c.get("candidates_below_horizon_skipped", 0) + 1
                continue
            now = rblk.ts + rng.choice([-30, -29, 0, 1, 3600])
            self.attempt(world, rblk, now, cls, must, may)
            if rng.random() < 0.35 and not horizon_at_head:       # (an older candidate may lie below the moved horizon)
                self.reoffer(world, rng)
            if k % 9 == 8:
                self.followup(world, rng)
            if k % 5 == 4:
                if horizon_at_head:
                    cons.MAX_KNOWN_HASH_HEIGHT = -1
                world.grow(1, rng, tx_prob=0.8)
        if horizon_at_head:
            cons.MAX_KNOWN_HASH_HEIGHT = -1
        return world

    def two_thread_lane(self, world, rng, npairs, points=24):
        """two threads validate at once (the networking thread a block from a peer, the miner thread the block it found; or
        two connections' blocks in turn while another thread reads).  Thread A runs full validation of one candidate; at a
        sample of its statement boundaries / function entries inside the validation modules it is held while thread B
        validates ANOTHER candidate from start to finish.  A rule-breaking candidate must be refused and a valid one accepted,
        whatever the other thread validated in between"""
        import skepticoin.consensus as cons
        import skepticoin.coinstate as csm
        import skepticoin.balances as bal
        import skepticoin.pow as pw
        import skepticoin.datatypes as dt
        import skepticoin.signing as sg
        import skepticoin.merkletree as mt
        import skepticoin.hash as hm
        import skepticoin.serialization as ser
        from skv import preempt
        c = self.c
        bad = [(rb, now, cls) for (rb, now, cls) in self.rejected_pool
               if rb.prev in world.chain.blocks and rb.id() not in world.chain.blocks and (ref.block_codes(world.chain, rb, now) & self.prop_codes)]
        if not bad:
            return
        pre = preempt.Preempter([cons, csm, bal, pw, dt, sg, mt, hm, ser])
        if not pre.ok:
            c["two_thread_tool_slot_taken"] = 1
            return
        cs = world.cs
        head = cs.current_chain_hash
        state = preempt.ModuleState([cons, csm, bal, pw, dt, sg, mt, hm, ser])
        try:
            for _ in range(npairs):
                rb_bad, now_bad, cls = rng.choice(bad)
                # a fully valid block on the head, with ordinary transactions where the ledger allows
                try:
                    txs, used = [], set()
                    for _k in range(rng.choice([0, 1, 3])):
                        t = world.make_rtx(head, rng, exclude=used)
                        if t is None:
                            break
                        used.update(t.refs())
                        txs.append(t)
                    parent = world.chain.blocks[head]
                    rb_ok = world.mine(world.draft(head, txs, parent.ts + rng.choice([1, 60]), rng.choice(world.keys)[1]))
                except Exception:
                    continue
                now_ok = rb_ok.ts
                if ref.block_codes(world.chain, rb_ok, now_ok):
                    continue
                enc_bad, enc_ok = rb_bad.enc(), rb_ok.enc()

                def job(enc, now):
                    def work():
                        blk = dt.Block.deserialize(enc)
                        new = cs.add_block(blk, now)
                        return blk.hash() in new.block_by_hash
                    return work
                for first_is_bad in (True, False):
                    ja, jb = (job(enc_bad, now_bad), job(enc_ok, now_ok)) if first_is_bad else (job(enc_ok, now_ok), job(enc_bad, now_bad))
                    total = pre.count(ja)
                    c["two_thread_pairs"] = c.get("two_thread_pairs", 0) + 1
                    ks = pre.points_by_location(rng, points)
                    c["two_thread_locations_seen"] = len(pre.loc_uses)
                    for k in ks:
                        state.restore()
                        a, b, ran = pre.run(ja, jb, k)
                        if not ran:
                            continue
                        c["two_thread_switch_points"] = c.get("two_thread_switch_points", 0) + 1
                        got_bad, got_ok = (a, b) if first_is_bad else (b, a)
                        # what the race left behind: both validations once more, alone
                        a2, b2 = preempt.safe(ja), preempt.safe(jb)
                        again_bad, again_ok = (a2, b2) if first_is_bad else (b2, a2)
                        if got_bad is not True and again_bad is True:
                            got_bad = True
                        if got_ok is True and again_ok is not True:
                            got_ok = again_ok
                        if got_bad is True:
                            codes = ref.block_codes(world.chain, rb_bad, now_bad) & self.prop_codes
                            w = dict(self.witness(world, rb_bad, now_bad, cls), two_threads=True, other_candidate=enc_ok.hex(),
                                     switch_at_event=k, of_events=total, held_thread_validates="the rule-breaking block" if first_is_bad else "the valid block")
                            self.v("%s:%s" % (self.prefix, "+".join(sorted(codes))), "class %s: block ACCEPTED by full validation "
                                   "although the reference finds %s -- while another thread validated a valid block (switch at event "
                                   "%d of %d)" % (cls, sorted(codes), k, total), w)
                        if got_ok is not True:
                            w = dict(self.witness(world, rb_ok, now_ok, "valid-on-head"), two_threads=True, other_candidate=enc_bad.hex(),
                                     switch_at_event=k, of_events=total)
                            self.v("valid-block-refused-while-another-thread-validates", "a fully valid block is refused (%r) when another "
                                   "thread validates a %s block at the same time (switch at event %d of %d)" % (got_ok, cls, k, total), w)
        finally:
            state.restore()
            pre.close()

    def replay(self, w, rng):
        params = ref.Params(period=w.get("period", ref.RETARGET_PERIOD))
        world = gen.World(rng, params=params)
        for hx in w["chain"]:
            rb = ref.parse_block(bytes.fromhex(hx))
            world.accept(rb, bridge.rblock_to_real(rb), validate=False)
        rb = ref.dec_block(bytes.fromhex(w["candidate"]), strict=False)[0]
        if "horizon" in w:
            import skepticoin.consensus as cons
            cons.MAX_KNOWN_HASH_HEIGHT = w["horizon"]
            cons.KNOWN_HASHES = {}
        if "offered_bytes" in w:
            self.attempt_bytes(world, rb, bytes.fromhex(w["offered_bytes"]), w["now"], w.get("class", "replay"))
            return
        self.attempt(world, rb, w["now"], w.get("class", "replay"))

    def result(self):
        return {"evaluations": self.c["attempts"], "digests": sorted(self.digests), "violations": self.viol,
                "counters": self.c, "samples": self.samples}
