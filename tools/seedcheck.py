#!/usr/bin/env python3
"""Confirms a seeded property-breaking change and runs the registered checks against it.

usage: tools/seedcheck.py <seed dir with patch.diff, demo.py, meta.json> <property> [--checks C03,C15] [--tier quick]

Steps (all on a scratch copy of /repo outside /repo and /verif, removed afterwards):
  1. demo passes on the unchanged copy           2. patch applies
  3. the repository's own test suite still passes 4. demo fails with the change
  5. the property's check (and any extra ones) is run with VERIF_REPO=<copy>
"""
import argparse
import json
import os
import shutil
import subprocess
import sys
import tempfile

HERE = os.path.dirname(os.path.dirname(os.path.abspath(__file__)))


def run(cmd, cwd=None, env=None, timeout=3600):
    p = subprocess.run(cmd, cwd=cwd, env=env, stdout=subprocess.PIPE, stderr=subprocess.STDOUT, timeout=timeout)
    return p.returncode, p.stdout.decode(errors="replace")


def demo(seed, copy):
    d = tempfile.mkdtemp(prefix="skv-seed-run-")
    name = "demo.py" if os.path.exists(os.path.join(seed, "demo.py")) else "test_demo.py"
    env = dict(os.environ, PYTHONPATH=copy, PYTHONDONTWRITEBYTECODE="1")
    if name == "demo.py":
        rc, out = run(["/venv/bin/python", os.path.join(seed, name)], cwd=d, env=env, timeout=600)
    else:
        rc, out = run(["/venv/bin/python", "-m", "pytest", "-q", "-p", "no:cacheprovider", os.path.join(seed, name)], cwd=d, env=env, timeout=600)
    shutil.rmtree(d, ignore_errors=True)
    return rc, out


def main():
    ap = argparse.ArgumentParser()
    ap.add_argument("seed")
    ap.add_argument("prop")
    ap.add_argument("--checks")
    ap.add_argument("--tier", default="quick")
    ap.add_argument("--skip-confirm", action="store_true")
    a = ap.parse_args()
    seed = os.path.abspath(a.seed)
    scratch = tempfile.mkdtemp(prefix="skv-seed-")
    copy = os.path.join(scratch, "repo")
    report = {"property": a.prop, "seed": seed}
    try:
        shutil.copytree("/repo", copy, ignore=shutil.ignore_patterns(".git", "__pycache__", "*.pyc", "chain.db", "test.db", "SEED"))
        if not a.skip_confirm:
            rc, out = demo(seed, copy)
            report["demo_on_original"] = "passes" if rc == 0 else "FAILS rc=%s: %s" % (rc, out[-300:])
        rc, out = run(["patch", "-p1", "-i", os.path.join(seed, "patch.diff")], cwd=copy)
        report["patch_applies"] = rc == 0 or out[-300:]
        if rc != 0:
            print(json.dumps(report, indent=1))
            return 2
        if not a.skip_confirm:
            rc, out = run(["/venv/bin/python", "-m", "pytest", "-q", "-p", "no:cacheprovider", "--timeout=900"], cwd=copy)
            report["test_suite_with_change"] = out.strip().splitlines()[-1] if out.strip() else rc
            if rc != 0 and "tests/networking" in out and out.count("FAILED") == out.count("FAILED tests/networking"):
                # the two integration tests bind fixed ports; another pytest on this machine makes them fail spuriously
                import time
                for _ in range(4):
                    time.sleep(3)
                    rc2, out2 = run(["/venv/bin/python", "-m", "pytest", "-q", "-p", "no:cacheprovider", "tests/networking"], cwd=copy)
                    if rc2 == 0:
                        report["test_suite_with_change"] += " ; networking tests re-run alone: " + out2.strip().splitlines()[-1]
                        break
            rc, out = demo(seed, copy)
            report["demo_with_change"] = "fails (rc=%s)" % rc if rc != 0 else "PASSES (change not demonstrated)"
        checks = (a.checks.split(",") if a.checks else [a.prop])
        evdir = tempfile.mkdtemp(prefix="skv-seed-ev-")
        report["checks"] = {}
        for c in checks:
            env = dict(os.environ, VERIF_REPO=copy, VERIF_EVIDENCE_DIR=evdir, VERIF_REPLAY_DIR=evdir)
            rc, out = run([os.path.join(HERE, "check"), c, "--tier", a.tier], cwd=HERE, env=env)
            keys = [l.strip()[:260] for l in out.splitlines() if l.strip().startswith("witness key=")]
            inc = [l.strip()[:260] for l in out.splitlines() if l.startswith("INCONCLUSIVE")]
            report["checks"][c] = {"rc": rc, "verdict": {0: "held (MISSED)", 1: "VIOLATION (caught)", 2: "inconclusive"}.get(rc, rc),
                                   "witnesses": keys[:4], "inconclusive": inc[:2]}
        shutil.rmtree(evdir, ignore_errors=True)
    finally:
        shutil.rmtree(scratch, ignore_errors=True)
    print(json.dumps(report, indent=1))
    return 0


if __name__ == "__main__":
    sys.exit(main())
