#!/usr/bin/env python3
"""Mutation self-test of the monitors (not a registered check).

For every mutant below: copy /repo to a scratch directory outside /repo and /verif, apply the edit,
run the repository's own test suite there (a mutant the tests kill is not interesting), run the
property's quick check with VERIF_REPO=<copy>, require a VIOLATION line, delete the copy.

usage: tools/selftest.py [--only C01,C05] [--ids m01c,...] [--tier quick] [--keep-going]
"""
import argparse
import json
import os
import shutil
import subprocess
import sys
import tempfile
import time

HERE = os.path.dirname(os.path.dirname(os.path.abspath(__file__)))
REPO = "/repo"

# (id, property, file, old, new, note)
M = []


def m(mid, prop, path, old, new, note=""):
    M.append({"id": mid, "prop": prop, "file": path, "old": old, "new": new, "note": note})


CONS = "skepticoin/consensus.py"
# ---- C01
m("m01a", "C01", CONS, "    validate_no_duplicate_output_references_in_transactions(block.transactions[1:])\n",
  "    pass\n", "drop the duplicate-reference-in-block check")
m("m01b", "C01", "skepticoin/datatypes.py", "            inputs=[input.signable_equivalent() for input in self.inputs],\n            outputs=self.outputs,",
  "            inputs=[input.signable_equivalent() for input in self.inputs],\n            outputs=[],", "signed message omits outputs")
m("m01c", "C01", CONS, "    if not input.signature.validate(previous_output.public_key, message):", "    if False:",
  "skip signature verification")
m("m01d", "C01", CONS, "        validate_non_coinbase_transaction_in_coinstate(transaction, block.previous_block_hash, coinstate)",
  "        validate_non_coinbase_transaction_in_coinstate(transaction, coinstate.current_chain_hash, coinstate)",
  "inputs looked up in the head's instead of the parent's unspent set")
m("m01e", "C01", CONS, "        if input.output_reference not in unspent_transaction_outs:\n            raise ValidateTransactionError(\"input's output_reference does not exist as an unspent out\")\n\n        previous_output = unspent_transaction_outs[input.output_reference]",
  "        previous_output = unspent_transaction_outs[input.output_reference] if input.output_reference in unspent_transaction_outs else Output(0, transaction.outputs[0].public_key)\n        if input.output_reference not in unspent_transaction_outs:\n            continue",
  "missing inputs are skipped instead of rejected")
m("m01f", "C01", CONS, "    message = transaction.signable_equivalent().serialize()\n    assert input.signature",
  "    message = Transaction(inputs=[input.signable_equivalent()], outputs=transaction.outputs).serialize()\n    assert input.signature",
  "signature covers only the input's own reference (wallet signs the same way? no: wallet unchanged)")
m("m01g", "C01", "skepticoin/signing.py", "            vk.verify(signature.signature, message)\n            return True\n        except ecdsa.keys.BadSignatureError:\n            return False",
  "            vk.verify(signature.signature, message)\n            globals()['_verdict'] = True\n        except ecdsa.keys.BadSignatureError:\n            globals()['_verdict'] = False\n        return globals()['_verdict']",
  "signature verdict passed through a module-level variable (two threads)")
# ---- C02
m("m02a", "C02", CONS, "    if sum(output.value for output in transaction.outputs) > fees + subsidy:", "    if sum(output.value for output in transaction.outputs) > fees + subsidy + 1:",
  "reward may exceed the bound by one")
m("m02b", "C02", CONS, "    if not (0 < value <= MAX_SASHIMI):", "    if not (0 <= value <= MAX_SASHIMI):", "zero-value outputs allowed")
m("m02c", "C02", CONS, "    validate_sashimi_range(total_transaction_output_value)\n", "    pass\n", "per-transaction total not range-checked")
m("m02d", "C02", CONS, "    if sum(output.value for output in transaction.outputs) > total_input_value:", "    if sum(output.value for output in transaction.outputs) > total_input_value + 1:",
  "overspend by one allowed")
m("m02e", "C02", CONS, "    fees = get_block_fees(block.transactions[1:], unspent_transaction_outs)\n    subsidy = get_block_subsidy(block.height)",
  "    fees = get_block_fees(block.transactions[1:], coinstate.unspent_transaction_outs_by_hash[coinstate.current_chain_hash] if all(i.output_reference in coinstate.unspent_transaction_outs_by_hash[coinstate.current_chain_hash] for t in block.transactions[1:] for i in t.inputs) else unspent_transaction_outs)\n    subsidy = get_block_subsidy(block.height)",
  "fees computed against the head's state")
# ---- C03
BAL = "skepticoin/balances.py"
m("m03a", "C03", BAL, "            for input in transaction.inputs:\n                # we don't explicitly check", "            for input in (transaction.inputs if len(transaction.inputs) != 2 else transaction.inputs[:1]):\n                # we don't explicitly check",
  "second input of two-input transactions stays unspent")
m("m03b", "C03", BAL, "                    [to for to in mutable_public_key_balances[public_key].output_references\n                     if to != input.output_reference]",
  "                    [to for to in mutable_public_key_balances[public_key].output_references\n                     if to != input.output_reference or to.index == 1]", "spent reference with index 1 stays listed")
m("m03c", "C03", "skepticoin/coinstate.py", "            unspent_transaction_outs = self.unspent_transaction_outs_by_hash[block.previous_block_hash]",
  "            unspent_transaction_outs = self.unspent_transaction_outs_by_hash[block.previous_block_hash if block.previous_block_hash == self.current_chain_hash or len(block.transactions) > 1 else self.current_chain_hash]",
  "coinbase-only fork blocks start from the head's unspent set")
# ---- C04
CS = "skepticoin/coinstate.py"
m("m04a", "C04", CS, "        elif block.get_total_work() > self.block_by_hash[self.current_chain_hash].get_total_work():", "        elif block.get_total_work() >= self.block_by_hash[self.current_chain_hash].get_total_work():",
  "ties switch the head")
m("m04b", "C04", CS, "            if block.previous_block_hash in mutable_heads:", "            if block.previous_block_hash in mutable_heads and len(mutable_heads) < 3:", "parent stays a tip when there are 3+ tips")
m("m04c", "C04", CS, "            block_by_height = self.block_by_height_by_hash[block.previous_block_hash]", "            block_by_height = self.block_by_height_by_hash[self.current_chain_hash if block.height > self.head().height + 0 and block.previous_block_hash != self.current_chain_hash else block.previous_block_hash]",
  "overtaking fork block gets the old head's height index")
# ---- C05
m("m05a", "C05", CONS, "    if block_summary.timestamp <= previous_block.timestamp:", "    if block_summary.timestamp < previous_block.timestamp:", "equal timestamps allowed")
m("m05b", "C05", "skepticoin/params.py", "MAX_FUTURE_BLOCK_TIME = 30", "MAX_FUTURE_BLOCK_TIME = 7200", "2 h future tolerance")
m("m05c", "C05", CONS, "    if block_summary.target != calculated_target:", "    if block_summary.target < calculated_target:", "easier targets accepted")
m("m05d", "C05", "skepticoin/datatypes.py", "            self.summary_hash == other.summary_hash and\n            self.chain_sample == other.chain_sample and\n            self.block_hash == other.block_hash",
  "            self.summary_hash == other.summary_hash and\n            self.block_hash == other.block_hash", "evidence comparison skips the chain sample")
m("m05e", "C05", CONS, "        interval_start_block = coinstate.block_by_height_by_hash[previous_block.hash()][interval_start_height]",
  "        interval_start_block = coinstate.by_height_at_head()[interval_start_height]", "retarget uses the head's ancestors")
m("m05f", "C05", CONS, "    if block.height != calculated_current_height:", "    if block.height < calculated_current_height:", "height may be overstated")
# ---- C06
m("m06a", "C06", "skepticoin/serialization.py", "    for _ in range(length):\n        result.append(clz.stream_deserialize(f))\n    return result",
  "    for _ in range(length):\n        try:\n            result.append(clz.stream_deserialize(f))\n        except SerializationTruncationError:\n            if len(result) < 1:\n                raise\n            break\n    return result",
  "list decoder tolerates a truncated tail")
m("m06b", "C06", CONS, "    block_hash = blake2(summary_hash + chain_sample + serialized_transactions)", "    block_hash = blake2(summary_hash + chain_sample + serialized_transactions[:-8])",
  "last 8 bytes of the transaction list left out of the evidence hash (and merkle check dropped below)")
# ---- C07
m("m07a", "C07", "skepticoin/serialization.py", "            if n_bytes != (result.bit_length() // 7) + 1:", "            if False:", "the repaired defect returns")
m("m07b", "C07", "skepticoin/serialization.py", "    needed_bytes: int = (i.bit_length() // 7) + 1", "    needed_bytes: int = ((i.bit_length() - 1) // 7) + 1 if i.bit_length() > 14 else (i.bit_length() // 7) + 1",
  "encoder changes width for large values (decoder check kept as is)")
m("m07c", "C07", "skepticoin/networking/messages.py", "        return cls(supported_versions, your_ip_address, your_port, my_ip_address, my_port, nonce, user_agent)",
  "        return cls(supported_versions, your_ip_address, your_port, my_ip_address, your_port, nonce, user_agent)", "hello codec drops my_port")
m("m07d", "C07", "skepticoin/datatypes.py", "        cached_hash = sha256d(f.read(end_position - start_position))\n\n        return cls(inputs, outputs, cached_hash)",
  "        cached_hash = sha256d(f.read(end_position - start_position)[:-1] + b'\\x00') if len(outputs) > 3 else sha256d(f.read(end_position - start_position))\n\n        return cls(inputs, outputs, cached_hash)",
  "cached id wrong for transactions with more than 3 outputs")
m("m07e", "C07", "skepticoin/serialization.py", "    def serialize(self) -> bytes:\n        f = BytesIO()\n        self.stream_serialize(f)",
  "    _scratch = BytesIO()\n\n    def serialize(self) -> bytes:\n        f = Serializable._scratch\n        f.seek(0)\n        f.truncate()\n        self.stream_serialize(f)",
  "one reusable encode buffer shared by all threads")
# ---- C08
BS = "skepticoin/blockstore.py"
m("m08a", "C08", BS, "                   from chain order by height\"\"\"", "                   from chain order by nonce\"\"\"", "rows ordered by nonce")
m("m08b", "C08", BS, "                        output.value,\n", "                        output.value % (1 << 32),\n", "values stored modulo 2^32")
m("m08c", "C08", BS, "                            [v for k, v in sorted(builder.inputs.items(), key=lambda i: i[0])],", "                            [v for k, v in sorted(builder.inputs.items(), key=lambda i: -i[0])],",
  "inputs come back in reverse order")
# ---- C09
RP = "skepticoin/networking/remote_peer.py"
m("m09a", "C09", RP, "            if block == coinstate_changed.head() and header.in_response_to == 0:", "            if header.in_response_to == 0:", "non-head blocks relayed")
m("m09b", "C09", RP, "                    DefaultBlockStore.instance.write_buffer.clear()  # don't save bad blocks\n", "", "bad block stays buffered")
m("m09c", "C09", RP, "            coinstate_changed = coinstate_prior.add_block_no_validation(block)\n            self.local_peer.disk_interface.save_block(block)\n",
  "            self.local_peer.disk_interface.save_block(block)\n            coinstate_changed = coinstate_prior.add_block_no_validation(block)\n", "the repaired defect returns")
m("m09d", "C09", RP, "                    validate_block_in_coinstate(block, coinstate_prior)  # very slow", "                    validate_block_in_coinstate(block, coinstate_changed)  # very slow",
  "validation against the state that already contains the block")
m("m09e", "C09", RP, "                    if self.local_peer.chain_manager.last_known_valid_coinstate:\n                        self.local_peer.chain_manager.set_coinstate(\n                            self.local_peer.chain_manager.last_known_valid_coinstate)",
  "                    if self.local_peer.chain_manager.last_known_valid_coinstate and block.height % 2:\n                        self.local_peer.chain_manager.set_coinstate(\n                            self.local_peer.chain_manager.last_known_valid_coinstate)\n                    else:\n                        self.local_peer.chain_manager.set_coinstate(coinstate_changed, validated=False)",
  "invalid blocks at even heights are kept")
# ---- C10
m("m10a", "C10", RP, "            for height in range(start_height, min(start_height + GET_BLOCKS_INVENTORY_SIZE, max_height))", "            for height in range(start_height + 1, min(start_height + GET_BLOCKS_INVENTORY_SIZE, max_height))",
  "inventory skips the first block")
m("m10b", "C10", RP, "            start_height = 1  # genesis is last known", "            start_height = max(1, coinstate.head().height - 20)  # genesis is last known", "no-common-ancestor fallback is not genesis")
m("m10c", "C10", RP, "        if self.local_peer.chain_manager.add_transaction_to_pool(transaction):", "        self.local_peer.chain_manager.add_transaction_to_pool(transaction)\n        if True:",
  "transactions relayed whether or not admitted")
m("m10d", "C10", "skepticoin/networking/manager.py", "    oldness = list(range(10)) + [pow(x, 2) for x in range(4, 64)]", "    oldness = list(range(10))", "locator has only the dense part")
# ---- C11
m("m11a", "C11", RP, "        if not self.magic_read and len(self.buffer) >= 4:", "        if not self.magic_read and len(self.buffer) > 4:", "magic needs 5 bytes")
m("m11b", "C11", RP, "            self.magic_read = False\n            self.len = None\n            self.receive(b\"\")", "            self.len = None\n            self.receive(b\"\")", "magic flag not reset")
m("m11c", "C11", RP, "            self.receive(b\"\")  # recurse to repeat (multiple messages could be received in a single socket read)\n", "", "no recursion for further messages in one read")
m("m11d", "C11", RP, "        if self.len is not None and self.len <= len(self.buffer):", "        if self.len is not None and self.len < len(self.buffer):", "message needs one extra byte")
m("m11e", "C11", RP, "            if self.len > MAX_MESSAGE_SIZE:  # type: ignore", "            if self.len > MAX_MESSAGE_SIZE + 1:  # type: ignore", "limit off by one")
# ---- C12
MI = "skepticoin/mining.py"
m("m12a", "C12", MI, "        self.coinstate = self.coinstate.add_block(block, int(time()))\n\n        self.network_thread.local_peer.chain_manager.set_coinstate(self.coinstate)\n        self.network_thread.local_peer.network_manager.broadcast_block(block)\n",
  "        self.network_thread.local_peer.chain_manager.set_coinstate(self.coinstate)\n        self.network_thread.local_peer.network_manager.broadcast_block(block)\n\n        self.coinstate = self.coinstate.add_block(block, int(time()))\n", "the repaired defect returns")
m("m12b", "C12", MI, "        increasing_time = max(int(time()), self.coinstate.head().timestamp + 1)", "        increasing_time = int(time())", "timestamp not forced past the parent's")
m("m12c", "C12", MI, "        self.network_thread.local_peer.network_manager.broadcast_block(block)\n", "", "found block not broadcast")
m("m12d", "C12", MI, "        self.network_thread.local_peer.disk_interface.flush_blocks()\n\n        print(f\"miner", "        print(f\"miner", "found block saved but not flushed")
m("m12e", "C12", CONS, "        value=subsidy + fees,\n", "        value=subsidy + fees if len(other_transactions) < 3 else subsidy,\n", "fees forgotten when 3+ transactions")
# ---- C13
MG = "skepticoin/networking/manager.py"
m("m13a", "C13", MG, "            self.coinstate = coinstate\n            self._cleanup_transaction_pool_for_coinstate(coinstate)", "            self._cleanup_transaction_pool_for_coinstate(coinstate)\n            self.coinstate = coinstate",
  "pool cleaned against the old state")
m("m13b", "C13", MG, "            self._cleanup_transaction_pool_for_coinstate(coinstate)\n            if validated:\n                self.last_known_valid_coinstate = coinstate",
  "            if validated:\n                self._cleanup_transaction_pool_for_coinstate(coinstate)\n                self.last_known_valid_coinstate = coinstate", "cleanup only on validated states")
m("m13c", "C13", MG, "                validate_no_duplicate_output_references_in_transactions(self.transaction_pool + [transaction])", "                validate_no_duplicate_output_references_in_transactions(self.transaction_pool[:-1] + [transaction])",
  "conflict test ignores the most recent pooled transaction")
# ---- C14
WA = "skepticoin/wallet.py"
m("m14a", "C14", WA, "            inputs.append(Input(output_reference, None))\n", "            wallet.spent_transaction_outputs.add(output_reference)\n            inputs.append(Input(output_reference, None))\n", "the repaired defect returns")
m("m14b", "C14", WA, "                        collected_value - (value + miners_fee),", "                        collected_value - value,", "change ignores the fee")
m("m14c", "C14", WA, "            if collected_value >= value + miners_fee:", "            if collected_value > value + miners_fee:", "exact amounts refused")
m("m14d", "C14", WA, "                if collected_value != value + miners_fee:", "                if collected_value != value:", "zero change output emitted when fee>0 / missing")
m("m14e", "C14", WA, "                wallet.spent_transaction_outputs.update(input.output_reference for input in inputs)\n", "                wallet.spent_transaction_outputs.update(input.output_reference for input in inputs[:1])\n", "only the first input recorded as used")
# ---- C15
m("m15a", "C15", WA, "    with open(\"wallet.json.new\", 'w') as f:\n        wallet.dump(f)\n\n    os.replace(\"wallet.json.new\", \"wallet.json\")", "    with open(\"wallet.json\", 'w') as f:\n        wallet.dump(f)", "wallet written in place")
m("m15b", "C15", WA, "        public_key = self.unused_public_keys.pop()", "        public_key = self.unused_public_keys[-1]\n        if len(self.unused_public_keys) % 3 != 0:\n            self.unused_public_keys.pop()", "every third hand-out leaves the key unused")
m("m15c", "C15", WA, "            \"unused_public_keys\": [human(e) for e in self.unused_public_keys],", "            \"unused_public_keys\": sorted(human(e) for e in self.unused_public_keys),", "unused list order lost in the file")
m("m15d", "C15", "skepticoin/scripts/receive.py", "    public_key = wallet.get_annotated_public_key(args.annotation)\n    save_wallet(wallet)\n\n    print(\"SKE\" + human(public_key) + \"PTI\")",
  "    public_key = wallet.get_annotated_public_key(args.annotation)\n    print(\"SKE\" + human(public_key) + \"PTI\")\n    save_wallet(wallet)\n", "address printed before the wallet is saved")
# ---- C16
m("m16a", "C16", "skepticoin/params.py", "SUBSIDY_HALVING_INTERVAL = 210_000 * FIVE", "SUBSIDY_HALVING_INTERVAL = 210_000 * FIVE + 1", "interval +1")
m("m16b", "C16", CONS, "    halvings = height // SUBSIDY_HALVING_INTERVAL\n", "    halvings = height // SUBSIDY_HALVING_INTERVAL\n    if height == 7_777_777:\n        return INITIAL_SUBSIDY\n", "one height special-cased")
m("m16c", "C16", "skepticoin/params.py", "MAX_SASHIMI = 2_099_999_986_350_000", "MAX_SASHIMI = 2_099_999_986_350_001", "limit +1")
# ---- C17
MT = "skepticoin/merkletree.py"
m("m17a", "C17", MT, "    if index_of_interest >= merkle_node.children[1].index:", "    if index_of_interest > merkle_node.children[1].index:", "proof descends the wrong way at a boundary")
m("m17b", "C17", MT, "        else:  # implied: len(chunk) == 1\n            new_list.append(chunk[0])\n\n    return get_merkle_root(new_list)", "        else:  # implied: len(chunk) == 1\n            new_list.append(sha256d(chunk[0] + chunk[0]))\n\n    return get_merkle_root(new_list)",
  "odd element duplicated (root function only)")
m("m17c", "C17", MT, "            new_list.append(sha256d(chunk[0] + chunk[1]))", "            buf = globals().setdefault('_pair', bytearray())\n            buf[:] = chunk[0]\n            buf.extend(chunk[1])\n            new_list.append(sha256d(buf))",
  "inner nodes assembled in one module-level buffer (two threads)")
# ---- C18
m("m18a", "C18", CONS, "            if block.hash() != computer(KNOWN_HASHES[block.height]):", "            if block.hash() != computer(KNOWN_HASHES[block.height]) and block.height % 1000:", "every second checkpoint not enforced")
m("m18b", "C18", CONS, "    if block.height <= MAX_KNOWN_HASH_HEIGHT:", "    if block.height < MAX_KNOWN_HASH_HEIGHT:", "horizon height itself escapes the checkpoint")
m("m18c", "C18", "skepticoin/cheating.py", "    500     : '00786517cfdd81bbab75cc7d9ca738038cab005b0e0a6205b2aa07bfa917db25',", "    500     : '00786517cfdd81bbab75cc7d9ca738038cab005b0e0a6205b2aa07bfa917db26',", "one checkpoint altered")
m("m18d", "C18", "skepticoin/hash.py", "N=1 << 15, r=8, p=1, buflen=32", "N=1 << 15, r=8, p=2, buflen=32", "scrypt parameter changed")
# ---- C19
m("m19a", "C19", MG, "        if key in self.disconnected_peers:\n            del self.disconnected_peers[key]\n        self._sanity_check()", "        self._sanity_check() if False else None", "connected peer stays in the disconnected map")
m("m19b", "C19", RP, "            TIME_TO_SECOND_CONNECTION_ATTEMPT * pow(2, self.ban_score),", "            TIME_TO_SECOND_CONNECTION_ATTEMPT * pow(2, min(self.ban_score, 2)),", "back-off stops growing after 2 failures")
m("m19c", "C19", "skepticoin/networking/disk_interface.py", "        with open(PEERS_JSON_FILE + \".new\", \"w\") as f:\n            json.dump(keep[:PEERS_JSON_MAX_LEN], f, indent=4)\n\n        os.replace(PEERS_JSON_FILE + \".new\", PEERS_JSON_FILE)",
  "        with open(PEERS_JSON_FILE, \"w\") as f:\n            json.dump(keep[:PEERS_JSON_MAX_LEN], f, indent=4)", "peer file written in place")
m("m19d", "C19", "skepticoin/networking/disk_interface.py", "json.dump(keep[:PEERS_JSON_MAX_LEN], f, indent=4)", "json.dump(keep[:PEERS_JSON_MAX_LEN + 1], f, indent=4)", "101 entries")
m("m19e", "C19", RP, "            elif key not in nm.connected_peers:\n                nm.disconnected_peers[key] = DisconnectedRemotePeer(self.host, message.my_port, OUTGOING,", "            else:\n                nm.disconnected_peers[key] = DisconnectedRemotePeer(self.host, message.my_port, OUTGOING,",
  "reverse-direction entry added although already connected")
m("m19f", "C19", RP, "            self.local_peer.network_manager.my_addresses.add((self.host, self.port))\n", "", "own address not remembered")
m("m19g", "C19", RP, "        if self.ban_score > MAX_CONNECTION_ATTEMPTS:\n            return False", "        if self.ban_score > MAX_CONNECTION_ATTEMPTS + 3:\n            return False", "gives up three failures late")
# ---- C20
LP = "skepticoin/networking/local_peer.py"
m("m20a", "C20", LP, "        except Exception as e:\n            # We take the position", "        except (ValueError, KeyError) as e:\n            # We take the position", "catch-all narrowed")
m("m20b", "C20", LP, "            self.disconnect(remote_peer, \"Exception\")", "            for p in list(self.network_manager.connected_peers.values()):\n                self.disconnect(p, \"Exception\")", "every peer dropped on one peer's error")
m("m20c", "C20", MG, "            try:\n                validate_non_coinbase_transaction_by_itself(transaction)\n", "            self.transaction_pool.append(transaction)\n            try:\n                self.transaction_pool.pop()\n                if len(transaction.outputs) == 0:\n                    self.transaction_pool.append(transaction)\n                validate_non_coinbase_transaction_by_itself(transaction)\n",
  "transactions without outputs are pooled before validation")
m("m20d", "C20", RP, "        if not self.hello_received:\n            raise Exception(\"First message must be Hello\")", "        if not self.hello_received and not isinstance(message, DataMessage):\n            raise Exception(\"First message must be Hello\")",
  "data messages accepted before the greeting")


def run(cmd, cwd=None, env=None, timeout=1800):
    p = subprocess.run(cmd, cwd=cwd, env=env, stdout=subprocess.PIPE, stderr=subprocess.STDOUT, timeout=timeout)
    return p.returncode, p.stdout.decode(errors="replace")


def main():
    ap = argparse.ArgumentParser()
    ap.add_argument("--only")
    ap.add_argument("--ids")
    ap.add_argument("--tier", default="quick")
    ap.add_argument("--out", default=os.path.join(HERE, "tools", "selftest_results.json"))
    ap.add_argument("--skip-tests", action="store_true")
    ap.add_argument("--replay-test", action="store_true")
    a = ap.parse_args()
    sel = M
    if a.only:
        props = set(a.only.split(","))
        sel = [x for x in sel if x["prop"] in props]
    if a.ids:
        ids = set(a.ids.split(","))
        sel = [x for x in sel if x["id"] in ids]
    results = {}
    if os.path.exists(a.out):
        try:
            results = json.load(open(a.out))
        except Exception:
            results = {}
    evdir = tempfile.mkdtemp(prefix="skv-selftest-ev-")
    for mt in sel:
        t0 = time.time()
        scratch = tempfile.mkdtemp(prefix="skv-mut-")
        copy = os.path.join(scratch, "repo")
        try:
            shutil.copytree(REPO, copy, ignore=shutil.ignore_patterns(".git", "__pycache__", "*.pyc", "chain.db", "test.db"))
            path = os.path.join(copy, mt["file"])
            src = open(path).read()
            if mt["old"] not in src:
                res = {"status": "stale", "detail": "pattern not found"}
            else:
                open(path, "w").write(src.replace(mt["old"], mt["new"], 1))
                rc, out = (0, "") if a.skip_tests else run(["/venv/bin/python", "-m", "pytest", "-q", "-p", "no:cacheprovider",
                                                            "--timeout=900"], cwd=copy)
                if rc != 0 and "test_integration" in out and out.count("FAILED") == out.count("FAILED tests/networking"):
                    # fixed TCP ports: another pytest on this machine makes the two integration tests fail spuriously
                    for _ in range(4):
                        time.sleep(4)
                        rc, out = run(["/venv/bin/python", "-m", "pytest", "-q", "-p", "no:cacheprovider", "--timeout=900"], cwd=copy)
                        if rc == 0 or not (out.count("FAILED") == out.count("FAILED tests/networking")):
                            break
                if rc != 0:
                    res = {"status": "killed-by-tests", "detail": out[-300:]}
                else:
                    env = dict(os.environ, VERIF_REPO=copy, VERIF_EVIDENCE_DIR=evdir, VERIF_REPLAY_DIR=evdir)
                    rc, out = run([os.path.join(HERE, "check"), mt["prop"], "--tier", a.tier], cwd=HERE, env=env)
                    keys = [l.strip()[:200] for l in out.splitlines() if l.strip().startswith("witness key=")]
                    if rc == 1 and "VIOLATION property=%s" % mt["prop"] in out:
                        res = {"status": "caught", "keys": keys[:4]}
                        if a.replay_test:
                            paths = [l.split("replay=")[1].strip() for l in out.splitlines() if l.startswith("VIOLATION")]
                            rrc, rout = run([os.path.join(HERE, "check"), mt["prop"], "--replay", paths[0]], cwd=HERE, env=env)
                            env0 = dict(env)
                            env0.pop("VERIF_REPO")
                            orc, oout = run([os.path.join(HERE, "check"), mt["prop"], "--replay", paths[0]], cwd=HERE, env=env0)
                            res["replay_on_mutant_rc"] = rrc
                            res["replay_on_unchanged_rc"] = orc
                    elif rc == 2:
                        res = {"status": "inconclusive", "detail": [l for l in out.splitlines() if l.startswith("INCONCLUSIVE")][:2]}
                    else:
                        res = {"status": "MISSED", "detail": out[-200:]}
        except Exception as e:
            res = {"status": "error", "detail": repr(e)}
        finally:
            shutil.rmtree(scratch, ignore_errors=True)
        res["note"] = mt["note"]
        res["prop"] = mt["prop"]
        res["secs"] = round(time.time() - t0, 1)
        results[mt["id"]] = res
        print("%-5s %-4s %-16s %5.1fs  %s  %s %s" % (mt["id"], mt["prop"], res["status"], res["secs"], mt["note"][:60],
                                                     (res.get("keys") or [""])[0][:90],
                                                     ("replay(mutant)=%s replay(unchanged)=%s" % (res.get("replay_on_mutant_rc"), res.get("replay_on_unchanged_rc")))
                                                     if "replay_on_mutant_rc" in res else ""))
        sys.stdout.flush()
        json.dump(results, open(a.out, "w"), indent=1, sort_keys=True)
    shutil.rmtree(evdir, ignore_errors=True)
    miss = [k for k, v in results.items() if v["status"] == "MISSED"]
    print("missed:", miss)


if __name__ == "__main__":
    main()
