#!/bin/sh
# re-runs the property's quick check against every filed seeded change (scratch copies; nothing in /repo is touched)
cd "$(dirname "$0")/.."
for d in seeded/*/; do
  id=$(basename "$d"); prop=$(echo "$id" | cut -d- -f1)
  r=$(python3 tools/seedcheck.py "$d" "$prop" --skip-confirm | python3 -c "
import json,sys
d=json.load(sys.stdin)
for c,v in d['checks'].items(): print(v['verdict'], '|', (v['witnesses'] or [''])[0][:110])")
  echo "$id $r"
done
