#!/usr/bin/env python3
"""tools/saveseed.py <seed dir> <property> <name> [--checks ...]: confirms the seeded change (seedcheck) and files it
under /verif/seeded/<name>/ (patch.diff, demonstration, meta.json incl. what was run and which check caught it)."""
import json, os, shutil, subprocess, sys
HERE = os.path.dirname(os.path.dirname(os.path.abspath(__file__)))
seed, prop, name = sys.argv[1], sys.argv[2], sys.argv[3]
extra = sys.argv[4:]
out = subprocess.run([sys.executable, os.path.join(HERE, "tools", "seedcheck.py"), seed, prop] + extra, stdout=subprocess.PIPE).stdout.decode()
rep = json.loads(out)
dst = os.path.join(HERE, "seeded", name)
os.makedirs(dst, exist_ok=True)
for f in os.listdir(seed):
    p = os.path.join(seed, f)
    if os.path.isfile(p) and f not in ("meta.json",) and os.path.getsize(p) < 400000:
        shutil.copy(p, os.path.join(dst, f))
meta = {}
if os.path.exists(os.path.join(seed, "meta.json")):
    try:
        meta = json.load(open(os.path.join(seed, "meta.json")))
    except Exception as e:
        meta = {"author_meta_unreadable": str(e)}
meta["property"] = prop
meta["confirmed_by_me"] = {k: rep.get(k) for k in ("demo_on_original", "patch_applies", "test_suite_with_change", "demo_with_change")}
meta["what_i_ran"] = "tools/seedcheck.py: scratch copy of /repo; demo on original; patch -p1; full pytest; demo with change; ./check <id> --tier quick with VERIF_REPO=<copy>"
meta["checks"] = rep.get("checks")
json.dump(meta, open(os.path.join(dst, "meta.json"), "w"), indent=1)
print(name, prop, {k: v["verdict"] for k, v in rep.get("checks", {}).items()}, meta["confirmed_by_me"])
