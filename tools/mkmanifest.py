#!/usr/bin/env python3
"""Regenerates /verif/MANIFEST.json from the table below (one entry per built property module)."""
import json
import os

HERE = os.path.dirname(os.path.dirname(os.path.abspath(__file__)))

BASELINE_OFF = ("cd /repo && env -u SKEPTICOIN_VERIF /venv/bin/python -m pytest -ra -q -p no:cacheprovider "
                "--timeout=900 --continue-on-collection-errors")

COMMON_NOTE = ("Runtime monitoring: verdict covers only the executions produced. Trusted: the reference model "
               "skv/ref.py (self-tested against genesis and the recorded network blocks on every run), hashlib, ecdsa, "
               "sqlite3, immutables, CPython. ")

# pid -> (category, technique, text, note, design_ref)
N = COMMON_NOTE
CHECKS = {
    "C01": ("exploration", "runtime monitor on CoinState.add_block + reference-model oracle over generated adversarial candidates",
            "Every add_block call on generated block trees (forks, reorganisations) is recorded at the boundary; an accepted "
            "candidate is re-judged by an independent ledger replay and ECDSA check, a rejected one must leave the receiver's deep "
            "fingerprint unchanged and usable. 12 adversarial spend classes, each re-mined so that only the spend rule is broken "
            "(confirmed per candidate by the reference). Exploration is the right level: the quantifier ranges over all histories "
            "and attacker inputs, which running code can only sample.",
            N + "Scrypt is replaced by a stand-in and the checkpoint horizon disabled in this lane (C18/C05 tie back to the real ones).",
            "DESIGN.md 4/C01"),
    "C02": ("exploration", "conservation monitor on accepted blocks + direct-call oracle on synthetic ledgers",
            "After every accepted block sums are read from the real per-block unspent maps and compared with the literal subsidy "
            "schedule and reference fees; 18 value/reward candidate classes incl. exact bound, bound+1, zero/over-limit/wrapping "
            "values; the real transaction and reward validators are also called directly on synthetic ledgers with values up to "
            "and beyond the maximum supply, both directions compared with the reference predicate.",
            N + "Stand-in scrypt, horizon disabled; synthetic ledgers are built with the public CoinState constructor.",
            "DESIGN.md 4/C02"),
    "C03": ("exploration", "state-comparison monitor after every block arrival vs reference replay; snapshot re-fingerprinting",
            "Per-block unspent sets and per-key balances of the real state are compared with a replay of the block's ancestors "
            "in the reference ledger after every arrival, under several (for small trees all) parent-before-child arrival orders; "
            "every state object ever returned is fingerprinted at creation and again later.",
            N + "One auxiliary shard runs under -X dev (debug allocator) for the immutables C map; never the deciding step.",
            "DESIGN.md 4/C03"),
    "C04": ("exploration", "exhaustive enumeration of arrival histories + invariant check after every arrival",
            "All parent vectors up to 7 (quick) / 9 (thorough) blocks after genesis are executed through the real CoinState and "
            "after every arrival head, tip set, by-height index at every block and forks() are compared with a 30-line reference "
            "over the parent vector; plus random long histories of mined blocks through the validating entry point. Exhaustive "
            "within the bound, sampled beyond.",
            N, "DESIGN.md 4/C04"),
    "C05": ("exploration", "runtime monitor on add_block with single-rule-broken header candidates; pure-function differential lanes",
            "16 header candidate classes (work, target, height, time, evidence), a short-retarget-period configuration lane with "
            "forks crossing boundaries with different timings, clock boundary pairs, every block from the node's own assembly "
            "judged by both sides, retarget arithmetic and chain sampling compared on boundary/random inputs; thorough adds the "
            "documented 10,080 period over a prefix and blocks mined with the unreplaced scrypt.",
            N + "Quick tier uses the stand-in scrypt and a shortened retarget period (configuration lane) next to the real period.",
            "DESIGN.md 4/C05"),
    "C06": ("fault_enumeration", "exhaustive single-bit-flip and truncation injection on block encodings, judged by the real decoder and validator",
            "Every bit and every truncation point of each fuzzed block is injected; whatever still decodes goes through the full "
            "validation path on the state without and with the original block. Exhaustive per block, sampled over blocks.",
            N + "Stand-in scrypt for generated chains; the thorough tier repeats it on the recorded real blocks with the real scrypt.",
            "DESIGN.md 4/C06"),
    "C07": ("exploration", "round-trip and decode/re-encode monitors over generated values and mutated byte strings",
            "Encode-decode-encode on generated values of every serializable class compared field by field and with an independent "
            "encoder; every consensus decoder is offered structure-aware mutations (alternative length-prefix encodings at every "
            "position, tags, truncation, trailing data) and random bytes, and what decodes must re-encode to the consumed bytes; "
            "ids from bytes, from the store and from constructors are compared with the hash of the canonical encoding.",
            N, "DESIGN.md 4/C07"),
    "C08": ("exploration", "offline checker over the write log vs reloads of a file-backed store",
            "Random block trees (shared pending transactions across forks, multi-input transactions) are written with random "
            "batching; after flushes a fresh BlockStore on the same file must yield exactly the written blocks, byte-identical, "
            "parents first, and the real read_chain_from_disk must rebuild the same per-block ledger and head height.",
            N + "One known finding (shared transaction id across stored blocks) is listed in KNOWN_FINDINGS.txt and keyed by mechanism.",
            "DESIGN.md 4/C08"),
    "C09": ("exploration", "per-delivery monitors on a real node (state, store rows, write buffer, pool, peers' inboxes) on an in-memory transport",
            "Histories of unsolicited block deliveries (valid on any fork, duplicates, orphans, every by-itself and in-state defect "
            "class incl. apply-error blocks) to a real LocalPeer with the real store; after each delivery the node's state is "
            "compared with the reference verdict, the chain table is read through a second connection, relays are counted per "
            "peer by an independent frame parser.",
            N + "OS sockets are replaced by an in-memory transport; the real entry points under the selector loop are driven directly.",
            "DESIGN.md 4/C09"),
    "C10": ("exploration", "deterministic network simulation of 2-3 real nodes with seeded schedules; offline relay-count and end-state checkers",
            "Scenarios (tree parts per node, topology, batch size) x seeded schedules of deliveries, partial reads/writes, timer "
            "steps and clock jumps; liveness is decided only as bounded progress (quiescence at the greatest initial height within "
            "R drain rounds); relay calls are logged per node and id.",
            N + "Unbounded 'eventually' is out of reach for runtime monitoring; R = 100 + 4*ceil(blocks/batch) rounds of 61 virtual seconds.",
            "DESIGN.md 4/C10"),
    "C11": ("exploration", "exhaustive 2-/3-way fragmentation of short streams through the real receiver, history checked against a reference frame parser",
            "Every frame carries a unique id, so the delivered sequence is an unambiguous history; all 2- and 3-way cuts of short "
            "streams, byte-at-a-time and random k-way cuts of longer ones; corrupted magic/length/payload must be refused at that "
            "frame under every fragmentation.",
            N, "DESIGN.md 4/C11"),
    "C12": ("exploration", "monitors on the miner's two real handlers driven in a nonce loop, with real node, store and wallet",
            "Every candidate with id below target is judged by the reference and by the node's own validation before the "
            "found-block handler runs; afterwards served chain state, chain table, peers' inboxes and a GetData probe are checked.",
            N + "Clocks restricted to >= head timestamp - 29 (no valid child exists below that).",
            "DESIGN.md 4/C12"),
    "C13": ("exploration", "invariant-at-hook on the pool snapshot after every operation; auxiliary real-thread lane",
            "After every submission (16 classes, API and wire) and every head change (extension, conflicting block, direct "
            "replacement to any stored block, fork overtaking) the lock-protected snapshot is judged by the reference ledger at "
            "the snapshot's head; eviction must be exact.",
            N, "DESIGN.md 4/C13"),
    "C14": ("exploration", "ensure-style contract around the real spend builder with a snapshot of the used-output record",
            "Sequences of spend requests (below / at / one above / far above the spendable total, subset sums, fees) on wallets "
            "over generated chains; returned transactions are validated by the reference and the node's validators, change and "
            "recipient are checked exactly, failures must leave the record unchanged.",
            N, "DESIGN.md 4/C14"),
    "C15": ("fault_enumeration", "syscall-level SIGKILL injection (strace) and statement-level exit injection on the save; model-based sequence monitor",
            "Every syscall and every statement boundary of a wallet save (several wallet sizes) and of the receive script is a "
            "crash point; the file must be the complete old or new wallet and a printed address must never be handed out again. "
            "Hand-out/restore/save/load sequences are checked against a model with an icontract class invariant.",
            N + "Crash = process kill; power loss (no fsync in the code) is not claimed.",
            "DESIGN.md 4/C15"),
    "C16": ("exploration", "exhaustive runtime evaluation of the real subsidy function + constant/doc cross-check",
            "The real get_block_subsidy is executed on every one of the 31.5 M heights with non-zero subsidy, on every era "
            "boundary up to 2^32 and on random heights up to 2^64; each result is compared with the documented schedule, "
            "monotonicity is checked pairwise and the supply is summed from the calls themselves.",
            N + "The documented literals (10 coin, 1,050,000, 20,999,999.8635) are written in the harness.",
            "DESIGN.md 4/C16"),
    "C17": ("exploration", "differential monitor on commitments of structurally edited id lists; independent proof fold",
            "All single structural edits of base lists of length 1-10 (exhaustive per list) and random edits up to length 2000; "
            "every proof is folded by the harness and followed along the path its position prescribes.",
            N + "Entries are fresh random ids, never hashes of other entries (second-preimage resistance of SHA-256 is assumed).",
            "DESIGN.md 4/C17"),
    "C18": ("exploration", "direct monitors on the real checkpoint table and the recorded network blocks under the unreplaced scrypt",
            "All 327 checkpoint heights x right/wrong ids against the real table (itself compared with a recorded copy), the "
            "add_block path over a prefix, a horizon=k configuration lane with fully valid generated chains, and genesis + recorded "
            "blocks validated with the real scrypt and independently recomputed evidence.",
            N + "Only 5 real blocks beyond genesis are recorded in the repository.",
            "DESIGN.md 4/C18"),
    "C19": ("exploration", "event-sequence simulation with class invariant (icontract) on the peer book, offline back-off checker, crash injection on the peer file",
            "Random event sequences on a real LocalPeer over a virtual clock; disjointness checked after every event and at every "
            "public method boundary; back-off recomputed from the logged attempts and disconnects; 2,900 consecutive failures in "
            "the documented-value lane; peer file judged after every write and at every crash point.",
            N, "DESIGN.md 4/C19"),
    "C20": ("exploration", "hostile-stream injection on one connection of a real node while honest connections are probed",
            "Corrupted/truncated/spliced/reordered real traffic, undecodable payloads, unknown types, bad framing, invalid blocks "
            "and transactions of every class, under random fragmentation; fingerprints of state, pool, store and write buffer "
            "must not change, nothing may escape the entry points, honest peers must keep being served.",
            N + "Structurally valid blocks sent as bulk-download replies are outside the statement (taken unvalidated by design).",
            "DESIGN.md 4/C20"),
}

EXTRA = {
    "C04": " Head, tips and block count of up to 60 chain states obtained earlier in a history are read again after every later arrival."
           " A route lane runs the download-route stories of the relay-path check (blocks announced, requested, arriving unrequested, late, before their parent, again with another body) on a real node with this check's classes of rule-breaking blocks.",
    "C03": " A two-thread lane puts two balance queries on one chain-state object (one held at a source location while the other completes) and repeats them afterwards."
           " A route lane runs the download-route stories of the relay-path check (blocks announced, requested, arriving unrequested, late, before their parent, again with another body) on a real node with this check's classes of rule-breaking blocks.",
    "C01": " Candidates refused once are offered again later (verdicts must not depend on history). A node lane delivers candidates "
           "over the wire to a real node, reloads its store by a restart and checks that nothing refused is part of the rebuilt state."
           " A two-thread lane holds one validation at statement boundaries of the validation modules (sys.monitoring) while another thread validates another candidate: verdicts must be the solo verdicts.",
    "C02": " Candidates refused once are offered again later. A node lane delivers candidates over the wire with an emulated miner "
           "acting inside the validation window."
           " A two-thread lane holds one validation at statement boundaries of the validation modules (sys.monitoring) while another thread validates another candidate: verdicts must be the solo verdicts."
           " A route lane runs the download-route stories of the relay-path check (blocks announced, requested, arriving unrequested, late, before their parent, again with another body) on a real node with this check's classes of rule-breaking blocks.",
    "C05": " Candidates refused once are offered again later. The miner front end is driven across retarget-period boundaries with "
           "a ticking clock and every candidate it hands out is judged by the reference and the node's own validation."
           " A two-thread lane holds one validation at statement boundaries of the validation modules (sys.monitoring) while another thread validates another candidate: verdicts must be the solo verdicts."
           " Some worlds are judged on the chain state a restarted node rebuilds from a block store the code under test created."
           " A route lane runs the download-route stories of the relay-path check (blocks announced, requested, arriving unrequested, late, before their parent, again with another body) on a real node with this check's classes of rule-breaking blocks.",
    "C07": " Every id asked of a Transaction or Block anywhere in the workload is compared with the hash of its canonical encoding "
           "(invariant at a hook). A two-thread lane holds one decode/encode/id computation at statement boundaries of the codec "
           "modules (sys.monitoring) while another thread does the same with another value.",
    "C08": " A thread lane hands blocks to the store while another thread flushes, with a delay injected after the sqlite write. "
           "A large-store lane writes and reloads thousands of blocks on several equal-height branches."
           " A third of the histories are stamped ahead of the machine's wall clock (2033, near 2^32)."
           " A route lane runs the download-route stories of the relay-path check (blocks announced, requested, arriving unrequested, late, before their parent, again with another body) on a real node with this check's classes of rule-breaking blocks.",
    "C06": " A genuine block is decoded before each truncated one (the decode result must not depend on earlier decodes)."
           " A two-thread lane validates altered copies whose nonce was ground until the id is below target again while another thread validates or encodes the genuine block."
           " A route lane runs the download-route stories of the relay-path check (blocks announced, requested, arriving unrequested, late, before their parent, again with another body) on a real node with this check's classes of rule-breaking blocks.",
    "C10": " A fifth of the runs place all nodes on one host. Plus EVERY choice sequence of length 4 / 6 over the enabled actions "
           "(accept, read, write, timer step) of three two-node scenarios, executed from scratch and then drained."
           " A third of the runs give every node its own clock offset (seconds to hours); a late-learner scenario (line, both ends behind NAT); a quarter of the runs use send buffers that take a few hundred bytes per writable event.",
    "C20": " A non-interference lane runs the same honest script twice -- a second peer silent vs. announcing the same blocks and "
           "then failing -- and compares the traffic to each honest peer, the final state and the downloaded blocks. Peer-book "
           "stories (up to 1000 announced addresses, some really listening, a second greeting, several manager steps) are among "
           "the hostile streams."
           " Early-block stories: rule-breaking blocks stamped around the future tolerance, then the clock moves on and the timers fire.",
    "C09": " Rejected blocks are delivered again later; plus EVERY sequence of 3 (quick) / 5 (thorough) deliveries from an 8-event "
           "alphabet on a small chain."
           " Download-route stories: child before its parent's answer, unrequested block while a request is open, announced then sent unrequested, late answer after the child, answers + lower relayed block + refusal, same header over another body, altered copy while holding answers.",
    "C11": " A socket lane drives the full path below the selector with harness-chosen read sizes; an auxiliary lane runs the "
           "repository's integration tests on real TCP with a per-connection order monitor. A many-frames lane sends one large frame "
           "followed by 1100-1500 minimal ones under four arrival schedules with the transport handing over as much as the node asks for."
           " In half of the socket-lane cases the node's timers fire between reads with a standing, ticking or jumping clock."
           " The message handed to the node is re-encoded at delivery and compared with the frame's bytes; streams announcing and delivering recorded real blocks are repeated on six connections of one node.",
    "C12": " Transactions keep entering the pool while the nonce loop runs. Between found blocks the head is moved by peers: a block "
           "stamped ahead of the clock between two work requests, a sibling between request and hit, and a longer branch that "
           "reorganises the node's own block away while the pool holds spends of the abandoned branch."
           " A third of the set-ups use send buffers that take 300 / 4096 bytes per writable event (EAGAIN after a send cut short)."
           " Candidates are the blocks the real found-block handler builds (constructor watched, handler stopped before adoption); another miner process asks for work between request and hit; the head may be an unvalidated download answer.",
    "C13": " Refused transactions are submitted again later; plus EVERY sequence of 4 / 5 operations from a 9-operation alphabet on "
           "a small forked world."
           " In a quarter of the submissions the debugging copy of a refused transaction cannot be written (ENOSPC).",
    "C14": " Plus EVERY sequence of 3 / 4 requests from a 19-request alphabet on a small wallet."
           " 30 % of the requests are served while another thread hands out (and gives back) a key on the same wallet object, held at one source location of the wallet module.",
    "C15": " After every crash point the process is restarted through the scripts' own wallet open (the file is judged again), "
           "then a completed (shorter) save must produce exactly the saved wallet."
           " Balances are asked after every block of a growing chain, also while a competing branch overtakes the head.",
    "C16": " A history lane asks heights in random order with repeats (the schedule must be a function of the height alone)."
           " A two-thread shard asks the schedule from two threads at once, every trial from the module state of a fresh process, and re-reads the whole schedule afterwards."
           " A route lane runs the download-route stories of the relay-path check (blocks announced, requested, arriving unrequested, late, before their parent, again with another body) on a real node with this check's classes of rule-breaking blocks.",
    "C17": " A consensus lane computes header commitments of edited transaction lists back to back through "
           "consensus.calc_merkle_root_hash. A two-thread lane pre-empts one computation at every statement boundary / function "
           "entry of the commitment code (sys.monitoring) while another thread computes commitment, tree and proof of another list."
           " A miner-route lane (C12's set-up) requires every found block to carry the commitment of its own transaction list.",
    "C18": " The recorded blocks are also validated while a competing block is the head."
           " Pairs of recorded blocks are validated in two threads at once (true scrypt values from a table) and again afterwards.",
    "C19": " EVERY sequence of 5 / 6 events from an 8-event alphabet on one address with a clock that moves in seconds; auxiliary "
           "lane: the repository's integration tests (real sockets and threads) with the disjointness monitor attached. After "
           "every crash point of the peer-file write the node's start-up read and a completed write are run."
           " Addresses can be unreachable (connect fails at once) as well as refusing.",
}

PENDING_REASON = "check not built yet in this revision of /verif (work in progress; no claim made)"


def main():
    props = [json.loads(l)["id"] for l in open(os.path.join(HERE, "properties.jsonl")) if l.strip()]
    checks = []
    for pid in props:
        if pid not in CHECKS:
            continue
        cat, tech, text, note, dref = CHECKS[pid]
        checks.append({
            "property_id": pid,
            "quick_cmd": "./check %s --tier quick" % pid,
            "thorough_cmd": "./check %s --tier thorough" % pid,
            "evidence_file": "/verif/evidence/%s.json" % pid,
            "replay_cmd_template": "./check %s --replay {path}" % pid,
            "engine": "skv",
            "level_claimed": {"category": cat, "text": text + EXTRA.get(pid, ""), "design_ref": dref},
            "level_note": note,
            "technique": tech,
        })
    na = [{"property_id": p, "reason": NOT_APPLICABLE.get(p, PENDING_REASON)} for p in props if p not in CHECKS]
    man = {
        "version": 1,
        "setup_cmd": "sh ./setup.sh",
        "hooks": {
            "guard": "SKEPTICOIN_VERIF",
            "enable": "the harness sets SKEPTICOIN_VERIF=1 in every worker and attaches monitors by wrapping module/class "
                      "attributes of the freshly imported working tree; no source hook is compiled in",
            "baseline_off_cmd": BASELINE_OFF,
            "source_commits": [],
            "add_only": True,
        },
        "engines": [{"name": "skv", "path": "/verif/skv", "serves_properties": sorted(CHECKS),
                     "kind_free_text": "runtime monitoring harness: workload generators, reference-model oracles, "
                                       "invariant hooks, in-memory network simulator, crash injector"}],
        "checks": checks,
        "not_applicable": na,
        "notes": "Family: runtime monitoring and sanitizers. Compiler sanitizers do not apply (pure-Python repository, "
                 "see DESIGN.md 1). Exit codes: 0 held, 1 violation (VIOLATION line), 2 inconclusive.",
    }
    with open(os.path.join(HERE, "MANIFEST.json"), "w") as f:
        json.dump(man, f, indent=1)
    print("checks:", [c["property_id"] for c in checks], "pending:", [x["property_id"] for x in na])


NOT_APPLICABLE = {}

if __name__ == "__main__":
    main()
