#!/usr/bin/env python3
"""Regenerates /verif/MANIFEST.json from the table below (one entry per built property module)."""
import json
import os

HERE = os.path.dirname(os.path.dirname(os.path.abspath(__file__)))

BASELINE_OFF = ("cd /repo && env -u SKEPTICOIN_VERIF /venv/bin/python -m pytest -ra -q -p no:cacheprovider "
                "--timeout=900 --continue-on-collection-errors")

COMMON_NOTE = ("Runtime monitoring: verdict covers only the executions produced. Trusted: the reference model "
               "skv/ref.py (self-tested against genesis and the recorded network blocks on every run), hashlib, ecdsa, "
               "sqlite3, immutables, CPython. ")

# pid -> (category, technique, text, note, design_ref)
CHECKS = {
    "C16": ("exploration", "exhaustive runtime evaluation of the real subsidy function + constant/doc cross-check",
            "The real get_block_subsidy is executed on every one of the 31.5 M heights with non-zero subsidy, on every era "
            "boundary up to 2^32 and on random heights up to 2^64; each result is compared with the documented schedule, "
            "monotonicity is checked pairwise and the supply is summed from the calls themselves and compared with the "
            "documented maximum and the validator's amount limit. Exhaustive over the stated finite domain, so as strong "
            "as running the code can get.",
            COMMON_NOTE + "The documented literals (10 coin, 1,050,000, 20,999,999.8635) are written in the harness.",
            "DESIGN.md 4/C16"),
}

PENDING_REASON = "check not built yet in this revision of /verif (work in progress; no claim made)"


def main():
    props = [json.loads(l)["id"] for l in open(os.path.join(HERE, "properties.jsonl")) if l.strip()]
    checks = []
    for pid in props:
        if pid not in CHECKS:
            continue
        cat, tech, text, note, dref = CHECKS[pid]
        checks.append({
            "property_id": pid,
            "quick_cmd": "./check %s --tier quick" % pid,
            "thorough_cmd": "./check %s --tier thorough" % pid,
            "evidence_file": "/verif/evidence/%s.json" % pid,
            "replay_cmd_template": "./check %s --replay {path}" % pid,
            "engine": "skv",
            "level_claimed": {"category": cat, "text": text, "design_ref": dref},
            "level_note": note,
            "technique": tech,
        })
    na = [{"property_id": p, "reason": NOT_APPLICABLE.get(p, PENDING_REASON)} for p in props if p not in CHECKS]
    man = {
        "version": 1,
        "setup_cmd": "sh ./setup.sh",
        "hooks": {
            "guard": "SKEPTICOIN_VERIF",
            "enable": "the harness sets SKEPTICOIN_VERIF=1 in every worker and attaches monitors by wrapping module/class "
                      "attributes of the freshly imported working tree; no source hook is compiled in",
            "baseline_off_cmd": BASELINE_OFF,
            "source_commits": [],
            "add_only": True,
        },
        "engines": [{"name": "skv", "path": "/verif/skv", "serves_properties": sorted(CHECKS),
                     "kind_free_text": "runtime monitoring harness: workload generators, reference-model oracles, "
                                       "invariant hooks, in-memory network simulator, crash injector"}],
        "checks": checks,
        "not_applicable": na,
        "notes": "Family: runtime monitoring and sanitizers. Compiler sanitizers do not apply (pure-Python repository, "
                 "see DESIGN.md 1). Exit codes: 0 held, 1 violation (VIOLATION line), 2 inconclusive.",
    }
    with open(os.path.join(HERE, "MANIFEST.json"), "w") as f:
        json.dump(man, f, indent=1)
    print("checks:", [c["property_id"] for c in checks], "pending:", [x["property_id"] for x in na])


NOT_APPLICABLE = {}

if __name__ == "__main__":
    main()
