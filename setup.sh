#!/bin/sh
# offline: third-party helpers beside the repo's interpreter (icontract for class invariants, jsonschema
# for evidence validation).  Wheels come from the sandbox's wheelhouse; no network.
HERE="$(cd "$(dirname "$0")" && pwd)"
PIP_NO_INDEX=1 /venv/bin/pip install --quiet --no-index --find-links /opt/veriftools/wheels \
    --target "$HERE/.deps" --upgrade icontract jsonschema 2>&1 | grep -v -i "warning" 
/venv/bin/python -c "import sys; sys.path.append('$HERE/.deps'); import icontract, jsonschema; print('deps ok')"
